(* C04 — proofs about the interleaving model (C04Model.v): one login attempt on a quiescent layer,
   any schedule of the network thread and the handshake worker, any number of transport segments. *)
From YV Require Import Common.Tac C04.C04Model.

(* ------------------------------------------------------------------ small list facts *)
Lemma ups_app l e : ups (l ++ [e]) = ups l ++ match e with EUp c x => [(c, x)] | _ => [] end.
Proof. induction l as [|a l IH]; cbn; [destruct e; reflexivity|]. destruct a; cbn; rewrite IH; reflexivity. Qed.

Lemma persists_app l e : persists (l ++ [e]) = persists l ++ match e with EPersist r => [r] | _ => [] end.
Proof. induction l as [|a l IH]; cbn; [destruct e; reflexivity|]. destruct a; cbn; rewrite IH; reflexivity. Qed.

Lemma failures_app l e :
  failures (l ++ [e]) = failures l ++ match e with EEvent => [EEvent] | EFailure => [EFailure] | _ => [] end.
Proof. induction l as [|a l IH]; cbn; [destruct e; reflexivity|]. destruct a; cbn; rewrite IH; reflexivity. Qed.

Lemma number_app c xs x :
  number c (xs ++ [x]) = number c xs ++ [((c + N.of_nat (length xs))%N, x)].
Proof.
  revert c; induction xs as [|y xs IH]; intros c; cbn [number app length].
  - rewrite N.add_0_r. reflexivity.
  - rewrite IH. cbn [app].
    replace (c + N.of_nat (S (length xs)))%N with (c + 1 + N.of_nat (length xs))%N by lia. reflexivity.
Qed.

Lemma map_snd_number c xs : map snd (number c xs) = xs.
Proof. revert c; induction xs as [|y xs IH]; intros c; cbn; [reflexivity|]. rewrite IH. reflexivity. Qed.

Lemma lookup_head c a b : lookup c ((c, a) :: b) = Some a.
Proof. cbn. rewrite N.eqb_refl. reflexivity. Qed.

Lemma ups_step l c x :
  ups l = number 0 (map snd (ups l)) -> c = N.of_nat (length (map snd (ups l))) ->
  ups (l ++ [EUp c x]) = number 0 (map snd (ups (l ++ [EUp c x]))).
Proof.
  intros H1 H2. rewrite ups_app, map_app. cbn [map snd]. rewrite number_app, <- H1, <- H2, N.add_0_l. reflexivity.
Qed.

Lemma len_step l c x :
  c = N.of_nat (length (map snd (ups l))) ->
  (c + 1)%N = N.of_nat (length (map snd (ups (l ++ [EUp c x])))).
Proof. intros H. rewrite ups_app, map_app, app_length. cbn [map length]. lia. Qed.

Lemma dl_step l c x : map snd (ups (l ++ [EUp c x])) = map snd (ups l) ++ [x].
Proof. rewrite ups_app, map_app. reflexivity. Qed.

Lemma if_cases {A} (b : bool) (x y : A) : (if b then x else y) = x \/ (if b then x else y) = y.
Proof. destruct b; auto. Qed.

Ltac inv_some0 H :=
  apply Some_inj in H;
  repeat match type of H with
         | (_, _) = (_, _) => let H2 := fresh "E" in apply pair_inj in H; destruct H as [H H2]
         end; subst.

Lemma flush_step_workers me f s l s1 r : flush_step me f s = Some (l, s1, r) -> workers s1 = workers s.
Proof.
  unfold flush_step. intros H. destruct f.
  - destruct (lock s); [discriminate|]. inv_some0 H. reflexivity.
  - inv_some0 H. reflexivity.
  - destruct (is_tr (ps s)); inv_some0 H; reflexivity.
  - destruct (inq s) as [|[]]; [discriminate| |]; inv_some0 H; reflexivity.
  - inv_some0 H. reflexivity.
Qed.

Lemma hs_step_workers s w l s1 p : hs_step s w = Some (l, s1, p) -> workers s1 = workers s.
Proof.
  unfold hs_step. intros H. destruct (w_pc w); try discriminate.
  - inv_some0 H. reflexivity.
  - destruct (ps s); inv_some0 H; reflexivity.
  - unfold hello_pres in H. destruct (w_rs w =? 0)%N; destruct (lookup (conn s) (bound s)); inv_some0 H; reflexivity.
  - destruct (inq s); [discriminate|]. inv_some0 H. reflexivity.
  - inv_some0 H. reflexivity.
  - destruct (is_hs (ps s)); inv_some0 H; [destruct (lrs s =? nrs)%N|]; reflexivity.
  - inv_some0 H. reflexivity.
  - destruct (flush_step (w_att w + 1) f s) as [[[l' s'] r]|] eqn:Ef; [|discriminate].
    apply flush_step_workers in Ef. destruct r; inv_some0 H; assumption.
  - destruct (ps s); inv_some0 H; reflexivity.
  - inv_some0 H. reflexivity.
  - inv_some0 H. reflexivity.
Qed.

(* ------------------------------------------------------------------ the scenario *)
Section OneAttempt.
  Variables (p0 : pst) (c0 stored0 lrs0 g0 : N) (ws0 : list worker) (e : bool) (cn0 : N)
            (b0 : list (N * N)) (pc0 : ccfg) (pres0 : list pentry) (cfg : ccfg)
            (hsid : N) (ok : bool) (static : N) (dsids : list N).

  Hypothesis Hp0 : p0 <> PHs.                            (* a disconnect/reset preceded: not mid-handshake *)
  Hypothesis Hws : Forall (old_ok g0) ws0.               (* earlier workers have all terminated *)
  Hypothesis Hb0 : lookup (cn0 + 1) b0 = None.           (* the new connection is new *)

  Definition cn := (cn0 + 1)%N.
  Definition hello := SHello hsid cn ok static.
  Definition data := map SData dsids.
  Definition nrs := negotiated stored0 static.
  (* the server's answer authenticates and fits the pattern the client chose *)
  Definition auth_ok := ok && negb ((stored0 =? 0)%N && (static =? 0)%N).
  Hypothesis Hfail : auth_ok = false -> dsids = [].      (* a server that failed authentication sends no frames *)

  Definition S0 := start p0 c0 stored0 lrs0 g0 ws0 e cn0 b0 pc0 pres0 cfg hello data.
  Definition tail := NSeg hello :: map NSeg data.

  (* ---- what this attempt presents: the IK client hello (a key is stored) and/or the client finish
     (the server hello carried a static: XX, XXfallback) carry exactly cfg on connection cn *)
  Definition fin : bool := negb (static =? 0)%N || (stored0 =? 0)%N.
  Definition hello_entry : list pentry := if (stored0 =? 0)%N then [] else [(cn, 1%N, cfg)].
  Definition finish_entry : list pentry := if fin then [(cn, 2%N, cfg)] else [].
  Definition presented_ok : list pentry := hello_entry ++ finish_entry.

  (* ---- functions of the worker's pc *)
  Definition taken (h : hpc) : list seg :=
    match h with HReset | HStart | HHello | HGet => [] | _ => [hello] end.
  Definition wrote_hello (h : hpc) : bool :=
    match h with HReset | HStart | HHello => false | _ => true end.
  Definition ps_of (h : hpc) : pst :=
    match h with
    | HReset => p0 | HStart => PInit
    | HHello | HGet | HFinish _ | HSetT _ | HSetE => PHs
    | HPersist _ | HFlush _ => PTr
    | HEvent | HFailure => PErr
    | HDone => if auth_ok then PTr else PErr
    | HCrashed => PInit
    end.
  Definition holds (f : fpc) : bool := match f with FAcq => false | _ => true end.
  Definition lock_of (n : npc) (h : hpc) : option N :=
    match n, h with
    | NFl f, _ => if holds f then Some 0%N else match h with HFlush f' => if holds f' then Some (g0 + 1)%N else None | _ => None end
    | _, HFlush f' => if holds f' then Some (g0 + 1)%N else None
    | _, _ => None
    end.
  Definition both_hold (n : npc) (h : hpc) : bool :=
    match n, h with NFl f, HFlush f' => holds f && holds f' | _, _ => false end.
  Definition needs_item (f : fpc) : bool := match f with FMach | FGet => true | _ => false end.
  Definition will_test (f : fpc) : bool := match f with FRel => false | _ => true end.
  Definition hs_will_test (h : hpc) : bool :=
    match h with
    | HReset | HStart | HHello | HGet | HFinish _ | HSetT _ | HPersist _ => true
    | HFlush f => will_test f
    | _ => false
    end.
  Definition nt_will_test (n : npc) : bool :=
    match n with NChk => true | NFl f => will_test f | _ => false end.
  Definition good_npc (n : npc) : bool := match n with NNext | NChk | NFl _ => true | _ => false end.
  Definition carries (h : hpc) : option N :=
    match h with HFinish n | HSetT n | HPersist n => Some n | _ => None end.
  Definition on_fail_path (h : hpc) : bool := match h with HSetE | HEvent | HFailure => true | _ => false end.
  Definition on_ok_path (h : hpc) : bool :=
    match h with HFinish _ | HSetT _ | HPersist _ | HFlush _ => true | _ => false end.
  Definition after_persist (h : hpc) : bool :=
    match h with HFlush _ => true | HDone => auth_ok | _ => false end.
  Definition at_persist (h : hpc) : bool := match h with HPersist _ => true | _ => false end.
  Definition in_transport (h : hpc) : bool :=
    match h with HPersist _ | HFlush _ => true | HDone => auth_ok | _ => false end.
  Definition fail_log (h : hpc) : list ev :=
    match h with
    | HFailure => [EEvent]
    | HDone => if auth_ok then [] else [EEvent; EFailure]
    | _ => []
    end.
  Definition after_finish (h : hpc) : bool :=
    match h with HSetT _ | HPersist _ | HFlush _ => true | HDone => auth_ok | _ => false end.
  Definition pres_of (h : hpc) : list pentry :=
    (if wrote_hello h then hello_entry else []) ++ (if after_finish h then finish_entry else []).
  Definition changed : bool := negb (stored0 =? nrs)%N.
  Definition delivered (s : st) : list seg := map snd (ups (log s)).

  Record Inv2 (s : st) (h : hpc) (rest : list seg) : Prop := {
    i_workers : workers s = mkW g0 stored0 cfg h :: ws0;
    i_gen : gen s = (g0 + 1)%N;
    i_conn : conn s = cn;
    i_edge : edge s = e;
    i_npc : good_npc (npc_ s) = true;
    i_nocrash : h <> HCrashed;
    i_bound : bound s = if wrote_hello h then (cn, g0) :: b0 else b0;
    i_acct : hello :: data = taken h ++ delivered s ++ inq s ++ rest;
    i_script : script s = map NSeg rest;
    i_ups : ups (log s) = number 0 (delivered s);
    i_ctr : in_transport h = true -> ctr s = N.of_nat (length (delivered s));
    i_ps : ps s = ps_of h;
    i_lock : lock s = lock_of (npc_ s) h;
    i_excl : both_hold (npc_ s) h = false;
    i_ntfl : forall f, npc_ s = NFl f -> is_hs (ps s) = false;
    i_ntitem : forall f, npc_ s = NFl f -> needs_item f = true -> inq s <> [];
    i_hsitem : forall f, h = HFlush f -> needs_item f = true -> inq s <> [];
    i_live : inq s <> [] -> hs_will_test h = true \/ nt_will_test (npc_ s) = true;
    i_carry : forall n, carries h = Some n -> n = nrs;
    i_okpath : on_ok_path h = true -> auth_ok = true;
    i_failpath : on_fail_path h = true -> auth_ok = false;
    i_rs : stored s = (if (after_persist h || at_persist h) && changed then nrs else stored0) /\
           lrs s = (if after_persist h && changed then nrs else stored0);
    i_persists : persists (log s) = if after_persist h && changed then [nrs] else [];
    i_failures : failures (log s) = fail_log h;
    i_early : wrote_hello h = false -> npc_ s = NNext /\ rest = hello :: data;
    i_nodeliv : in_transport h = false -> delivered s = [];
    i_changed : forall n, h = HPersist n -> changed = true;
    i_pres : pres s = pres0 ++ pres_of h;
    i_fin : forall n, h = HFinish n -> fin = true
  }.

  Inductive Inv (s : st) : Prop :=
  | Inv_pre : forall n scr l c pc,
      s = mkSt p0 [] None c0 stored0 l n scr ws0 g0 [] e c b0 pc pres0 ->
      (n = NNext /\ scr = NAuth cfg :: tail /\ l = lrs0 /\ c = cn0 /\ pc = pc0) \/
      ((n = NAuthE2 \/ n = NAuthH) /\ scr = tail /\ l = lrs0 /\ c = cn /\ pc = cfg) \/
      ((n = NAuthChk \/ n = NSpawn) /\ scr = tail /\ l = stored0 /\ c = cn /\ pc = cfg) ->
      Inv s
  | Inv_run : forall h rest, Inv2 s h rest -> Inv s.

  Lemma inv_init : Inv S0.
  Proof. eapply Inv_pre; [reflexivity|]. left. repeat split. Qed.

  (* ---- old workers never move *)
  Lemma old_no_step : forall ws a w s, Forall (old_ok g0) ws -> find_w a ws = Some w -> hs_step s w = None.
  Proof.
    induction ws as [|w' ws IH]; intros a w s HF Hf; cbn in Hf; [discriminate|].
    inversion HF as [|? ? Hw' HF']; subst.
    destruct (w_att w' =? a)%N.
    - apply Some_inj in Hf; subst w'. destruct Hw' as [Hfin _].
      unfold hs_step. unfold w_finished in Hfin. destruct (w_pc w); try discriminate; reflexivity.
    - eapply IH; eauto.
  Qed.

  Lemma old_not_g0 : forall ws, Forall (old_ok g0) ws -> find_w g0 ws = None.
  Proof.
    induction ws as [|w ws IH]; intros HF; cbn; [reflexivity|].
    inversion HF as [|? ? Hw HF']; subst. destruct Hw as [_ Hlt].
    destruct (w_att w =? g0)%N eqn:E; [lia|]. auto.
  Qed.


  Ltac inv_some H :=
    apply Some_inj in H;
    repeat match type of H with
           | (_, _) = (_, _) => let H2 := fresh "E" in apply pair_inj in H; destruct H as [H H2]
           end; subst.

  Ltac fields HI :=
    destruct HI as [Hw Hg Hcn He Hn Hnc Hb Hacct Hscr Hups Hctr Hps Hlk Hex Hntfl Hntit Hhsit Hlive
                    Hcar Hokp Hfp Hrs Hper Hfl Hearly Hnod Hchg Hpres Hfin].

  Lemma data_nil_of_fail : auth_ok = false -> data = [].
  Proof. intros H. unfold data. rewrite (Hfail H). reflexivity. Qed.

  (* a thread of NT inside the flush loop with something queued is in transport state *)
  Lemma nt_flush_tr s h rest f :
    Inv2 s h rest -> npc_ s = NFl f -> inq s <> [] -> ps s = PTr /\ in_transport h = true.
  Proof.
    intros HI Hf Hq. fields HI.
    pose proof (Hntfl _ Hf) as Hnh. rewrite Hps in *.
    assert (Hwh : wrote_hello h = true).
    { destruct (wrote_hello h) eqn:E; [reflexivity|]. destruct (Hearly eq_refl) as [C _]. congruence. }
    assert (Hno : auth_ok = false -> False).
    { intros Hf'. rewrite (data_nil_of_fail Hf') in Hacct.
      destruct h; cbn in Hwh, Hacct; try discriminate;
        apply cons_inj in Hacct; destruct Hacct as [_ Hacct];
        symmetry in Hacct; apply app_eq_nil in Hacct; destruct Hacct as [_ Hacct];
        apply app_eq_nil in Hacct; destruct Hacct as [Hacct _]; contradiction. }
    destruct h; cbn in *; try discriminate; try (split; reflexivity); try congruence.
    - exfalso. apply Hno. apply Hfp. reflexivity.
    - exfalso. apply Hno. apply Hfp. reflexivity.
    - destruct auth_ok eqn:E; [split; reflexivity | exfalso; apply Hno; reflexivity].
  Qed.

  Lemma inq_data s h rest x q :
    Inv2 s h rest -> in_transport h = true -> inq s = x :: q -> exists i, x = SData i.
  Proof.
    intros HI Hint Eq. fields HI. rewrite Eq in Hacct.
    assert (Hin : In x data).
    { destruct h; cbn in Hint; try discriminate; cbn in Hacct;
        apply cons_inj in Hacct; destruct Hacct as [_ Hacct]; rewrite Hacct;
        rewrite in_app_iff; right; left; reflexivity. }
    unfold data in Hin. rewrite in_map_iff in Hin. destruct Hin as (i & <- & _). eexists; reflexivity.
  Qed.

  Lemma delivered_up s c x : map snd (ups (log s ++ [EUp c x])) = delivered s ++ [x].
  Proof. unfold delivered. rewrite ups_app, map_app. reflexivity. Qed.

  Lemma lock_free_nt n h : lock_of n h = None -> match n with NFl f => holds f = false | _ => True end.
  Proof. destruct n; cbn; auto. destruct f; cbn; auto; discriminate. Qed.


  Ltac t := cbn in *; try assumption; try reflexivity; try discriminate; try congruence; auto.
  Ltac early H := let Hwh := fresh "Hwh" in let C := fresh "C" in
                  intros Hwh; destruct (H Hwh) as [C ?]; try congruence; try discriminate.
  Ltac fl := let f := fresh "f" in let Hf := fresh "Hf" in
             intros f Hf; inversion Hf; subst; clear Hf; try discriminate; eauto.
  Ltac lg := rewrite ?ups_app, ?persists_app, ?failures_app; cbn beta iota; rewrite ?app_nil_r.
  Ltac bh := match goal with |- both_hold (npc_ ?s) _ = false =>
               destruct (npc_ s) as [| | | | | |f0|]; cbn; try reflexivity; destruct f0; reflexivity end.
  Ltac dn := match goal with |- context [npc_ ?s] =>
               destruct (npc_ s) as [| | | | | |f0|]; cbn in *; try reflexivity; try discriminate;
               destruct f0; cbn in *; try reflexivity; try discriminate end.
  Ltac dh := match goal with x : hpc |- _ => destruct x end.
  Ltac t2 H := t; try solve [early H | fl | dh; t].

  Lemma nt_preserves s h rest l s' :
    Inv2 s h rest -> nt_step s = Some (l, s') -> exists rest', Inv2 s' h rest'.
  Proof.
    intros HI Hst. pose proof HI as HI0. fields HI. unfold nt_step in Hst.
    destruct (npc_ s) eqn:En; cbn in Hn; try discriminate.
    - (* NNext *)
      rewrite Hscr in Hst. destruct rest as [|x r]; cbn in Hst; [discriminate|].
      destruct (arrival_ok s x) eqn:Ea; [|discriminate]. inv_some Hst. exists r.
      constructor; t.
      + rewrite Hacct. rewrite <- !app_assoc. reflexivity.
      + destruct (inq s); discriminate.
      + intros Hwh. exfalso. destruct (Hearly Hwh) as [_ Hr]. apply cons_inj in Hr. destruct Hr as [-> _].
        unfold arrival_ok, hello in Ea. rewrite Hb, Hwh in Ea. unfold cn in Ea. rewrite Hb0 in Ea. discriminate.
    - (* NChk *)
      inv_some Hst. exists rest. destruct (is_hs (ps s)) eqn:Eh.
      + constructor; t.
        * intros Hq. left. rewrite Hps in Eh.
          destruct h; cbn in *; try discriminate; try reflexivity.
          -- exfalso. rewrite (data_nil_of_fail (Hfp eq_refl)) in Hacct.
             apply cons_inj in Hacct; destruct Hacct as [_ Hacct].
             symmetry in Hacct; apply app_eq_nil in Hacct; destruct Hacct as [_ Hacct];
             apply app_eq_nil in Hacct; destruct Hacct as [Hacct _]; contradiction.
          -- destruct auth_ok; discriminate.
        * intros Hwh. destruct (Hearly Hwh) as [C _]. congruence.
      + constructor; t2 Hearly.
    - (* NFl *)
      unfold flush_step in Hst. destruct f.
      + (* FAcq *)
        destruct (lock s) eqn:El; [discriminate|]. inv_some Hst. exists rest.
        rewrite Hlk in El.
        constructor; t.
        * destruct h; cbn in *; try reflexivity. destruct f; cbn in *; try reflexivity; discriminate.
        * intros f [= <-]. eapply Hntfl; reflexivity.
        * intros f [= <-]. discriminate.
        * intros Hwh. destruct (Hearly Hwh) as [C _]. discriminate.
      + (* FSize *)
        inv_some Hst. exists rest.
        destruct (inq s) eqn:Eq; constructor; t2 Hearly; try (rewrite Eq; t2 Hearly).
      + (* FMach *)
        destruct (nt_flush_tr _ _ _ _ HI0 En (Hntit _ eq_refl eq_refl)) as [Htr Hint].
        rewrite Htr in Hst. cbn in Hst. inv_some Hst. exists rest.
        constructor; t2 Hearly.
      + (* FGet *)
        destruct (inq s) as [|x q] eqn:Eq; [discriminate|].
        assert (Hq : inq s <> []) by (rewrite Eq; discriminate).
        destruct (nt_flush_tr _ _ _ _ HI0 En Hq) as [Htr Hint].
        destruct (inq_data _ _ _ _ _ HI0 Hint Eq) as [i ->]. cbn [sid_of] in Hst. inv_some Hst. exists rest.
        pose proof (Hctr Hint) as Hc.
        constructor; t2 Hearly.
        * rewrite dl_step, Hacct. rewrite <- !app_assoc. reflexivity.
        * apply ups_step; assumption.
        * intros _. apply len_step; assumption.
        * intros f Hf Hni. exfalso. subst h. cbn in Hex. destruct f; cbn in *; discriminate.
        * rewrite persists_app, app_nil_r. assumption.
        * rewrite failures_app, app_nil_r. assumption.
      + (* FRel *)
        inv_some Hst. exists rest.
        constructor; t2 Hearly.
        * destruct h; cbn in *; try reflexivity. destruct f; cbn in *; try reflexivity; discriminate.
  Qed.


  Lemma verify_spec b :
    verify ((cn, g0) :: b) (mkW g0 stored0 cfg HGet) hello =
      if auth_ok then Some (nrs, negb (static =? 0)%N || (stored0 =? 0)%N) else None.
  Proof.
    unfold verify, hello, mine, auth_ok, nrs, negotiated. rewrite lookup_head. cbn [w_att w_rs].
    rewrite N.eqb_refl, andb_true_r.
    destruct ok; cbn; [|reflexivity].
    destruct (stored0 =? 0)%N eqn:E1; destruct (static =? 0)%N eqn:E2; cbn; try reflexivity.
  Qed.

  Definition W (h : hpc) := mkW g0 stored0 cfg h.
  Definition wset (p : hpc) (s1 : st) := set_workers (W p :: ws0) s1.

  Lemma hs_preserves s h rest l s1 p :
    Inv2 s h rest -> hs_step s (W h) = Some (l, s1, p) -> Inv2 (wset p s1) p rest.
  Proof.
    intros HI Hst. pose proof HI as HI0. fields HI. unfold hs_step, W in Hst. cbn [w_pc w_att] in Hst.
    destruct h.
    - (* HReset *) inv_some Hst. constructor; t2 Hearly.
    - (* HStart *)
      rewrite Hps in Hst. cbn in Hst. inv_some Hst.
      destruct (Hearly eq_refl) as [Hnn Hr].
      constructor; t2 Hearly.
    - (* HHello *)
      inv_some Hst. rewrite Hcn, Hb. cbn [wrote_hello]. unfold cn. rewrite Hb0. fold cn.
      destruct (Hearly eq_refl) as [Hnn Hr].
      unfold hello_pres. cbn [w_rs w_att w_cfg].
      assert (Hhe : hello_entry = if (stored0 =? 0)%N then [] else [(cn, 1%N, cfg)]) by reflexivity.
      destruct (stored0 =? 0)%N eqn:Es0;
        (constructor; t2 Hearly; try (rewrite Hpres, Hhe, ?Hcn, ?app_nil_r; reflexivity)).
    - (* HGet *)
      destruct (inq s) as [|x q] eqn:Eq; [discriminate|].
      pose proof (Hnod eq_refl) as Hd. cbn in Hacct. rewrite Hd in Hacct. cbn in Hacct.
      apply cons_inj in Hacct. destruct Hacct as [<- Hdata].
      rewrite Hb in Hst. cbn [wrote_hello] in Hst. rewrite verify_spec in Hst.
      assert (Hnfl : forall f, npc_ s <> NFl f).
      { intros f Hf. pose proof (Hntfl _ Hf) as C. rewrite Hps in C. discriminate. }
      pose proof data_nil_of_fail as Hdnf.
      destruct auth_ok eqn:Eok.
      + destruct (negb (static =? 0)%N || (stored0 =? 0)%N) eqn:Efin; inv_some Hst; constructor; t2 Hearly;
          try (unfold delivered in *; rewrite Hd, Hdata; reflexivity); try (intros f Hf; exfalso; eapply Hnfl; eassumption);
          try (intros; exact Efin); try (unfold finish_entry, fin; rewrite Efin; assumption).
      + inv_some Hst. pose proof (Hdnf eq_refl) as Hdn. rewrite Hdn in Hdata.
        symmetry in Hdata. apply app_eq_nil in Hdata. destruct Hdata as [-> ->].
        constructor; t2 Hearly; try (unfold delivered in *; rewrite Hd, Hdn; reflexivity); try (intros f Hf; exfalso; eapply Hnfl; eassumption).
    - (* HFinish *) inv_some Hst. pose proof (Hfin _ eq_refl) as Hf1.
      constructor; t2 Hearly.
      unfold finish_entry. rewrite Hf1, Hpres, Hcn, app_nil_r, <- app_assoc. reflexivity.
    - (* HSetT *)
      rewrite Hps in Hst. cbn in Hst. pose proof (Hcar _ eq_refl) as ->.
      destruct Hrs as [Hst0 Hl]. cbn in Hst0, Hl. rewrite Hl in Hst.
      pose proof (Hnod eq_refl) as Hd.
      assert (Hnfl : forall f, npc_ s <> NFl f).
      { intros f Hf. pose proof (Hntfl _ Hf) as C. rewrite Hps in C. discriminate. }
      unfold changed in *.
      destruct (stored0 =? nrs)%N eqn:Ec; inv_some Hst; constructor; t2 Hearly;
        try (unfold delivered in *; rewrite Hd; reflexivity);
        try (intros f Hf; exfalso; eapply Hnfl; eassumption);
        try (unfold changed; rewrite Ec; t);
        try (destruct (npc_ s) as [| | | | | |f0|]; cbn; try reflexivity; destruct f0; reflexivity).
    - (* HPersist *)
      inv_some Hst. pose proof (Hcar _ eq_refl) as ->. pose proof (Hchg _ eq_refl) as Hc.
      destruct Hrs as [Hs1 Hs2]. cbn in Hs1, Hs2. rewrite Hc in Hs1. cbn in Hs1.
      constructor; t2 Hearly; try (rewrite Hc; t); try bh; try (lg; rewrite ?Hper; t2 Hearly);
        try (split; [assumption | reflexivity]).
    - (* HFlush *)
      unfold flush_step in Hst. destruct f.
      + (* FAcq *)
        destruct (lock s) eqn:El; [discriminate|]. inv_some Hst. rewrite Hlk in El.
        constructor; t2 Hearly; try solve [dn].
      + (* FSize *)
        destruct (inq s) eqn:Eq; inv_some Hst; constructor; t2 Hearly; try (rewrite Eq; t2 Hearly); try solve [dn].
      + (* FMach *)
        rewrite Hps in Hst. cbn in Hst. inv_some Hst. constructor; t2 Hearly; try solve [dn].
      + (* FGet *)
        destruct (inq s) as [|x q] eqn:Eq; [discriminate|].
        destruct (inq_data _ _ _ _ _ HI0 eq_refl Eq) as [i ->]. inv_some Hst.
        pose proof (Hctr eq_refl) as Hc.
        constructor; t2 Hearly; try solve [dn];
          try (apply ups_step; assumption); try (intros _; apply len_step; assumption);
          try (rewrite dl_step, Hacct; cbn; rewrite <- !app_assoc; reflexivity);
          try (intros f Hf Hni; rewrite Hf in Hex; destruct f; cbn in *; discriminate);
          try (lg; t2 Hearly).
      + (* FRel *)
        inv_some Hst. pose proof (Hokp eq_refl) as Hok.
        constructor; t2 Hearly; try solve [dn]; try (rewrite Hok; t2 Hearly).
    - (* HSetE *)
      rewrite Hps in Hst. cbn in Hst. inv_some Hst. pose proof (Hfp eq_refl) as Hno.
      assert (Hnfl : forall f, npc_ s <> NFl f).
      { intros f Hf. pose proof (Hntfl _ Hf) as C. rewrite Hps in C. discriminate. }
      constructor; t2 Hearly; try (intros f Hf; exfalso; eapply Hnfl; eassumption).
    - (* HEvent *)
      inv_some Hst. constructor; t2 Hearly; try (lg; rewrite ?Hfl; t2 Hearly).
    - (* HFailure *)
      inv_some Hst. pose proof (Hfp eq_refl) as Hno.
      constructor; t2 Hearly; try (rewrite Hno; t2 Hearly); try (lg; rewrite ?Hfl, ?Hno; t2 Hearly).
    - discriminate.
    - discriminate.
  Qed.


  Lemma sub1 : (g0 + 1 - 1 = g0)%N. Proof. lia. Qed.

  Lemma step_worker s h rest tid l s' :
    Inv2 s h rest -> (tid =? 0)%N = false -> step s tid = Some (l, s') ->
    exists s1 p, hs_step s (W h) = Some (l, s1, p) /\ s' = wset p s1.
  Proof.
    intros HI Ht Hst. pose proof (i_workers _ _ _ HI) as Hw. unfold step in Hst. rewrite Ht, Hw in Hst.
    cbn [find_w w_att] in Hst. destruct (g0 =? tid - 1)%N eqn:E.
    - fold (W h) in Hst. destruct (hs_step s (W h)) as [[[l1 s1] p]|] eqn:Eh; [|discriminate].
      pose proof (hs_step_workers _ _ _ _ _ Eh) as Hws1.
      rewrite Hws1, Hw in Hst. cbn [upd_w w_att w_rs] in Hst. rewrite E in Hst. inv_some Hst.
      exists s1, p. split; reflexivity.
    - destruct (find_w (tid - 1) ws0) eqn:Ef; [|discriminate].
      rewrite (old_no_step _ _ _ s Hws Ef) in Hst. discriminate.
  Qed.

  Lemma inv_step s tid l s' : Inv s -> step s tid = Some (l, s') -> Inv s'.
  Proof.
    intros [n scr l0 c pc Hs Hc | h rest HI] Hst.
    - subst s. unfold step in Hst. destruct (tid =? 0)%N eqn:Et.
      + unfold nt_step in Hst. cbn [npc_ script edge ps] in Hst.
        destruct Hc as [(-> & -> & -> & -> & ->) | [([-> | ->] & -> & -> & -> & ->) | ([-> | ->] & -> & -> & -> & ->)]].
        * match type of Hst with (if _ then ?x else ?y) = _ => destruct (if_cases e x y) as [R|R]; rewrite R in Hst end;
            inv_some Hst; (eapply Inv_pre; [reflexivity|]); cbn; fold cn.
          -- right. left. auto.
          -- right. right. auto.
        * inv_some Hst. eapply Inv_pre; [reflexivity|]. cbn. right. left. auto.
        * inv_some Hst. eapply Inv_pre; [reflexivity|]. cbn. right. right. auto.
        * assert (Hh : is_hs p0 = false) by (destruct p0; try reflexivity; congruence).
          rewrite Hh in Hst. inv_some Hst. eapply Inv_pre; [reflexivity|]. cbn. right. right. auto.
        * inv_some Hst. eapply Inv_run with (h := HReset) (rest := hello :: data).
          constructor; cbn; auto; try discriminate; try reflexivity. rewrite app_nil_r. reflexivity.
      + cbn [workers] in Hst. destruct (find_w (tid - 1) ws0) eqn:Ef; [|discriminate].
        rewrite (old_no_step _ _ _ _ Hws Ef) in Hst. discriminate.
    - destruct (tid =? 0)%N eqn:Et.
      + unfold step in Hst. rewrite Et in Hst. destruct (nt_preserves _ _ _ _ _ HI Hst) as [r' HI'].
        eapply Inv_run; eassumption.
      + destruct (step_worker _ _ _ _ _ _ HI Et Hst) as (s1 & p & Hh & ->).
        eapply Inv_run. eapply hs_preserves; eassumption.
  Qed.

  Lemma inv_reach s : reach S0 s -> Inv s.
  Proof. induction 1; [apply inv_init | eapply inv_step; eassumption]. Qed.


  (* ---------------------------------------------------------------- consequences *)
  Lemma old_forallb : forall ws, Forall (old_ok g0) ws -> forallb w_finished ws = true.
  Proof. induction 1 as [|w ws [Hf _] _ IH]; cbn; [reflexivity|]. rewrite Hf, IH. reflexivity. Qed.

  Lemma done_facts s h rest :
    Inv2 s h rest -> all_done s = true -> h = HDone /\ rest = [] /\ npc_ s = NNext /\ inq s = [].
  Proof.
    intros HI Hd. fields HI. unfold all_done in Hd. apply andb_prop in Hd. destruct Hd as [Hnt Hwf].
    rewrite Hw in Hwf. cbn in Hwf. apply andb_prop in Hwf. destruct Hwf as [Hwf _].
    unfold nt_finished in Hnt. rewrite Hscr in Hnt.
    assert (Hh : h = HDone) by (destruct h; cbn in Hwf; try discriminate; [reflexivity | congruence]).
    destruct (npc_ s) eqn:En; cbn in Hn; try discriminate;
      destruct rest; cbn in Hnt; try discriminate.
    repeat split; auto. destruct (inq s) eqn:Eq; [reflexivity|].
    destruct Hlive as [C|C]; [discriminate | subst h; discriminate | discriminate].
  Qed.

  Lemma pre_not_done s n scr l c pc :
    s = mkSt p0 [] None c0 stored0 l n scr ws0 g0 [] e c b0 pc pres0 ->
    (n = NNext /\ scr = NAuth cfg :: tail /\ l = lrs0 /\ c = cn0 /\ pc = pc0) \/
    ((n = NAuthE2 \/ n = NAuthH) /\ scr = tail /\ l = lrs0 /\ c = cn /\ pc = cfg) \/
    ((n = NAuthChk \/ n = NSpawn) /\ scr = tail /\ l = stored0 /\ c = cn /\ pc = cfg) ->
    all_done s = false /\ log s = [] /\ pres s = pres0.
  Proof.
    intros -> Hc. unfold all_done, nt_finished. cbn.
    destruct Hc as [(-> & -> & _) | [([-> | ->] & -> & _) | ([-> | ->] & -> & _)]]; cbn; auto.
  Qed.

  Theorem in_order_once_thm : forall s, reach S0 s ->
    (exists tl, data = delivered s ++ tl) /\
    ups (log s) = number 0 (delivered s) /\
    (all_done s = true -> ups (log s) = number 0 data).
  Proof.
    intros s Hr. destruct (inv_reach _ Hr) as [n scr l c pc Hs Hc | h rest HI].
    - destruct (pre_not_done _ _ _ _ _ _ Hs Hc) as (Hnd & Hl & Hpr0). unfold delivered. rewrite Hl, Hnd. cbn.
      repeat split; [exists data; reflexivity | discriminate].
    - pose proof HI as HI0. fields HI. split; [|split; [assumption|]].
      + destruct h; cbn in Hacct;
          try (rewrite (Hnod eq_refl) in *; exists data; reflexivity);
          apply cons_inj in Hacct; destruct Hacct as [_ Hacct]; eexists; exact Hacct.
      + intros Hd. destruct (done_facts _ _ _ HI0 Hd) as (-> & -> & _ & Hq).
        cbn in Hacct. rewrite Hq in Hacct. cbn in Hacct. rewrite app_nil_r in Hacct.
        apply cons_inj in Hacct. destruct Hacct as [_ Hacct]. rewrite Hups, <- Hacct. reflexivity.
  Qed.

  Lemma enabled_not_stuck s t : In t (tids s) -> enabled s t = true -> stuck s = false.
  Proof.
    intros Hin Hen. unfold stuck. destruct (forallb (fun t0 => negb (enabled s t0)) (tids s)) eqn:E.
    - rewrite forallb_forall in E. specialize (E _ Hin). rewrite Hen in E. discriminate.
    - apply andb_false_r.
  Qed.

  Lemma worker_enabled s h r :
    workers s = W h :: ws0 -> hs_step s (W h) = Some r -> enabled s (g0 + 1) = true.
  Proof.
    intros Hw Hh. unfold enabled, step. assert (Hz : (g0 + 1 =? 0)%N = false) by lia.
    rewrite Hz, Hw. cbn [find_w w_att W]. rewrite sub1, N.eqb_refl. fold (W h). rewrite Hh.
    destruct r as [[? ?] ?]. reflexivity.
  Qed.

  Lemma nt_fl_enabled s f :
    npc_ s = NFl f -> (f = FAcq -> lock s = None) -> (f = FGet -> inq s <> []) -> enabled s 0 = true.
  Proof.
    intros Hn Ha Hg. unfold enabled, step. cbn. unfold nt_step. rewrite Hn. unfold flush_step.
    destruct f.
    - rewrite (Ha eq_refl). reflexivity.
    - reflexivity.
    - destruct (is_tr (ps s)); reflexivity.
    - destruct (inq s) as [|[]]; [exfalso; apply (Hg eq_refl); reflexivity | reflexivity | reflexivity].
    - reflexivity.
  Qed.

  Lemma in_data_arrival s x : In x data -> arrival_ok s x = true.
  Proof. unfold data. rewrite in_map_iff. intros (i & <- & _). reflexivity. Qed.

  Lemma progress s h rest :
    Inv2 s h rest -> all_done s = true \/ enabled s 0 = true \/ enabled s (g0 + 1) = true.
  Proof.
    intros HI. pose proof HI as HI0. fields HI.
    assert (HW : forall r, hs_step s (W h) = Some r -> enabled s (g0 + 1) = true)
      by (intros r; apply worker_enabled; assumption).
    assert (Hnt : forall f, npc_ s = NFl f -> f <> FAcq -> enabled s 0 = true).
    { intros f Hf Hna. eapply nt_fl_enabled; eauto. contradiction. intros ->. eapply Hntit; eauto. }
    destruct h; unfold hs_step, W in HW; cbn [w_pc w_att] in HW; rewrite ?Hps in HW; cbn [ps_of] in HW;
      try (right; right; eapply HW; reflexivity).
    - (* HGet *)
      destruct (inq s) eqn:Eq; [|right; right; eapply HW; reflexivity].
      right; left. destruct (npc_ s) eqn:En; cbn in Hn; try discriminate.
      + cbn in Hacct. unfold delivered in *. rewrite (Hnod eq_refl) in Hacct. cbn in Hacct. subst rest.
        unfold enabled, step. cbn. unfold nt_step. rewrite En, Hscr. cbn [map].
        unfold arrival_ok, hello. rewrite Hb. cbn [wrote_hello]. rewrite lookup_head. reflexivity.
      + unfold enabled, step. cbn. unfold nt_step. rewrite En. reflexivity.
      + pose proof (Hntfl _ eq_refl) as C. rewrite Hps in C. discriminate.
    - (* HFlush *)
      unfold flush_step in HW. rewrite ?Hps in HW. cbn [ps_of is_tr] in HW. destruct f.
      + destruct (lock s) eqn:El; [|right; right; eapply HW; reflexivity].
        right; left. rewrite Hlk in El.
        destruct (npc_ s) eqn:En; cbn in El; try discriminate.
        eapply Hnt; [reflexivity|]. intros ->. cbn in El. discriminate.
      + right; right; eapply HW; reflexivity.
      + right; right; eapply HW; reflexivity.
      + destruct (inq s) as [|[]] eqn:Eq; [exfalso; eapply Hhsit; eauto | |]; right; right; eapply HW; reflexivity.
      + right; right; eapply HW; reflexivity.
    - (* HDone *)
      destruct (npc_ s) eqn:En; cbn in Hn; try discriminate.
      + destruct rest as [|x r].
        * left. unfold all_done, nt_finished. rewrite En, Hscr, Hw. cbn. apply old_forallb. assumption.
        * right; left. unfold enabled, step. cbn. unfold nt_step. rewrite En, Hscr. cbn [map].
          cbn in Hacct. apply cons_inj in Hacct. destruct Hacct as [_ Hacct].
          rewrite in_data_arrival; [reflexivity|]. rewrite Hacct. rewrite !in_app_iff. right. right. left. reflexivity.
      + right; left. unfold enabled, step. cbn. unfold nt_step. rewrite En. reflexivity.
      + right; left. eapply nt_fl_enabled; eauto.
        * intros ->. rewrite Hlk. reflexivity.
        * intros ->. eapply Hntit; eauto.
    - congruence.
  Qed.

  Theorem no_deadlock_thm : forall s, reach S0 s -> stuck s = false.
  Proof.
    intros s Hr. destruct (inv_reach _ Hr) as [n scr l c pc Hs Hc | h rest HI].
    - apply enabled_not_stuck with (t := 0%N); [left; reflexivity|].
      subst s. unfold enabled, step. cbn. unfold nt_step. cbn.
      destruct Hc as [(-> & -> & _) | [([-> | ->] & -> & _) | ([-> | ->] & -> & _)]]; cbn; try reflexivity.
      match goal with |- match (if _ then ?x else ?y) with _ => _ end = _ => destruct (if_cases e x y) as [R|R]; rewrite R end; reflexivity.
    - destruct (progress _ _ _ HI) as [Hd | [H0 | H1]].
      + unfold stuck. rewrite Hd. reflexivity.
      + apply enabled_not_stuck with (t := 0%N); [left; reflexivity | assumption].
      + apply enabled_not_stuck with (t := (g0 + 1)%N); [|assumption].
        unfold tids. rewrite (i_workers _ _ _ HI). right. left. reflexivity.
  Qed.


  Theorem failure_reported_thm : forall s, reach S0 s ->
    (auth_ok = false -> all_done s = true ->
       failures (log s) = [EEvent; EFailure] /\ ups (log s) = [] /\ persists (log s) = []) /\
    (auth_ok = true -> failures (log s) = []).
  Proof.
    intros s Hr. destruct (inv_reach _ Hr) as [n scr l c pc Hs Hc | h rest HI].
    - destruct (pre_not_done _ _ _ _ _ _ Hs Hc) as (Hnd & Hl & Hpr0). rewrite Hl, Hnd. split; [discriminate | reflexivity].
    - pose proof HI as HI0. fields HI. split.
      + intros Hno Hd. destruct (done_facts _ _ _ HI0 Hd) as (-> & -> & _ & Hq).
        cbn in Hfl, Hper, Hacct. rewrite Hno in Hfl, Hper. cbn in Hper.
        rewrite (data_nil_of_fail Hno), Hq in Hacct. cbn in Hacct. rewrite app_nil_r in Hacct.
        apply cons_inj in Hacct. destruct Hacct as [_ Hacct].
        repeat split; try assumption. rewrite Hups, <- Hacct. reflexivity.
      + intros Hyes. rewrite Hfl. destruct h; cbn; try reflexivity.
        * pose proof (Hfp eq_refl). congruence.
        * rewrite Hyes. reflexivity.
  Qed.

  Theorem rs_persisted_thm : forall s, reach S0 s ->
    (persists (log s) = [] \/ (persists (log s) = [nrs] /\ stored0 <> nrs /\ stored s = nrs)) /\
    (all_done s = true -> auth_ok = true ->
       persists (log s) = (if (stored0 =? nrs)%N then [] else [nrs]) /\ stored s = nrs).
  Proof.
    intros s Hr. destruct (inv_reach _ Hr) as [n scr l c pc Hs Hc | h rest HI].
    - destruct (pre_not_done _ _ _ _ _ _ Hs Hc) as (Hnd & Hl & Hpr0). rewrite Hl, Hnd. split; [left; reflexivity | discriminate].
    - pose proof HI as HI0. fields HI. destruct Hrs as [Hrs _]. unfold changed in *. split.
      + rewrite Hper, Hrs. destruct (after_persist h); cbn; [|left; reflexivity].
        destruct (stored0 =? nrs)%N eqn:Ec; cbn; [left; reflexivity|].
        right. repeat split. apply N.eqb_neq. assumption.
      + intros Hd Hyes. destruct (done_facts _ _ _ HI0 Hd) as (-> & _).
        rewrite Hper, Hrs. cbn. rewrite Hyes. cbn.
        destruct (stored0 =? nrs)%N eqn:Ec; cbn; split; try reflexivity.
        apply N.eqb_eq. assumption.
  Qed.

  (* ---- what is presented to the server *)
  Lemma in_pres_of h x : In x (pres_of h) -> x = (cn, 1%N, cfg) \/ x = (cn, 2%N, cfg).
  Proof.
    unfold pres_of, hello_entry, finish_entry. rewrite in_app_iff.
    destruct (wrote_hello h), (after_finish h), (stored0 =? 0)%N, fin; cbn; intuition.
  Qed.

  Lemma presented_ok_nonempty : presented_ok <> [].
  Proof.
    unfold presented_ok, hello_entry, finish_entry, fin.
    destruct (stored0 =? 0)%N; [rewrite orb_true_r|]; discriminate.
  Qed.

  (* Every payload-bearing handshake message written during this attempt goes out on this attempt's
     connection and carries exactly the configuration of THIS auth event, whatever earlier attempts
     (ws0, pc0, pres0) presented; after a successful login the server has received it (IK: in the
     client hello; XX / XXfallback: in the client finish). *)
  Theorem presented_thm : forall s, reach S0 s ->
    (exists tl, pres s = pres0 ++ tl /\ forall x, In x tl -> x = (cn, 1%N, cfg) \/ x = (cn, 2%N, cfg)) /\
    (all_done s = true -> auth_ok = true -> pres s = pres0 ++ presented_ok /\ presented_ok <> []) /\
    (all_done s = true -> auth_ok = false -> pres s = pres0 ++ hello_entry).
  Proof.
    intros s Hr. destruct (inv_reach _ Hr) as [n scr l c pc Hs Hc | h rest HI].
    - destruct (pre_not_done _ _ _ _ _ _ Hs Hc) as (Hnd & Hl & Hpr0). rewrite Hnd. split; [|split; discriminate].
      exists []. rewrite app_nil_r. split; [assumption | intros x []].
    - pose proof HI as HI0. fields HI. split; [|split].
      + exists (pres_of h). split; [assumption | apply in_pres_of].
      + intros Hd Hyes. destruct (done_facts _ _ _ HI0 Hd) as (-> & _).
        split; [|apply presented_ok_nonempty]. rewrite Hpres. unfold pres_of, presented_ok. cbn. rewrite Hyes. reflexivity.
      + intros Hd Hno. destruct (done_facts _ _ _ HI0 Hd) as (-> & _).
        rewrite Hpres. unfold pres_of. cbn. rewrite Hno, app_nil_r. reflexivity.
  Qed.

  (* the state a completed attempt leaves behind (used to chain logins, C04ProofsHist.v) *)
  Lemma done_state s : reach S0 s -> all_done s = true ->
    workers s = mkW g0 stored0 cfg HDone :: ws0 /\ gen s = (g0 + 1)%N /\ conn s = cn /\ edge s = e /\
    bound s = (cn, g0) :: b0 /\ ps s = (if auth_ok then PTr else PErr) /\ inq s = [] /\ lock s = None /\
    npc_ s = NNext /\ script s = [] /\ stored s = (if auth_ok then nrs else stored0) /\
    pres s = pres0 ++ (if auth_ok then presented_ok else hello_entry).
  Proof.
    intros Hr Hd. destruct (inv_reach _ Hr) as [n scr l c pc Hs Hc | h rest HI].
    - destruct (pre_not_done _ _ _ _ _ _ Hs Hc) as (Hnd & _). congruence.
    - pose proof HI as HI0. destruct (done_facts _ _ _ HI0 Hd) as (-> & -> & Hnn & Hq). fields HI.
      repeat split; try assumption.
      + rewrite Hlk, Hnn. reflexivity.
      + destruct Hrs as [Hs1 _]. rewrite Hs1. cbn. unfold changed. rewrite orb_false_r.
        destruct auth_ok; cbn; [|reflexivity].
        destruct (stored0 =? nrs)%N eqn:Ec; cbn; [apply N.eqb_eq in Ec; assumption | reflexivity].
      + rewrite Hpres. unfold pres_of, presented_ok. cbn. destruct auth_ok; [reflexivity | rewrite app_nil_r; reflexivity].
  Qed.

End OneAttempt.

(* ------------------------------------------------------------------ non-vacuity and witnesses *)

(* a concrete scenario satisfying every hypothesis: reconnect on a layer left in transport state by an
   earlier, terminated attempt; XXfallback (stored key 5, server answers with key 7); three frames *)
(* two configurations of the same account that differ in the passive flag (and one attribute) *)
Definition cfgA := mkCfg 4915112345678 true [11; 262; 2; 0]%N.
Definition cfgB := mkCfg 4915112345678 false [12; 262; 2; 0]%N.
Definition ex_ws := [mkW 0 0 cfgA HDone].
Definition ex_S0 := S0 PTr 4 5 5 1 ex_ws true 1 [(1, 0)]%N cfgA [(1, 2, cfgA)]%N cfgB 100 true 7 [1; 2; 3]%N.
Definition ex_sched : list N :=
  [0;0;0;0;0; 2;2;2; 0; 2;2;2;2;2;2;2; 0;0;0;0;0;0;0;0;0;0;0;0;0;0;0;0;0;0;0;0;0;0;0;0;0;0;0;0]%N.

Example nonvacuous_hyps :
  PTr <> PHs /\ Forall (old_ok 1) ex_ws /\ lookup (1 + 1) [(1, 0)]%N = None /\
  (auth_ok 5 true 7 = false -> [1; 2; 3]%N = []).
Proof.
  repeat split; try discriminate.
  - constructor; [split; [reflexivity | reflexivity] | constructor].
Qed.

Example nonvacuous_run :
  match run ex_S0 ex_sched with
  | Some s => all_done s = true /\ ups (log s) = number 0 (map SData [1; 2; 3]%N) /\ persists (log s) = [7%N] /\
              pres s = [(1, 2, cfgA); (2, 1, cfgB); (2, 2, cfgB)]%N
  | None => False
  end.
Proof. vm_compute. repeat split. Qed.

(* The design's stronger reading "the profile write happens before ANY frame is delivered" is false of
   the code: the protocol state is set to transport before _on_protocol_state_changed runs, so the
   network thread can flush in between. *)
Definition pb_S0 := S0 PInit 0 0 0 0 [] false 0 [] cfgA [] cfgA 100 true 7 [1]%N.
Definition pb_sched : list N := [0;0;0; 1;1;1; 0;0; 1;1;1; 0;0; 0;0;0;0;0;0; 1]%N.
Lemma persist_before_frames_refuted :
  exists s, run pb_S0 pb_sched = Some s /\ log s = [EUp 0 (SData 1); EPersist 7].
Proof. eexists. split; vm_compute; reflexivity. Qed.

(* Reconnect after an attempt that was cut off before the server answered: the stale worker is still
   waiting on the shared queue.  Schedule: attempt 0 up to its blocking get; disconnect; attempt 1 up
   to its blocking get; server hello of connection 2 arrives; the STALE worker (tid 1) dequeues it. *)
Definition rc_S0 : st :=
  mkSt PInit [] None 0 0 0 NNext [NAuth cfgA; NDisc; NAuth cfgB; NSeg (SHello 102 2 true 7)] [] 0 [] false 0 [] cfgA [].
Definition rc_sched : list N := [0;0;0; 1;1;1; 0; 0;0;0; 2;2;2; 0;0; 1;1;1;1]%N.

Lemma reconnect_fresh_refuted :
  exists s, run rc_S0 rc_sched = Some s /\
            failures (log s) = [EEvent; EFailure] /\       (* login failure reported although the server answered correctly *)
            stuck s = true /\                               (* and nobody can move any more ... *)
            find_w 1 (workers s) = Some (mkW 1 0 cfgB HGet) /\   (* ... with the new attempt's worker waiting forever *)
            ps s = PErr.
Proof. eexists. split; [vm_compute; reflexivity|]. vm_compute. repeat split. Qed.

(* Same history, other winner: the new worker gets the hello and logs in, but the stale worker stays
   blocked on the queue (it will take the next transport segment). *)
Definition rc_sched2 : list N := [0;0;0; 1;1;1; 0; 0;0;0; 2;2;2; 0;0; 2;2;2;2;2;2;2]%N.
Lemma reconnect_stale_waiter_refuted :
  exists s, run rc_S0 rc_sched2 = Some s /\ ps s = PTr /\ stuck s = true /\
            find_w 0 (workers s) = Some (mkW 0 0 cfgA HGet).
Proof. eexists. split; [vm_compute; reflexivity|]. vm_compute. repeat split. Qed.

Lemma run_reach : forall sched s s', run s sched = Some s' -> reach s s'.
Proof.
  intros sched s s' H. assert (G : forall s1, reach s s1 -> run s1 sched = Some s' -> reach s s').
  { clear H. induction sched as [|t r IH]; intros s1 Hr H; cbn in H.
    - apply Some_inj in H. subst. assumption.
    - destruct (step s1 t) as [[l s2]|] eqn:E; [|discriminate].
      eapply IH; [|eassumption]. eapply reach_step; eassumption. }
  eapply G; [apply reach_refl | assumption].
Qed.

(* Reconnect, positive part: a layer whose earlier attempts' workers have all terminated (whatever
   state, counter, stored key, connection history they left behind) logs in like a fresh one. *)
Theorem reconnect_fresh_partial_thm :
  forall p0 c0 stored0 lrs0 g0 ws0 e cn0 b0 pc0 pres0 cfg hsid ok static dsids,
    p0 <> PHs -> Forall (old_ok g0) ws0 -> lookup (cn0 + 1) b0 = None ->
    auth_ok stored0 ok static = true ->
    forall s, reach (S0 p0 c0 stored0 lrs0 g0 ws0 e cn0 b0 pc0 pres0 cfg hsid ok static dsids) s ->
      stuck s = false /\ failures (log s) = [] /\
      (all_done s = true -> ups (log s) = number 0 (data dsids) /\ stored s = nrs stored0 static).
Proof.
  intros p0 c0 stored0 lrs0 g0 ws0 e cn0 b0 pc0 pres0 cfg hsid ok static dsids H1 H2 H3 Hok s Hr.
  assert (Hf : auth_ok stored0 ok static = false -> dsids = []) by (intros C; congruence).
  split; [eapply no_deadlock_thm; eassumption|].
  split; [eapply (proj2 (failure_reported_thm _ _ _ _ _ _ _ _ _ _ _ _ _ _ _ _ H1 H2 H3 Hf s Hr)); assumption|].
  intros Hd. split.
  - eapply (proj2 (proj2 (in_order_once_thm _ _ _ _ _ _ _ _ _ _ _ _ _ _ _ _ H1 H2 H3 Hf s Hr))); assumption.
  - eapply (proj2 (rs_persisted_thm _ _ _ _ _ _ _ _ _ _ _ _ _ _ _ _ H1 H2 H3 Hf s Hr)); assumption.
Qed.

Example nonvacuous_reach :
  exists s, reach ex_S0 s /\ all_done s = true /\ ups (log s) = number 0 (map SData [1; 2; 3]%N).
Proof.
  destruct (run ex_S0 ex_sched) as [s|] eqn:E; [|vm_compute in E; discriminate].
  exists s. split; [eapply run_reach; eassumption|].
  vm_compute in E. apply Some_inj in E. subst s. vm_compute. split; reflexivity.
Qed.
