(* Glue between the sx line format and the C04 model (unverified, trusted, small). *)
From YV Require Import Common.Tac Common.Sx C04.C04Model.

Definition pst_code (p : pst) : N := match p with PInit => 0 | PHs => 1 | PTr => 2 | PErr => 3 end.
Definition pst_of (n : N) : pst :=
  if (n =? 1)%N then PHs else if (n =? 2)%N then PTr else if (n =? 3)%N then PErr else PInit.

Definition label_sx (l : label) : sx :=
  match l with
  | LDown m => SL [SN 11; SN m]
  | LChk h => SL [SN 1; sx_bool h]
  | LSpawn a => SL [SN 2; SN a]
  | LSt p => SL [SN 3; SN (pst_code p)]
  | LPut i => SL [SN 4; SN i]
  | LGet i => SL [SN 5; SN i]
  | LSize n => SL [SN 6; SN n]
  | LUp i => SL [SN 12; SN i]
  | LFailure => SL [SN 13; SN 0]
  | LEvent => SL [SN 14; SN 0]
  | LPersist r => SL [SN 15; SN r]
  | LAcq => SL [SN 16; SN 0]
  | LRel => SL [SN 17; SN 0]
  | LCrash => SL [SN 18; SN 0]
  end.

Definition label_key (l : label) : N * N :=
  match label_sx l with SL [SN a; SN b] => (a, b) | _ => (0, 0)%N end.

Definition fpc_code (f : fpc) : N := match f with FAcq => 0 | FSize => 1 | FMach => 2 | FGet => 3 | FRel => 4 end.
Definition npc_code (n : npc) : N :=
  match n with NNext => 0 | NAuthE2 => 1 | NAuthH => 2 | NAuthChk => 3 | NSpawn => 4 | NChk => 5
             | NFl f => 10 + fpc_code f | NCrashed => 99 end.
Definition hpc_code (h : hpc) : N :=
  match h with HReset => 0 | HStart => 1 | HHello => 2 | HGet => 3 | HFinish _ => 4 | HSetT _ => 5
             | HPersist _ => 6 | HFlush f => 10 + fpc_code f | HSetE => 20 | HEvent => 21
             | HFailure => 22 | HDone => 98 | HCrashed => 99 end.

Definition ev_sx (e : ev) : sx :=
  match e with
  | EUp c x => SL [SN 12; SN c; SN (sid_of x)]
  | EEvent => SL [SN 14; SN 0; SN 0]
  | EFailure => SL [SN 13; SN 0; SN 0]
  | EPersist r => SL [SN 15; SN r; SN 0]
  end.

(* a configuration / presented payload: (username passive (attribute codes ...)) *)
Definition cfg_of (e : sx) : ccfg :=
  mkCfg (sx_get_n (sx_nth e 0)) (sx_get_bool (sx_nth e 1)) (map sx_get_n (sx_get_l (sx_nth e 2))).
Definition cfg_sx (c : ccfg) : sx := SL [SN (c_user c); sx_bool (c_passive c); SL (map SN (c_attrs c))].

(* script events: (0 username passive (attrs)) auth | (1) disconnect | (2 sid cn ok static) hello | (3 sid) data *)
Definition nev_of (e : sx) : nev :=
  let k := sx_get_n (sx_nth e 0) in
  if (k =? 0)%N then NAuth (cfg_of (SL (tl (sx_get_l e))))
  else if (k =? 1)%N then NDisc
  else if (k =? 2)%N then NSeg (SHello (sx_get_n (sx_nth e 1)) (sx_get_n (sx_nth e 2))
                                      (sx_get_bool (sx_nth e 3)) (sx_get_n (sx_nth e 4)))
  else NSeg (SData (sx_get_n (sx_nth e 1))).

(* cfg = (p0 c0 stored0 lrs0 g0 edge) ; fresh layer: no earlier workers *)
Definition state_of (cfg scr : sx) : st :=
  mkSt (pst_of (sx_get_n (sx_nth cfg 0))) [] None (sx_get_n (sx_nth cfg 1)) (sx_get_n (sx_nth cfg 2))
       (sx_get_n (sx_nth cfg 3)) NNext (map nev_of (sx_get_l scr)) [] (sx_get_n (sx_nth cfg 4)) []
       (sx_get_bool (sx_nth cfg 5)) 0 [] (mkCfg 0 false []) [].

Definition summary (s : st) : sx :=
  SL [SN (pst_code (ps s));
      SL (map (fun x => SN (sid_of x)) (inq s));
      sx_opt SN (lock s);
      SN (npc_code (npc_ s));
      SN (N.of_nat (length (script s)));
      SL (map (fun w => SL [SN (w_att w); SN (hpc_code (w_pc w))]) (workers s));
      SL (map ev_sx (log s));
      sx_bool (all_done s);
      sx_bool (stuck s);
      SL (map SN (filter (enabled s) (tids s)));
      SN (stored s);
      (* payloads written towards the server: (connection, 1 client hello | 2 client finish, payload) *)
      SL (map (fun e => SL [SN (fst (fst e)); SN (snd (fst e)); cfg_sx (snd e)]) (pres s))].

(* ---- replay of an observed trace: list of (tid code arg) ---- *)
Fixpoint pend_get (t : N) (p : list (N * list label)) : list label :=
  match p with [] => [] | (t', l) :: r => if (t =? t')%N then l else pend_get t r end.
Fixpoint pend_set (t : N) (l : list label) (p : list (N * list label)) : list (N * list label) :=
  match p with
  | [] => [(t, l)]
  | (t', l') :: r => if (t =? t')%N then (t, l) :: r else (t', l') :: pend_set t l r
  end.

(* result: (0 summary) ok | (1 index (expected label) summary) label mismatch
           | (2 index summary) thread not enabled in the model | (3 tid summary) labels left over *)
Fixpoint replay (s : st) (pend : list (N * list label)) (idx : N) (obs : list sx) : sx :=
  match obs with
  | [] => match filter (fun p => match snd p with [] => false | _ => true end) pend with
          | [] => SL [SN 0; summary s]
          | (t, _) :: _ => SL [SN 3; SN t; summary s]
          end
  | o :: r =>
      let t := sx_get_n (sx_nth o 0) in
      let key := (sx_get_n (sx_nth o 1), sx_get_n (sx_nth o 2)) in
      match pend_get t pend with
      | l :: more =>
          if (fst (label_key l) =? fst key)%N && (snd (label_key l) =? snd key)%N
          then replay s (pend_set t more pend) (idx + 1) r
          else SL [SN 1; SN idx; label_sx l; summary s]
      | [] =>
          match step s t with
          | None => SL [SN 2; SN idx; summary s]
          | Some ([], _) => SL [SN 2; SN idx; summary s]
          | Some (l :: more, s') =>
              if (fst (label_key l) =? fst key)%N && (snd (label_key l) =? snd key)%N
              then replay s' (pend_set t more pend) (idx + 1) r
              else SL [SN 1; SN idx; label_sx l; summary s]
          end
      end
  end.

(* arg: (cfg script observed) *)
Definition run_replay (arg : sx) : sx :=
  replay (state_of (sx_nth arg 0) (sx_nth arg 1)) [] 0 (sx_get_l (sx_nth arg 2)).

(* arg: (cfg script (tid ...)) -> ((labels-of-step ...) summary) ; stops at the first disabled tid *)
Fixpoint sched_run (s : st) (sched : list N) (acc : list sx) : sx :=
  match sched with
  | [] => SL [SL (rev acc); summary s; SN 0]
  | t :: r => match step s t with
              | Some (l, s') => sched_run s' r (SL (SN t :: map label_sx l) :: acc)
              | None => SL [SL (rev acc); summary s; SN (1 + N.of_nat (length r))]
              end
  end.

Definition run_sched (arg : sx) : sx :=
  sched_run (state_of (sx_nth arg 0) (sx_nth arg 1)) (map sx_get_n (sx_get_l (sx_nth arg 2))) [].
