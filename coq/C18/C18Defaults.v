(* C18 — the default-layer helpers: the interpreter of C18Model.v applied to the function
   bodies regenerated from the Python source (coq/Gen/C18Layers.v).  Definitions only. *)
From YV Require Import Common.Tac C18.C18Model Gen.C18Layers.

(* module constants of yowstack.py (YOWSUP_PROTOCOL_LAYERS_BASIC) *)
Definition globals_env : env :=
  match exec funs [] FUEL [] global_consts with Some (e, _) => e | None => [] end.

(* YowStackBuilder.f(pargs..., k = kargs...); None = an exception (TypeError) *)
Definition call (f : N) (pargs : list value) (kargs : list (N * value)) : option result :=
  call_fun funs globals_env FUEL f pargs kargs.

(* what pushDefaultLayers appends: getDefaultLayers() *)
Definition default_layers_opt : option (list item) :=
  match call f_getDefaultLayers [] [] with Some (RVal (VTuple l)) => Some l | _ => None end.

(* module constants of yowsup/stacks/__init__.py *)
Definition init_env : env :=
  match exec funs [] FUEL [] init_consts with Some (e, _) => e | None => [] end.

Definition tuple_of (e : env) (v : N) : list item :=
  match env_get e v with Some (VTuple l) => l | _ => [] end.

Definition ids_of (l : list item) : list lid :=
  match class_ids l with Some cs => cs | None => [] end.

(* the non-optional protocol modules, as the source lists them *)
Definition basic : list lid := ids_of (tuple_of globals_env v_YOWSUP_PROTOCOL_LAYERS_BASIC).

Definition selected (g m p pr : bool) : list lid :=
  (if g then [c_YowGroupsProtocolLayer] else []) ++
  (if m then [c_YowMediaProtocolLayer] else []) ++
  (if p then [c_YowPrivacyProtocolLayer] else []) ++
  (if pr then [c_YowProfilesProtocolLayer] else []).

(* the specification of the helpers, bottom first: transport (network, segments, noise,
   coder, logger), encryption (control, send || receive), then ONE group holding the basic
   protocol modules followed by exactly the selected optional ones *)
Definition expected_layers (g m p pr : bool) : list item :=
  [Cls c_YowNetworkLayer; Cls c_YowNoiseSegmentsLayer; Cls c_YowNoiseLayer; Cls c_YowCoderLayer;
   Cls c_YowLoggerLayer; Cls c_AxolotlControlLayer;
   Par [c_AxolotlSendLayer; c_AxolotlReceivelayer];
   Par (basic ++ selected g m p pr)].
