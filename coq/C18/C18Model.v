(* C18 — model of yowsup/stacks/yowstack.py (YowStack, YowStackBuilder) and of the event /
   data plumbing of yowsup/layers/__init__.py (YowLayer, YowParallelLayer).
   Definitions only.  Layers are identified by a tag `lid`; what a layer *does* with an event
   or a datum is a parameter (`consumes`, `handler`), so every theorem holds for arbitrary
   layer behaviour.                                                                          *)
From YV Require Import Common.Tac.

Local Open Scope nat_scope.

Definition lid := N.

(* ------------------------------------------------------------------------------------- *)
(* 1. Stack specifications and YowStack._construct                                       *)
(* ------------------------------------------------------------------------------------- *)

(* one element of the sequence handed to YowStack(...) *)
Inductive item :=
| Cls (l : lid)             (* a YowLayer subclass: `inst = s()`                           *)
| Inst (l : lid)            (* an instance of a YowLayer subclass: `inst = s`               *)
| Tup (ms : list lid)       (* a tuple of classes: implicit group, YowParallelLayer(s)      *)
| Par (ms : list lid)       (* an explicit YowParallelLayer((classes)) instance             *)
| Bad.                      (* anything else: ValueError                                    *)

(* one element of __stackInstances *)
Inductive slot :=
| Plain (l : lid)
| Group (ms : list lid).    (* YowParallelLayer with its sublayers, in tuple order          *)

Definition members (s : slot) : list lid :=
  match s with Plain l => [l] | Group ms => ms end.

(* bottom-to-top, group members in tuple order *)
Definition flat (st : list slot) : list lid := flat_map members st.

Definition instantiate (it : item) : option slot :=
  match it with
  | Cls l => Some (Plain l)
  | Inst l => Some (Plain l)
  | Tup ms => Some (Group ms)
  | Par ms => Some (Group ms)
  | Bad => None
  end.

(* first loop of _construct: `self.__stackInstances.append(inst)`; a ValueError aborts *)
Fixpoint instantiate_all (acc : list slot) (its : list item) : option (list slot) :=
  match its with
  | [] => Some acc
  | it :: r => match instantiate it with
               | None => None
               | Some s => instantiate_all (acc ++ [s]) r
               end
  end.

(* an instance together with what setLayers(upper, lower) stored in it (indices into
   __stackInstances) and whether setStack was called on it *)
Record wired := mkW { w_slot : slot; w_upper : option nat; w_lower : option nat; w_stack : bool }.

(* second loop of _construct:
     upper = inst[i+1] if i+1 < len else None ; lower = inst[i-1] if i > 0 else None *)
Definition wire_at (n i : nat) (s : slot) : wired :=
  mkW s (if S i <? n then Some (S i) else None) (if 0 <? i then Some (i - 1) else None) true.

Fixpoint wire_from (n i : nat) (l : list slot) : list wired :=
  match l with
  | [] => []
  | s :: r => wire_at n i s :: wire_from n (S i) r
  end.

(* YowStack(stackClassesArr, reversed): None = ValueError *)
Definition construct (reversed : bool) (spec : list item) : option (list wired) :=
  match instantiate_all [] (if reversed then rev spec else spec) with
  | None => None
  | Some insts => Some (wire_from (length insts) 0 insts)
  end.

Fixpoint set_nth {A} (l : list A) (i : nat) (x : A) : list A :=
  match l, i with
  | [], _ => []
  | _ :: r, O => x :: r
  | a :: r, S j => a :: set_nth r j x
  end.

(* YowStack.addPostConstructLayer(layer):
     inst[-1].setLayers(layer, inst[-2]); layer.setLayers(None, inst[-1]); append(layer)
   None = IndexError (fewer than two instances).  setStack is NOT called on the new layer. *)
Definition add_post (ws : list wired) (l : lid) : option (list wired) :=
  let n := length ws in
  if n <? 2 then None
  else match nth_error ws (n - 1) with
       | None => None
       | Some top =>
         Some (set_nth ws (n - 1) (mkW (w_slot top) (Some n) (Some (n - 2)) (w_stack top))
               ++ [mkW (Plain l) None (Some (n - 1)) false])
       end.

Fixpoint add_posts (ws : list wired) (ls : list lid) : option (list wired) :=
  match ls with
  | [] => Some ws
  | l :: r => match add_post ws l with None => None | Some ws' => add_posts ws' r end
  end.

Definition slots (ws : list wired) : list slot := map w_slot ws.

(* the instances reached from instance i by following the stored upper (lower) references *)
Fixpoint chain (next : wired -> option nat) (ws : list wired) (fuel i : nat) : list slot :=
  match fuel with
  | O => []
  | S f =>
    match nth_error ws i with
    | None => []
    | Some w =>
      match next w with
      | None => []
      | Some j => match nth_error ws j with
                  | None => []
                  | Some w' => w_slot w' :: chain next ws f j
                  end
      end
    end
  end.

Definition above (ws : list wired) (i : nat) : list slot := chain w_upper ws (length ws) i.
Definition below (ws : list wired) (i : nat) : list slot := chain w_lower ws (length ws) i.

(* ------------------------------------------------------------------------------------- *)
(* 2. Events                                                                             *)
(* ------------------------------------------------------------------------------------- *)

Section Events.
  Variable consumes : lid -> bool.     (* the result of the layer's onEvent for this event *)

  (* YowParallelLayer.onEvent:  for s in sublayers: stopEvent = stopEvent or s.onEvent(ev)
     returns (members whose onEvent ran, in order; stopEvent) *)
  Fixpoint group_on (stop : bool) (ms : list lid) : list lid * bool :=
    match ms with
    | [] => ([], stop)
    | m :: r =>
      if stop then group_on stop r                 (* `or` short-circuits: not offered *)
      else let '(t, b) := group_on (consumes m) r in (m :: t, b)
    end.

  Definition slot_on (s : slot) : list lid * bool :=
    match s with
    | Plain l => ([l], consumes l)
    | Group ms => group_on false ms
    end.

  (* YowLayer.emitEvent / broadcastEvent, event not detached, `path` = the instances in the
     direction of travel, nearest first:
        if nxt and not nxt.onEvent(ev): nxt.emitEvent(ev)                                 *)
  Fixpoint walk (path : list slot) : list lid :=
    match path with
    | [] => []
    | s :: r => let '(t, stop) := slot_on s in if stop then t else t ++ walk r
    end.

  (* the same for either flag; the second component is what execDetached received:
     the continuation `nxt.emitEvent(ev)` (flag cleared), represented by the remaining path *)
  Definition propagate (detached : bool) (path : list slot) : list lid * list (list slot) :=
    match path with
    | [] => ([], [])
    | s :: r =>
      let '(t, stop) := slot_on s in
      if stop then (t, [])
      else if detached then (t, [r])
      else (t ++ walk r, [])
    end.
End Events.

Definition mem (cs : list lid) (l : lid) : bool := existsb (N.eqb l) cs.

(* a callable waiting in YowStack.__detachedQueue: consumers of its event, remaining path *)
Definition qentry := (list lid * list slot)%type.

Definition run_entry (e : qentry) : list lid := walk (mem (fst e)) (snd e).

(* one iteration of YowStack.loop: get(False); callback()  — or Queue.Empty: pass *)
Definition loop_step (q : list qentry) : list lid * list qentry :=
  match q with
  | [] => ([], [])
  | e :: q' => (run_entry e, q')
  end.

Fixpoint loop_steps (n : nat) (q : list qentry) : list (list lid) * list qentry :=
  match n with
  | O => ([], q)
  | S k => let '(t, q1) := loop_step q in
           let '(ts, q2) := loop_steps k q1 in (t :: ts, q2)
  end.

(* who calls emitEvent / broadcastEvent *)
Inductive pos :=
| PSlot (i : nat)               (* instance i itself (YowLayer.emitEvent)                   *)
| PMember (i k : nat).          (* sublayer k of the group at i (subEmitEvent/subBroadcast) *)

Definition pos_slot (p : pos) : nat := match p with PSlot i => i | PMember i _ => i end.

Definition path_of (ws : list wired) (up : bool) (i : nat) : list slot :=
  if up then above ws i else below ws i.

(* layer at p calls self.emitEvent(ev) (up) or self.broadcastEvent(ev) (down).
   None: no such position / (member) not a group / detached hand-off without a stack *)
Definition event_at (ws : list wired) (cs : list lid) (detached up : bool) (p : pos)
  : option (list lid * list qentry) :=
  match nth_error ws (pos_slot p) with
  | None => None
  | Some w =>
    let '(t, k) := propagate (mem cs) detached (path_of ws up (pos_slot p)) in
    let k' := map (fun r => (cs, r)) k in
    match p with
    | PSlot _ =>
      match k with
      | [] => Some (t, k')
      | _ => if w_stack w then Some (t, k') else None   (* self.getStack() is None *)
      end
    | PMember _ j =>
      match w_slot w with
      | Plain _ => None
      | Group ms =>
        if j <? length ms then
          (* self.onEvent(ev) — result ignored — then self.emitEvent(ev) on the group *)
          Some (fst (slot_on (mem cs) (w_slot w)) ++ t, k')
        else None
      end
    end
  end.

(* YowStack.emitEvent (up) / broadcastEvent (down):
     if not inst[0].onEvent(ev): inst[0].emitEvent(ev)      — inst[-1] for broadcast
   None = IndexError on an empty stack *)
Definition stack_event (ws : list wired) (cs : list lid) (detached up : bool)
  : option (list lid * list qentry) :=
  let i := if up then 0 else length ws - 1 in
  match nth_error ws i with
  | None => None
  | Some w =>
    let '(t0, stop) := slot_on (mem cs) (w_slot w) in
    if stop then Some (t0, [])
    else match event_at ws cs detached up (PSlot i) with
         | None => None
         | Some (t, k) => Some (t0 ++ t, k)
         end
  end.

(* ------------------------------------------------------------------------------------- *)
(* 3. Data                                                                               *)
(* ------------------------------------------------------------------------------------- *)

Section Data.
  Variable data : Type.
  (* what the layer's send (receive) hands to toLower (toUpper) for an incoming datum *)
  Variable handler : lid -> data -> list data.

  (* `path` = the instance that is entered, then its neighbours in the direction of travel.
     YowParallelLayer.send: for s in sublayers: s.send(data), with s.toLower = group.toLower;
     toLower -> lower.send, synchronously (depth first).  The trace lists every
     (layer, datum) entry in time order. *)
  Fixpoint flow (path : list slot) (d : data) : list (lid * data) :=
    match path with
    | [] => []
    | s :: rest =>
      flat_map (fun m => (m, d) :: flat_map (flow rest) (handler m d)) (members s)
    end.

  (* everything the members of slot s hand on for input d, in emission order *)
  Definition outs (s : slot) (d : data) : list data :=
    flat_map (fun m => handler m d) (members s).

  (* specification: the sequence of data with which the k-th instance of the path is entered
     (for k = length path: the data that leave the far end of the stack) *)
  Fixpoint inputs_at (path : list slot) (k : nat) (d : data) {struct k} : list data :=
    match k with
    | O => [d]
    | S k' => match path with
              | [] => []
              | s :: rest => flat_map (inputs_at rest k') (outs s d)
              end
    end.

  Definition proj (m : lid) (tr : list (lid * data)) : list data :=
    map snd (filter (fun e => N.eqb (fst e) m) tr).
End Data.

Arguments flow {data}.
Arguments outs {data}.
Arguments inputs_at {data}.
Arguments proj {data}.

(* YowStack.send(d) = inst[-1].send(d);  YowStack.receive(d) = inst[0].receive(d) *)
Definition stack_send {data} (on_send : lid -> data -> list data) (ws : list wired) (d : data)
  : option (list (lid * data)) :=
  match nth_error ws (length ws - 1) with
  | None => None
  | Some w => Some (flow on_send (w_slot w :: below ws (length ws - 1)) d)
  end.

Definition stack_receive {data} (on_recv : lid -> data -> list data) (ws : list wired) (d : data)
  : option (list (lid * data)) :=
  match nth_error ws 0 with
  | None => None
  | Some w => Some (flow on_recv (w_slot w :: above ws 0) d)
  end.

(* instance i (or one of its sublayers — their toLower/toUpper are the group's) calls
   toLower(d) / toUpper(d) *)
Definition to_neighbour {data} (h : lid -> data -> list data) (ws : list wired) (up : bool)
  (i : nat) (d : data) : list (lid * data) :=
  flow h (path_of ws up i) d.

(* ------------------------------------------------------------------------------------- *)
(* 4. getLayerInterface                                                                  *)
(* ------------------------------------------------------------------------------------- *)

Section Lookup.
  Variable cls : lid -> N.              (* the class of a layer                            *)
  Variable iface : lid -> option N.     (* its `interface` attribute; None = Python None   *)

  (* YowStack.getLayerInterface(C):
       for inst in instances:
         if inst.__class__ == C: return inst.getLayerInterface()
         elif inst.__class__ == YowParallelLayer:
            res = inst.getLayerInterface(C)      # first sublayer of class C, or None
            if res: return res                                                         *)
  Fixpoint lookup (st : list slot) (c : N) : option N :=
    match st with
    | [] => None
    | Plain l :: rest => if N.eqb (cls l) c then iface l else lookup rest c
    | Group ms :: rest =>
      match find (fun m => N.eqb (cls m) c) ms with
      | Some m => match iface m with
                  | Some i => Some i
                  | None => lookup rest c
                  end
      | None => lookup rest c
      end
    end.
End Lookup.

(* ------------------------------------------------------------------------------------- *)
(* 5. YowStackBuilder (push / pop / pushDefaultLayers / build)                           *)
(* ------------------------------------------------------------------------------------- *)

Inductive bop := BPush (it : item) | BPop | BPushDefaults.

(* self.layers += (l,) | self.layers = self.layers[:-1] | self.layers += getDefaultLayers() *)
Definition bstep (defaults : list item) (layers : list item) (o : bop) : list item :=
  match o with
  | BPush it => layers ++ [it]
  | BPop => removelast layers
  | BPushDefaults => layers ++ defaults
  end.

Definition builder_layers (defaults : list item) (ops : list bop) : list item :=
  fold_left (bstep defaults) ops [].

(* build(): YowStack(self.layers, reversed = False, props) *)
Definition builder_build (defaults : list item) (ops : list bop) : option (list wired) :=
  construct false (builder_layers defaults ops).

(* ------------------------------------------------------------------------------------- *)
(* 6. The default-layer helpers: an interpreter for the tuple-building fragment of Python *)
(*    in which getCoreLayers / getProtocolLayers / getDefaultLayers / getDefaultStack are *)
(*    written.  The function bodies themselves are regenerated from the source            *)
(*    (coq/Gen/C18Layers.v) on every run.                                                 *)
(* ------------------------------------------------------------------------------------- *)

Inductive value :=
| VBool (b : bool)
| VTuple (l : list item)
| VLayer (o : option item).         (* None, or one layer object *)

Inductive texp :=
| EVar (v : N)                                        (* local, parameter or module constant *)
| ETuple (es : list telem)                            (* ( e1, e2, ... )                      *)
| EAdd (a b : texp)                                   (* a + b                                *)
| ERev (a : texp)                                     (* a[::-1]                              *)
| ECall (f : N) (pargs : list N) (kargs : list (N * N)) (* YowStackBuilder.f(x, k = y)         *)
with telem :=
| LCls (c : N)                                        (* a layer class                        *)
| LPar (e : texp)                                     (* YowParallelLayer(e)                  *)
| LVar (v : N).                                       (* a variable holding a layer / a tuple *)

Inductive stmt :=
| SAssign (v : N) (e : texp)
| SAug (v : N) (e : texp)                             (* v += e                               *)
| SIf (v : N) (body : list stmt)                      (* if v: body   (no else)               *)
| SReturn (e : texp)
| SReturnStack (e : texp) (reversed : bool).          (* return YowStack(e, reversed = b)     *)

Record fundef := mkFun { f_params : list (N * value) (* name, default *); f_body : list stmt }.

Inductive result :=
| RVal (v : value)
| RStack (spec : list item) (reversed : bool).

Definition env := list (N * value).

Fixpoint env_get (e : env) (v : N) : option value :=
  match e with
  | [] => None
  | (k, x) :: r => if N.eqb k v then Some x else env_get r v
  end.

Definition truthy (x : value) : bool :=
  match x with
  | VBool b => b
  | VTuple l => match l with [] => false | _ => true end
  | VLayer o => match o with None => false | Some _ => true end
  end.

Fixpoint class_ids (l : list item) : option (list lid) :=
  match l with
  | [] => Some []
  | Cls c :: r => match class_ids r with None => None | Some cs => Some (c :: cs) end
  | _ => None
  end.

Definition has_key (e : env) (k : N) : bool := existsb (fun p => N.eqb (fst p) k) e.

(* Python argument binding; None = TypeError (too many positionals, unknown keyword,
   multiple values for one parameter).  Every parameter here has a default. *)
Fixpoint bind_pos (params : list (N * value)) (pargs : list value) : option env :=
  match pargs, params with
  | [], _ => Some []
  | _ :: _, [] => None
  | a :: ar, (p, _) :: pr =>
    match bind_pos pr ar with None => None | Some e => Some ((p, a) :: e) end
  end.

Fixpoint bind_kw (params : list (N * value)) (e : env) (kargs : list (N * value)) : option env :=
  match kargs with
  | [] => Some e
  | (k, a) :: r =>
    if negb (has_key params k) then None
    else if has_key e k then None
    else bind_kw params (e ++ [(k, a)]) r
  end.

Definition bind_args (params : list (N * value)) (pargs : list value) (kargs : list (N * value))
  : option env :=
  match bind_pos params pargs with
  | None => None
  | Some e0 =>
    match bind_kw params e0 kargs with
    | None => None
    | Some e1 => Some (e1 ++ filter (fun p => negb (has_key e1 (fst p))) params)
    end
  end.

Fixpoint opt_map {A B} (f : A -> option B) (l : list A) : option (list B) :=
  match l with
  | [] => Some []
  | a :: r => match f a, opt_map f r with
              | Some b, Some bs => Some (b :: bs)
              | _, _ => None
              end
  end.

Section Interp.
  Variable funs : list (N * fundef).
  Variable globals : env.

  Definition get_fun (f : N) : option fundef :=
    match find (fun p => N.eqb (fst p) f) funs with Some p => Some (snd p) | None => None end.

  Definition get_var (e : env) (v : N) : option value :=
    match env_get e v with Some x => Some x | None => env_get globals v end.

  (* all three mutually dependent evaluators recurse on one fuel (None also when it runs out;
     the theorems show concrete results, so fuel never runs out where they apply) *)
  Fixpoint eval_exp (fuel : nat) (e : env) (x : texp) {struct fuel} : option (list item) :=
    match fuel with
    | O => None
    | S f =>
      let eval_elem (el : telem) : option item :=
        match el with
        | LCls c => Some (Cls c)
        | LPar a => match eval_exp f e a with
                    | None => None
                    | Some l => match class_ids l with None => None | Some cs => Some (Par cs) end
                    end
        | LVar v => match get_var e v with
                    | Some (VLayer (Some it)) => Some it
                    | Some (VTuple l) =>
                      match class_ids l with None => None | Some cs => Some (Tup cs) end
                    | _ => None
                    end
        end in
      match x with
      | EVar v => match get_var e v with Some (VTuple l) => Some l | _ => None end
      | ETuple es => opt_map eval_elem es
      | EAdd a b => match eval_exp f e a, eval_exp f e b with
                    | Some la, Some lb => Some (la ++ lb)
                    | _, _ => None
                    end
      | ERev a => match eval_exp f e a with Some l => Some (rev l) | None => None end
      | ECall g pargs kargs =>
        match opt_map (get_var e) pargs,
              opt_map (fun p => match get_var e (snd p) with
                                | Some x => Some (fst p, x) | None => None end) kargs with
        | Some pv, Some kv =>
          match call_fun f g pv kv with
          | Some (RVal (VTuple l)) => Some l
          | _ => None
          end
        | _, _ => None
        end
      end
    end
  with exec (fuel : nat) (e : env) (body : list stmt) {struct fuel} : option (env * option result) :=
    match fuel with
    | O => None
    | S f =>
      match body with
      | [] => Some (e, None)
      | s :: rest =>
        match s with
        | SAssign v x =>
          match eval_exp f e x with
          | None => None
          | Some l => exec f ((v, VTuple l) :: e) rest
          end
        | SAug v x =>
          match get_var e v, eval_exp f e x with
          | Some (VTuple l0), Some l => exec f ((v, VTuple (l0 ++ l)) :: e) rest
          | _, _ => None
          end
        | SIf v b =>
          match get_var e v with
          | None => None
          | Some c =>
            if truthy c then
              match exec f e b with
              | None => None
              | Some (e', Some r) => Some (e', Some r)
              | Some (e', None) => exec f e' rest
              end
            else exec f e rest
          end
        | SReturn x =>
          match eval_exp f e x with None => None | Some l => Some (e, Some (RVal (VTuple l))) end
        | SReturnStack x r =>
          match eval_exp f e x with None => None | Some l => Some (e, Some (RStack l r)) end
        end
      end
    end
  with call_fun (fuel : nat) (g : N) (pargs : list value) (kargs : list (N * value))
       {struct fuel} : option result :=
    match fuel with
    | O => None
    | S f =>
      match get_fun g with
      | None => None
      | Some fd =>
        match bind_args (f_params fd) pargs kargs with
        | None => None                                   (* TypeError *)
        | Some e =>
          match exec f e (f_body fd) with
          | Some (_, Some r) => Some r
          | _ => None
          end
        end
      end
    end.
End Interp.

Definition FUEL : nat := 200.
