(* C18 — construction order and upper/lower wiring (YowStack._construct, addPostConstructLayer,
   YowStackBuilder push/pop/build).  No bound on the length of the spec or the width of groups. *)
From YV Require Import Common.Tac C18.C18Model.

Local Open Scope nat_scope.

(* ---------- generic list facts ---------- *)

Lemma skipn_cons_nth {A} : forall (l : list A) k x,
  nth_error l k = Some x -> skipn k l = x :: skipn (S k) l.
Proof.
  induction l as [|a l IH]; intros k x H.
  - destruct k; discriminate.
  - destruct k as [|k].
    + cbn in H. apply Some_inj in H. subst. reflexivity.
    + cbn in H. cbn [skipn]. rewrite (IH k x H). reflexivity.
Qed.

Lemma firstn_S_nth {A} : forall (l : list A) k x,
  nth_error l k = Some x -> firstn (S k) l = firstn k l ++ [x].
Proof.
  induction l as [|a l IH]; intros k x H.
  - destruct k; discriminate.
  - destruct k as [|k].
    + cbn in H. apply Some_inj in H. subst. reflexivity.
    + cbn in H. rewrite !firstn_cons, (IH k x H). reflexivity.
Qed.

Lemma nth_error_in_range {A} (l : list A) i : i < length l -> exists x, nth_error l i = Some x.
Proof.
  intros H. destruct (nth_error l i) eqn:E; [eauto|].
  apply nth_error_None in E. lia.
Qed.

Lemma length_set_nth {A} : forall (l : list A) i x, length (set_nth l i x) = length l.
Proof.
  induction l as [|a l IH]; intros [|i] x; cbn; try reflexivity. now rewrite IH.
Qed.

Lemma nth_error_set_nth_eq {A} : forall (l : list A) i x,
  i < length l -> nth_error (set_nth l i x) i = Some x.
Proof.
  induction l as [|a l IH]; intros [|i] x H; cbn in *; try lia; try reflexivity.
  apply IH. lia.
Qed.

Lemma nth_error_set_nth_neq {A} : forall (l : list A) i j x,
  i <> j -> nth_error (set_nth l i x) j = nth_error l j.
Proof.
  induction l as [|a l IH]; intros [|i] [|j] x H; cbn; try reflexivity; try lia.
  apply IH. lia.
Qed.

Lemma map_set_nth_same {A B} (f : A -> B) : forall (l : list A) i x a,
  nth_error l i = Some a -> f x = f a -> map f (set_nth l i x) = map f l.
Proof.
  induction l as [|b l IH]; intros [|i] x a H Hf; cbn in *; try discriminate.
  - apply Some_inj in H. subst. now rewrite Hf.
  - f_equal. eapply IH; eauto.
Qed.

(* ---------- instantiation ---------- *)

Definition to_slot (it : item) : slot :=
  match it with
  | Cls l => Plain l
  | Inst l => Plain l
  | Tup ms => Group ms
  | Par ms => Group ms
  | Bad => Plain 0%N
  end.

(* the instances, bottom first, that a spec denotes under either order convention *)
Definition layout (reversed : bool) (spec : list item) : list slot :=
  map to_slot (if reversed then rev spec else spec).

Lemma instantiate_ok it : it <> Bad -> instantiate it = Some (to_slot it).
Proof. destruct it; intros H; try reflexivity. congruence. Qed.

Lemma instantiate_all_ok : forall its acc,
  ~ In Bad its -> instantiate_all acc its = Some (acc ++ map to_slot its).
Proof.
  induction its as [|it its IH]; intros acc H.
  - cbn. now rewrite app_nil_r.
  - cbn [instantiate_all]. rewrite instantiate_ok.
    + rewrite IH. * cbn [map]. now rewrite <- app_assoc. * intros X. apply H. now right.
    + intros X. apply H. now left.
Qed.

Lemma instantiate_all_bad : forall its acc, In Bad its -> instantiate_all acc its = None.
Proof.
  induction its as [|it its IH]; intros acc H; [destruct H|].
  cbn [instantiate_all]. destruct it; cbn [instantiate]; try reflexivity;
    (apply IH; destruct H as [H|H]; [discriminate|exact H]).
Qed.

(* ---------- wiring ---------- *)

Lemma wire_from_length : forall l n i, length (wire_from n i l) = length l.
Proof. induction l as [|s l IH]; intros; cbn; [reflexivity|now rewrite IH]. Qed.

Lemma wire_from_slots : forall l n i, slots (wire_from n i l) = l.
Proof.
  induction l as [|s l IH]; intros; cbn; [reflexivity|].
  unfold slots in IH. now rewrite IH.
Qed.

Lemma nth_error_wire_from : forall l n k i,
  nth_error (wire_from n k l) i = option_map (wire_at n (k + i)) (nth_error l i).
Proof.
  induction l as [|s l IH]; intros n k i.
  - destruct i; reflexivity.
  - destruct i as [|i]; cbn [wire_from nth_error option_map].
    + now rewrite Nat.add_0_r.
    + rewrite IH. now replace (S k + i) with (k + S i) by lia.
Qed.

(* every stored reference points at the adjacent instance; the ends point nowhere *)
Definition well_wired (ws : list wired) : Prop :=
  forall i w, nth_error ws i = Some w ->
    w_upper w = (if S i <? length ws then Some (S i) else None) /\
    w_lower w = (if 0 <? i then Some (i - 1) else None).

Lemma wire_from_well_wired l : well_wired (wire_from (length l) 0 l).
Proof.
  intros i w H. rewrite nth_error_wire_from in H. rewrite wire_from_length.
  destruct (nth_error l i); [|discriminate]. cbn in H. apply Some_inj in H. subst w.
  split; reflexivity.
Qed.

Lemma wire_from_stack : forall l n i, Forall (fun w => w_stack w = true) (wire_from n i l).
Proof. induction l; intros; cbn; constructor; auto. Qed.

Lemma chain_up ws : well_wired ws -> forall fuel i,
  i < length ws -> length ws - S i <= fuel ->
  chain w_upper ws fuel i = skipn (S i) (slots ws).
Proof.
  intros HW. induction fuel as [|f IH]; intros i Hi Hf.
  - cbn [chain]. symmetry. apply skipn_all2. unfold slots. rewrite map_length. lia.
  - cbn [chain]. destruct (nth_error_in_range ws i Hi) as [w E]. rewrite E.
    destruct (HW i w E) as [HU _]. rewrite HU.
    destruct (Nat.ltb_spec (S i) (length ws)) as [C|C].
    + destruct (nth_error_in_range ws (S i) C) as [w' E']. rewrite E'.
      rewrite IH by lia.
      symmetry. apply skipn_cons_nth. unfold slots. now apply map_nth_error.
    + symmetry. apply skipn_all2. unfold slots. rewrite map_length. lia.
Qed.

Lemma chain_down ws : well_wired ws -> forall fuel i,
  i < length ws -> i <= fuel ->
  chain w_lower ws fuel i = rev (firstn i (slots ws)).
Proof.
  intros HW. induction fuel as [|f IH]; intros i Hi Hf.
  - replace i with 0 by lia. reflexivity.
  - cbn [chain]. destruct (nth_error_in_range ws i Hi) as [w E]. rewrite E.
    destruct (HW i w E) as [_ HL]. rewrite HL.
    destruct i as [|j].
    + reflexivity.
    + cbn [Nat.ltb Nat.leb]. replace (S j - 1) with j by lia.
      assert (Hj : j < length ws) by lia.
      destruct (nth_error_in_range ws j Hj) as [w' E']. rewrite E'.
      rewrite IH by lia.
      rewrite (firstn_S_nth (slots ws) j (w_slot w')).
      * rewrite rev_app_distr. reflexivity.
      * unfold slots. now apply map_nth_error.
Qed.

(* following the stored references = walking the instance list *)
Lemma chains_thm ws i : well_wired ws -> i < length ws ->
  above ws i = skipn (S i) (slots ws) /\ below ws i = rev (firstn i (slots ws)).
Proof.
  intros HW Hi. split; [apply chain_up|apply chain_down]; auto; lia.
Qed.

(* ---------- YowStack(spec, reversed) ---------- *)

Definition item_members (it : item) : list lid := members (to_slot it).

Theorem wiring_thm : forall reversed spec,
  (In Bad spec -> construct reversed spec = None) /\
  (~ In Bad spec -> exists ws,
      construct reversed spec = Some ws /\
      slots ws = layout reversed spec /\
      flat (slots ws) = flat_map item_members (if reversed then rev spec else spec) /\
      well_wired ws /\
      Forall (fun w => w_stack w = true) ws).
Proof.
  intros r spec. split; intros H.
  - unfold construct. rewrite instantiate_all_bad; [reflexivity|].
    destruct r; [now apply in_rev in H || (apply -> in_rev; exact H)|exact H].
  - unfold construct, layout.
    assert (H' : ~ In Bad (if r then rev spec else spec)).
    { destruct r; [|exact H]. intros X. apply H. now apply in_rev. }
    rewrite instantiate_all_ok by exact H'. cbn [app].
    eexists. split; [reflexivity|].
    rewrite wire_from_slots. split; [reflexivity|]. split; [|split].
    + unfold flat. rewrite flat_map_concat_map, map_map, <- flat_map_concat_map. reflexivity.
    + apply wire_from_well_wired.
    + apply wire_from_stack.
Qed.

(* non-vacuity / shape of the statement on a concrete mixed spec *)
Example wiring_example :
  construct true [Cls 1; Tup [2; 3]; Inst 4; Par [5]]%N =
  Some [mkW (Group [5%N]) (Some 1) None true; mkW (Plain 4%N) (Some 2) (Some 0) true;
        mkW (Group [2%N; 3%N]) (Some 3) (Some 1) true; mkW (Plain 1%N) None (Some 2) true].
Proof. reflexivity. Qed.

(* ---------- addPostConstructLayer ---------- *)

Theorem add_post_thm : forall ws l,
  well_wired ws ->
  (length ws < 2 -> add_post ws l = None) /\
  (2 <= length ws -> exists ws',
      add_post ws l = Some ws' /\
      slots ws' = slots ws ++ [Plain l] /\
      well_wired ws').
Proof.
  intros ws l HW. split; intros Hn; unfold add_post.
  - destruct (Nat.ltb_spec (length ws) 2); [reflexivity|lia].
  - destruct (Nat.ltb_spec (length ws) 2); [lia|].
    set (n := length ws) in *.
    destruct (nth_error_in_range ws (n - 1)) as [top E]; [lia|]. rewrite E.
    eexists. split; [reflexivity|]. split.
    + unfold slots. rewrite map_app. cbn [map w_slot]. f_equal.
      eapply map_set_nth_same; [exact E|reflexivity].
    + intros i w Hi. rewrite app_length, length_set_nth. fold n. cbn [length].
      destruct (Nat.lt_ge_cases i n) as [Hlt|Hge].
      * rewrite nth_error_app1 in Hi by (rewrite length_set_nth; exact Hlt).
        destruct (Nat.eq_dec (n - 1) i) as [Heq|Hne].
        -- subst i. rewrite nth_error_set_nth_eq in Hi by (fold n; lia).
           apply Some_inj in Hi. subst w. cbn [w_upper w_lower].
           destruct (Nat.ltb_spec (S (n - 1)) (n + 1)); [|lia].
           destruct (Nat.ltb_spec 0 (n - 1)); [|lia].
           split; f_equal; lia.
        -- rewrite nth_error_set_nth_neq in Hi by exact Hne.
           destruct (HW i w Hi) as [HU HL]. fold n in HU. rewrite HU, HL.
           destruct (Nat.ltb_spec (S i) n); [|lia].
           destruct (Nat.ltb_spec (S i) (n + 1)); [|lia]. split; reflexivity.
      * rewrite nth_error_app2 in Hi by (rewrite length_set_nth; exact Hge).
        rewrite length_set_nth in Hi. fold n in Hi.
        destruct (i - n) as [|d] eqn:Ed.
        -- cbn in Hi. apply Some_inj in Hi. subst w. cbn [w_upper w_lower].
           assert (i = n) by lia. subst i.
           destruct (Nat.ltb_spec (S n) (n + 1)); [lia|].
           destruct (Nat.ltb_spec 0 n); [|lia]. split; reflexivity.
        -- cbn in Hi. destruct d; discriminate.
Qed.

(* ---------- YowStackBuilder ---------- *)

Lemma builder_app defaults : forall ops1 ops2,
  builder_layers defaults (ops1 ++ ops2) =
  fold_left (bstep defaults) ops2 (builder_layers defaults ops1).
Proof. intros. unfold builder_layers. apply fold_left_app. Qed.

(* pushes give the layers in push order (first pushed = bottom) *)
Lemma builder_pushes defaults : forall its acc,
  fold_left (bstep defaults) (map BPush its) acc = acc ++ its.
Proof.
  induction its as [|it its IH]; intros acc; cbn.
  - now rewrite app_nil_r.
  - rewrite IH, <- app_assoc. reflexivity.
Qed.

Theorem builder_thm : forall defaults,
  (forall its, builder_layers defaults (map BPush its) = its) /\
  (forall ops it, builder_layers defaults (ops ++ [BPush it; BPop]) = builder_layers defaults ops) /\
  (forall ops, builder_layers defaults (ops ++ [BPushDefaults]) =
               builder_layers defaults ops ++ defaults) /\
  (forall ops it, builder_layers defaults (ops ++ [BPush it]) =
                  builder_layers defaults ops ++ [it]) /\
  (forall ops, builder_build defaults ops = construct false (builder_layers defaults ops)) /\
  builder_layers defaults [BPop] = [].
Proof.
  intros defaults. repeat split.
  - intros its. unfold builder_layers. now rewrite builder_pushes.
  - intros ops it. rewrite builder_app. cbn [fold_left bstep]. apply removelast_last.
  - intros ops. rewrite builder_app. reflexivity.
  - intros ops it. rewrite builder_app. reflexivity.
Qed.
