(* C18 — event propagation: emit / broadcast, parallel groups, detached events and the loop. *)
From YV Require Import Common.Tac C18.C18Model C18.C18ProofsWiring.

Local Open Scope nat_scope.

(* the specification: a sequence up to and including its first element satisfying p *)
Fixpoint upto_first {A} (p : A -> bool) (l : list A) : list A :=
  match l with
  | [] => []
  | x :: r => if p x then [x] else x :: upto_first p r
  end.

(* ---------- what upto_first means ---------- *)

Lemma upto_first_app {A} (p : A -> bool) : forall a b,
  upto_first p (a ++ b) = if existsb p a then upto_first p a else a ++ upto_first p b.
Proof.
  induction a as [|x a IH]; intros b; cbn; [reflexivity|].
  destruct (p x); cbn; [reflexivity|]. rewrite IH. destruct (existsb p a); reflexivity.
Qed.

Lemma upto_first_prefix {A} (p : A -> bool) : forall l, exists suf, l = upto_first p l ++ suf.
Proof.
  induction l as [|x l [suf IH]]; cbn; [now exists []|].
  destruct (p x); [now exists l|]. exists suf. cbn. now rewrite <- IH.
Qed.

Lemma upto_first_none {A} (p : A -> bool) : forall l, existsb p l = false -> upto_first p l = l.
Proof.
  induction l as [|x l IH]; cbn; intros H; [reflexivity|].
  apply orb_false_iff in H. destruct H as [H1 H2]. rewrite H1, IH; auto.
Qed.

Lemma upto_first_some {A} (p : A -> bool) : forall l, existsb p l = true ->
  exists pre x, upto_first p l = pre ++ [x] /\ p x = true /\ forallb (fun y => negb (p y)) pre = true.
Proof.
  induction l as [|x l IH]; cbn; intros H; [discriminate|].
  destruct (p x) eqn:E.
  - exists [], x. cbn. auto.
  - cbn in H. destruct (IH H) as (pre & y & H1 & H2 & H3).
    exists (x :: pre), y. cbn. rewrite H1, E, H3. auto.
Qed.

(* nothing after a consumer: every element but the last is a non-consumer *)
Lemma upto_first_stops {A} (p : A -> bool) : forall l pre x post,
  upto_first p l = pre ++ x :: post -> post <> [] -> p x = false.
Proof.
  induction l as [|a l IH]; intros pre x post H Hp; cbn in H.
  - destruct pre; discriminate.
  - destruct (p a) eqn:E.
    + destruct pre as [|b pre]; cbn in H.
      * apply cons_inj in H. destruct H as [_ H]. congruence.
      * apply cons_inj in H. destruct H as [_ H]. destruct pre; discriminate.
    + destruct pre as [|b pre]; cbn in H; apply cons_inj in H; destruct H as [H1 H2].
      * now subst.
      * eapply IH; eauto.
Qed.

(* every element with no consumer before it is reached *)
Lemma upto_first_reaches {A} (p : A -> bool) : forall pre x post,
  existsb p pre = false -> In x (upto_first p (pre ++ x :: post)).
Proof.
  intros pre x post H. rewrite upto_first_app, H. apply in_or_app. right.
  cbn. destruct (p x); now left.
Qed.

Lemma nodup_app_l {A} : forall (a b : list A), NoDup (a ++ b) -> NoDup a.
Proof.
  induction a as [|x a IH]; intros b H; [constructor|].
  cbn in H. inversion H as [|y l Hn Hd]; subst. constructor.
  - intros X. apply Hn. apply in_or_app. now left.
  - eapply IH; eauto.
Qed.

Lemma upto_first_nodup {A} (p : A -> bool) l : NoDup l -> NoDup (upto_first p l).
Proof.
  intros H. destruct (upto_first_prefix p l) as [suf E]. rewrite E in H.
  now apply nodup_app_l in H.
Qed.

Lemma upto_first_incl {A} (p : A -> bool) l x : In x (upto_first p l) -> In x l.
Proof.
  intros H. destruct (upto_first_prefix p l) as [suf E]. rewrite E. apply in_or_app. now left.
Qed.

(* ---------- the code's walk computes it ---------- *)

Section Ev.
  Variable c : lid -> bool.

  Lemma group_on_stopped : forall ms, group_on c true ms = ([], true).
  Proof. induction ms as [|m r IH]; cbn; auto. Qed.

  (* `stopEvent = stopEvent or s.onEvent(ev)`: members up to the first consumer *)
  Lemma group_on_spec : forall ms, group_on c false ms = (upto_first c ms, existsb c ms).
  Proof.
    induction ms as [|m r IH]; [reflexivity|].
    cbn [group_on upto_first existsb]. destruct (c m) eqn:E.
    - now rewrite group_on_stopped.
    - now rewrite IH.
  Qed.

  Lemma slot_on_spec s : slot_on c s = (upto_first c (members s), existsb c (members s)).
  Proof.
    destruct s as [l|ms]; cbn [slot_on members].
    - cbn. rewrite orb_false_r. now destruct (c l).
    - apply group_on_spec.
  Qed.

  Lemma walk_spec : forall path, walk c path = upto_first c (flat path).
  Proof.
    induction path as [|s r IH]; [reflexivity|].
    cbn [walk]. rewrite slot_on_spec. unfold flat in *. cbn [flat_map].
    rewrite upto_first_app. destruct (existsb c (members s)) eqn:EX; [reflexivity|].
    now rewrite IH, (upto_first_none c _ EX).
  Qed.

  Lemma propagate_normal path : propagate c false path = (upto_first c (flat path), []).
  Proof.
    destruct path as [|s r]; [reflexivity|].
    cbn [propagate]. rewrite slot_on_spec, walk_spec. unfold flat. cbn [flat_map].
    rewrite upto_first_app. destruct (existsb c (members s)) eqn:EX; [reflexivity|].
    now rewrite (upto_first_none c _ EX).
  Qed.

  (* detached: only the nearest instance is offered the event now; if it does not consume it
     exactly one continuation is queued, carrying the rest of the path *)
  Lemma propagate_detached s r :
    propagate c true (s :: r) =
    (upto_first c (members s), if existsb c (members s) then [] else [r]).
  Proof. cbn [propagate]. rewrite slot_on_spec. now destruct (existsb c (members s)). Qed.

  Lemma propagate_split path t k : propagate c true path = (t, k) ->
    t ++ flat_map (walk c) k = upto_first c (flat path) /\ length k <= 1.
  Proof.
    destruct path as [|s r]; intros H.
    - cbn in H. apply pair_inj in H. destruct H; subst. cbn. auto.
    - rewrite propagate_detached in H. apply pair_inj in H. destruct H; subst.
      unfold flat. cbn [flat_map]. rewrite upto_first_app.
      destruct (existsb c (members s)) eqn:EX; cbn [flat_map length].
      + rewrite app_nil_r. auto.
      + rewrite app_nil_r, walk_spec, (upto_first_none c _ EX). auto.
  Qed.
End Ev.

(* ---------- positions in a wired stack ---------- *)

Definition dir_path (up : bool) (i : nat) (st : list slot) : list slot :=
  if up then skipn (S i) st else rev (firstn i st).

Lemma path_of_wired ws up i : well_wired ws -> i < length ws ->
  path_of ws up i = dir_path up i (slots ws).
Proof.
  intros HW Hi. destruct (chains_thm ws i HW Hi) as [HA HB].
  unfold path_of, dir_path. now destruct up.
Qed.

Definition all_stacked (ws : list wired) : Prop := Forall (fun w => w_stack w = true) ws.

Lemma stacked_nth ws i w : all_stacked ws -> nth_error ws i = Some w -> w_stack w = true.
Proof.
  intros H E. unfold all_stacked in H. rewrite Forall_forall in H.
  apply H. eapply nth_error_In; eauto.
Qed.

(* instance i calls self.emitEvent(ev) / self.broadcastEvent(ev), event not detached *)
Theorem event_slot_thm : forall ws cs up i,
  well_wired ws -> i < length ws ->
  event_at ws cs false up (PSlot i) =
  Some (upto_first (mem cs) (flat (dir_path up i (slots ws))), []).
Proof.
  intros ws cs up i HW Hi. unfold event_at. cbn [pos_slot].
  destruct (nth_error_in_range ws i Hi) as [w E]. rewrite E.
  rewrite path_of_wired by assumption. rewrite propagate_normal. reflexivity.
Qed.

(* sublayer k of the group at i calls its (substituted) emitEvent / broadcastEvent:
   the whole group is offered the event first (up to its first consumer, result ignored),
   then it travels on from the group *)
Theorem event_member_thm : forall ws cs up i k ms,
  well_wired ws -> nth_error (slots ws) i = Some (Group ms) -> k < length ms ->
  event_at ws cs false up (PMember i k) =
  Some (upto_first (mem cs) ms ++ upto_first (mem cs) (flat (dir_path up i (slots ws))), []).
Proof.
  intros ws cs up i k ms HW E Hk. unfold event_at. cbn [pos_slot].
  unfold slots in E. rewrite nth_error_map in E.
  destruct (nth_error ws i) as [w|] eqn:Ew; [|discriminate]. cbn in E. apply Some_inj in E.
  assert (Hi : i < length ws) by (apply nth_error_Some; congruence).
  rewrite path_of_wired by assumption. rewrite propagate_normal. rewrite E.
  destruct (Nat.ltb_spec k (length ms)); [|lia].
  rewrite slot_on_spec. reflexivity.
Qed.

(* detached event: same sequence, cut after the nearest instance; the remainder is one
   queue entry (none if consumed or nothing further) *)
Theorem event_detached_thm : forall ws cs up i,
  well_wired ws -> all_stacked ws -> i < length ws ->
  exists t q,
    event_at ws cs true up (PSlot i) = Some (t, q) /\
    t = upto_first (mem cs) (flat (firstn 1 (dir_path up i (slots ws)))) /\
    length q <= 1 /\
    t ++ flat_map run_entry q = upto_first (mem cs) (flat (dir_path up i (slots ws))).
Proof.
  intros ws cs up i HW HS Hi. unfold event_at. cbn [pos_slot].
  destruct (nth_error_in_range ws i Hi) as [w E]. rewrite E.
  rewrite path_of_wired by assumption.
  destruct (dir_path up i (slots ws)) as [|s r] eqn:EP.
  - cbn. exists [], []. cbn. auto.
  - rewrite propagate_detached. rewrite (stacked_nth ws i w HS E).
    cbn [firstn]. unfold flat at 1. cbn [flat_map]. rewrite app_nil_r.
    unfold flat. cbn [flat_map]. rewrite upto_first_app.
    destruct (existsb (mem cs) (members s)) eqn:EX.
    + exists (upto_first (mem cs) (members s)), []. cbn. rewrite app_nil_r. auto.
    + exists (upto_first (mem cs) (members s)), [(cs, r)]. cbn.
      unfold run_entry. cbn [fst snd].
      rewrite app_nil_r, walk_spec, (upto_first_none _ _ EX). unfold flat. auto.
Qed.

Theorem event_member_detached_thm : forall ws cs up i k ms,
  well_wired ws -> all_stacked ws -> nth_error (slots ws) i = Some (Group ms) -> k < length ms ->
  exists t q,
    event_at ws cs true up (PMember i k) = Some (upto_first (mem cs) ms ++ t, q) /\
    event_at ws cs true up (PSlot i) = Some (t, q).
Proof.
  intros ws cs up i k ms HW HS E Hk.
  unfold slots in E. rewrite nth_error_map in E.
  destruct (nth_error ws i) as [w|] eqn:Ew; [|discriminate]. cbn in E. apply Some_inj in E.
  unfold event_at. cbn [pos_slot]. rewrite Ew.
  destruct (propagate (mem cs) true (path_of ws up i)) as [t q0] eqn:EP.
  rewrite (stacked_nth ws i w HS Ew). rewrite E.
  destruct (Nat.ltb_spec k (length ms)); [|lia].
  rewrite slot_on_spec. cbn [fst members].
  exists t, (map (fun r => (cs, r)) q0). split; [reflexivity|].
  destruct q0; reflexivity.
Qed.

(* YowStack.emitEvent / broadcastEvent: the bottom (top) instance first, then as above *)
Theorem event_stack_thm : forall ws cs up,
  well_wired ws -> 0 < length ws ->
  stack_event ws cs false up =
  Some (upto_first (mem cs) (flat (if up then slots ws else rev (slots ws))), []).
Proof.
  intros ws cs up HW Hn. unfold stack_event.
  set (i := if up then 0 else length ws - 1).
  assert (Hi : i < length ws) by (subst i; destruct up; lia).
  destruct (nth_error_in_range ws i Hi) as [w E]. rewrite E.
  rewrite slot_on_spec. rewrite event_slot_thm by assumption.
  assert (ES : nth_error (slots ws) i = Some (w_slot w)) by (unfold slots; now apply map_nth_error).
  assert (EQ : (if up then slots ws else rev (slots ws)) = w_slot w :: dir_path up i (slots ws)).
  { subst i. destruct up; unfold dir_path.
    - rewrite <- (skipn_cons_nth _ 0 _ ES). reflexivity.
    - assert (HL : length (slots ws) = length ws) by (unfold slots; apply map_length).
      rewrite <- (firstn_skipn (length ws - 1) (slots ws)) at 1.
      rewrite (skipn_cons_nth _ _ _ ES).
      rewrite (skipn_all2 (slots ws)) by lia.
      rewrite rev_app_distr. reflexivity. }
  rewrite EQ. unfold flat. cbn [flat_map]. rewrite upto_first_app.
  destruct (existsb (mem cs) (members (w_slot w))) eqn:EX; [reflexivity|].
  now rewrite (upto_first_none _ _ EX).
Qed.

(* ---------- the queue and the loop ---------- *)

(* running the loop once per queued callable runs them all, first in first out *)
Theorem loop_drains : forall q, loop_steps (length q) q = (map run_entry q, []).
Proof.
  induction q as [|e q IH]; [reflexivity|].
  cbn [length loop_steps loop_step]. rewrite IH. reflexivity.
Qed.

Lemma loop_steps_app : forall q1 q2,
  loop_steps (length q1) (q1 ++ q2) = (map run_entry q1, q2).
Proof.
  induction q1 as [|e q IH]; intros q2; [reflexivity|].
  cbn [length loop_steps loop_step app]. rewrite IH. reflexivity.
Qed.

Lemma loop_idle : forall n, loop_steps n [] = (repeat [] n, []).
Proof. induction n as [|n IH]; [reflexivity|]. cbn [loop_steps loop_step]. now rewrite IH. Qed.

(* ---------- readable corollary: "exactly once, in stack order, until consumed" ---------- *)

Theorem event_once_thm : forall reversed spec ws cs up i,
  construct reversed spec = Some ws -> i < length ws ->
  let st := layout reversed spec in
  let beyond := flat (dir_path up i st) in       (* the layers above (below) the emitter *)
  exists seen,
    event_at ws cs false up (PSlot i) = Some (seen, []) /\
    seen = upto_first (mem cs) beyond /\
    (exists rest, beyond = seen ++ rest) /\                           (* in stack order   *)
    (NoDup beyond -> NoDup seen) /\                                   (* each at most once *)
    (forall pre x post, beyond = pre ++ x :: post ->
        existsb (mem cs) pre = false -> In x seen) /\                 (* until consumed …  *)
    (forall pre x post, seen = pre ++ x :: post -> post <> [] -> mem cs x = false).
                                                                      (* … and not after   *)
Proof.
  intros r spec ws cs up i HC Hi st beyond.
  destruct (wiring_thm r spec) as [HB HG].
  assert (NB : ~ In Bad spec).
  { intros X. rewrite (HB X) in HC. discriminate. }
  destruct (HG NB) as (ws' & HC' & HS & _ & HW & _).
  rewrite HC in HC'. apply Some_inj in HC'. subst ws'.
  exists (upto_first (mem cs) beyond). split; [|split; [reflexivity|]].
  - rewrite event_slot_thm by assumption. subst beyond st. now rewrite HS.
  - split; [apply upto_first_prefix|]. split; [apply upto_first_nodup|]. split.
    + intros pre x post E Hpre. rewrite E. now apply upto_first_reaches.
    + intros pre x post E Hpost. eapply upto_first_stops; eauto.
Qed.

(* the statement is not vacuous: a 4-slot stack with a group, emitter at the bottom,
   the second group member consumes *)
Example event_example :
  let ws := match construct false [Cls 1; Par [2; 3; 4]; Cls 5]%N with Some w => w | None => [] end in
  event_at ws [3%N] false true (PSlot 0) = Some ([2; 3]%N, []) /\
  event_at ws [5%N] true true (PSlot 0) = Some ([2; 3; 4]%N, [([5%N], [Plain 5%N])]) /\
  event_at ws [] false false (PMember 1 2) = Some ([2; 3; 4; 1]%N, []).
Proof. vm_compute. auto. Qed.
