(* C18 — data flow through plain layers and parallel groups, and getLayerInterface. *)
From YV Require Import Common.Tac C18.C18Model C18.C18ProofsWiring.

Local Open Scope nat_scope.

(* ---------- generic list facts ---------- *)

Lemma flat_map_ext_in {A B} (f g : A -> list B) : forall l,
  (forall x, In x l -> f x = g x) -> flat_map f l = flat_map g l.
Proof.
  induction l as [|a l IH]; intros H; [reflexivity|].
  cbn. rewrite H by now left. rewrite IH; [reflexivity|]. intros x Hx. apply H. now right.
Qed.

Lemma flat_map_nil {A B} (f : A -> list B) : forall l, (forall x, In x l -> f x = []) -> flat_map f l = [].
Proof.
  induction l as [|a l IH]; intros H; [reflexivity|].
  cbn. rewrite H by now left. cbn. apply IH. intros x Hx. apply H. now right.
Qed.

Lemma flat_map_assoc {A B C} (f : A -> list B) (g : B -> list C) : forall l,
  flat_map g (flat_map f l) = flat_map (fun x => flat_map g (f x)) l.
Proof.
  induction l as [|a l IH]; [reflexivity|]. cbn. now rewrite flat_map_app, IH.
Qed.

Lemma flat_map_single {A} : forall l : list A, flat_map (fun o => [o]) l = l.
Proof. induction l as [|a l IH]; cbn; [reflexivity|now rewrite IH]. Qed.

Section D.
  Variable data : Type.
  Variable h : lid -> data -> list data.

  Lemma proj_app m (a b : list (lid * data)) : proj m (a ++ b) = proj m a ++ proj m b.
  Proof. unfold proj. now rewrite filter_app, map_app. Qed.

  Lemma proj_cons m l (d : data) tr :
    proj m ((l, d) :: tr) = (if N.eqb l m then [d] else []) ++ proj m tr.
  Proof. unfold proj. cbn [filter fst]. destruct (N.eqb l m); reflexivity. Qed.

  Lemma proj_flat_map {X} m (f : X -> list (lid * data)) : forall l,
    proj m (flat_map f l) = flat_map (fun x => proj m (f x)) l.
  Proof.
    induction l as [|a l IH]; [reflexivity|]. cbn [flat_map]. now rewrite proj_app, IH.
  Qed.

  Lemma pick_one m (d : data) : forall l, NoDup l -> In m l ->
    flat_map (fun m' => if N.eqb m' m then [d] else []) l = [d].
  Proof.
    induction l as [|a l IH]; intros ND HI; [destruct HI|].
    inversion ND as [|x y Hn Hd]; subst. cbn [flat_map].
    destruct (N.eqb_spec a m) as [->|Hne].
    - rewrite flat_map_nil; [reflexivity|].
      intros x Hx. destruct (N.eqb_spec x m); [subst; contradiction|reflexivity].
    - destruct HI as [->|HI]; [congruence|]. cbn. now apply IH.
  Qed.

  (* a layer that is not on the path is never entered *)
  Lemma flow_absent : forall path d m, ~ In m (flat path) -> proj m (flow h path d) = [].
  Proof.
    induction path as [|s rest IH]; intros d m Hm; [reflexivity|].
    cbn [flow]. rewrite proj_flat_map. apply flat_map_nil. intros m' Hm'.
    rewrite proj_cons, proj_flat_map.
    destruct (N.eqb_spec m' m) as [->|_].
    - exfalso. apply Hm. unfold flat. cbn [flat_map]. apply in_or_app. now left.
    - cbn [app]. apply flat_map_nil. intros o _. apply IH.
      intros X. apply Hm. unfold flat. cbn [flat_map]. apply in_or_app. now right.
  Qed.

  (* MAIN: in the depth-first run of the code, every member of the k-th instance of the path
     is entered with exactly the level-k input sequence — the same for all members of a
     group ("offered to every member"), in emission order *)
  Theorem flow_level_thm : forall path k s m d,
    NoDup (flat path) -> nth_error path k = Some s -> In m (members s) ->
    proj m (flow h path d) = inputs_at h path k d.
  Proof.
    induction path as [|s0 rest IH]; intros k s m d ND Hk Hm.
    - destruct k; discriminate.
    - unfold flat in ND. cbn [flat_map] in ND.
      assert (ND0 : NoDup (members s0)).
      { clear -ND. induction (members s0) as [|x l IHl]; [constructor|].
        cbn in ND. inversion ND as [|y z Hn Hd]; subst. constructor.
        - intros X. apply Hn. apply in_or_app. now left.
        - now apply IHl. }
      assert (NDr : NoDup (flat rest)).
      { clear -ND. induction (members s0) as [|x l IHl]; [exact ND|].
        cbn in ND. inversion ND; subst. now apply IHl. }
      assert (DISJ : forall x, In x (members s0) -> ~ In x (flat rest)).
      { clear -ND. induction (members s0) as [|x l IHl]; intros y Hy; [destruct Hy|].
        cbn in ND. inversion ND as [|a b Hn Hd]; subst. destruct Hy as [->|Hy].
        - intros X. apply Hn. apply in_or_app. now right.
        - now apply IHl. }
      cbn [flow]. rewrite proj_flat_map.
      destruct k as [|k'].
      + cbn in Hk. apply Some_inj in Hk. subst s0. cbn [inputs_at].
        rewrite (flat_map_ext_in _ (fun m' => if N.eqb m' m then [d] else [])).
        * now apply pick_one.
        * intros m' Hm'. rewrite proj_cons, proj_flat_map.
          rewrite (flat_map_nil _ (h m' d)); [now rewrite app_nil_r|].
          intros o _. apply flow_absent. now apply DISJ.
      + cbn in Hk. cbn [inputs_at]. unfold outs. rewrite flat_map_assoc.
        apply flat_map_ext_in. intros m' Hm'.
        rewrite proj_cons, proj_flat_map.
        destruct (N.eqb_spec m' m) as [->|_].
        * exfalso. apply (DISJ m Hm'). unfold flat. apply in_flat_map.
          exists s. split; [eapply nth_error_In; eauto|exact Hm].
        * cbn [app]. apply flat_map_ext_in. intros o _. eapply IH; eauto.
  Qed.

  (* what enters the next instance is what the members of this one handed on, member by
     member in tuple order for each input, inputs in arrival order *)
  Theorem inputs_step_thm : forall path k s d,
    nth_error path k = Some s ->
    inputs_at h path (S k) d = flat_map (outs h s) (inputs_at h path k d).
  Proof.
    induction path as [|s0 rest IH]; intros k s d Hk.
    - destruct k; discriminate.
    - destruct k as [|k'].
      + cbn in Hk. apply Some_inj in Hk. subst s0.
        cbn [inputs_at flat_map]. rewrite app_nil_r.
        transitivity (flat_map (fun o => [o]) (outs h s d));
          [apply flat_map_ext; reflexivity|apply flat_map_single].
      + cbn in Hk. cbn [inputs_at].
        rewrite (flat_map_ext_in _ (fun o => flat_map (outs h s) (inputs_at h rest k' o))).
        * now rewrite flat_map_assoc.
        * intros o _. now apply IH.
  Qed.

  (* if in each of the first k instances exactly one member hands the datum on unchanged and
     the others swallow it (one protocol layer handles a stanza), the k-th instance —
     every member of it — is entered exactly once, with that datum *)
  Theorem single_forwarder_thm : forall path k d,
    k <= length path ->
    Forall (fun s => forall x, outs h s x = [x]) (firstn k path) ->
    inputs_at h path k d = [d].
  Proof.
    induction path as [|s0 rest IH]; intros k d Hk HF.
    - cbn in Hk. replace k with 0 by lia. reflexivity.
    - destruct k as [|k']; [reflexivity|].
      cbn [firstn] in HF. inversion HF as [|x l H0 Hr]; subst.
      cbn [inputs_at]. rewrite H0. cbn [flat_map]. rewrite app_nil_r.
      apply IH; [cbn in Hk; lia|exact Hr].
  Qed.

  (* a stack of plain pass-through layers (and groups of one): every layer sees the datum
     exactly once, in stack order *)
  Theorem passthrough_thm : forall path d,
    (forall m x, In m (flat path) -> h m x = [x]) ->
    Forall (fun s => length (members s) = 1) path ->
    flow h path d = map (fun m => (m, d)) (flat path).
  Proof.
    induction path as [|s0 rest IH]; intros d HP HF; [reflexivity|].
    inversion HF as [|x l H1 Hr]; subst.
    cbn [flow]. unfold flat. cbn [flat_map].
    destruct (members s0) as [|m [|m2 ms]] eqn:EM; cbn in H1; try lia.
    cbn [flat_map app map]. rewrite app_nil_r.
    rewrite HP.
    - cbn [flat_map]. rewrite app_nil_r. f_equal. apply IH; [|exact Hr].
      intros m' x' Hm'. apply HP. unfold flat. cbn [flat_map]. apply in_or_app. now right.
    - unfold flat. cbn [flat_map]. rewrite EM. now left.
  Qed.
End D.

(* non-vacuity: a splitter above a group; the layer below the group sees both members' outputs *)
Example flow_example :
  let h := fun (l : lid) (d : N) => match l with
             | 1 => [d * 8 + 1; d * 8 + 2] | 3 => [] | _ => [d] end%N in
  flow h [Plain 1; Group [2; 3; 4]; Plain 5]%N 0%N =
    [(1, 0); (2, 1); (5, 1); (3, 1); (4, 1); (5, 1); (2, 2); (5, 2); (3, 2); (4, 2); (5, 2)]%N /\
  inputs_at h [Plain 1; Group [2; 3; 4]; Plain 5]%N 2 0%N = [1; 1; 2; 2]%N.
Proof. vm_compute. auto. Qed.

(* YowStack.send enters the top instance and travels down the references;
   YowStack.receive enters the bottom instance and travels up *)
Theorem stack_data_thm : forall data (h : lid -> data -> list data) ws d,
  well_wired ws -> 0 < length ws ->
  stack_send h ws d = Some (flow h (rev (slots ws)) d) /\
  stack_receive h ws d = Some (flow h (slots ws) d).
Proof.
  intros data h ws d HW Hn.
  assert (HL : length (slots ws) = length ws) by (unfold slots; apply map_length).
  split.
  - unfold stack_send.
    destruct (nth_error_in_range ws (length ws - 1)) as [w E]; [lia|]. rewrite E.
    destruct (chains_thm ws (length ws - 1) HW) as [_ HB]; [lia|]. rewrite HB.
    assert (ES : nth_error (slots ws) (length ws - 1) = Some (w_slot w))
      by (unfold slots; now apply map_nth_error).
    do 2 f_equal. symmetry.
    rewrite <- (firstn_skipn (length ws - 1) (slots ws)) at 1.
    rewrite (skipn_cons_nth _ _ _ ES).
    rewrite (skipn_all2 (slots ws)) by lia.
    rewrite rev_app_distr. reflexivity.
  - unfold stack_receive.
    destruct (nth_error_in_range ws 0) as [w E]; [lia|]. rewrite E.
    destruct (chains_thm ws 0 HW) as [HA _]; [lia|]. rewrite HA.
    assert (ES : nth_error (slots ws) 0 = Some (w_slot w))
      by (unfold slots; now apply map_nth_error).
    do 2 f_equal. rewrite <- (skipn_cons_nth _ 0 _ ES). reflexivity.
Qed.

(* ---------- getLayerInterface ---------- *)

Section L.
  Variable cls : lid -> N.
  Variable iface : lid -> option N.

  Lemma find_none {A} (f : A -> bool) : forall l, (forall x, In x l -> f x = false) -> find f l = None.
  Proof.
    induction l as [|a l IH]; intros H; [reflexivity|]. cbn.
    rewrite H by now left. apply IH. intros x Hx. apply H. now right.
  Qed.

  Lemma find_first {A} (f : A -> bool) : forall pre a z,
    (forall x, In x pre -> f x = false) -> f a = true -> find f (pre ++ a :: z) = Some a.
  Proof.
    induction pre as [|b pre IH]; intros a z H Ha; cbn.
    - now rewrite Ha.
    - rewrite H by now left. apply IH; [|exact Ha]. intros x Hx. apply H. now right.
  Qed.

  Lemma lookup_absent : forall st c,
    (forall x, In x (flat st) -> cls x <> c) -> lookup cls iface st c = None.
  Proof.
    induction st as [|s rest IH]; intros c H; [reflexivity|].
    assert (HR : forall x, In x (flat rest) -> cls x <> c).
    { intros x Hx. apply H. unfold flat. cbn [flat_map]. apply in_or_app. now right. }
    destruct s as [l|ms]; cbn [lookup].
    - destruct (N.eqb_spec (cls l) c) as [E|_]; [|now apply IH].
      exfalso. apply (H l); [|exact E]. unfold flat. cbn. now left.
    - rewrite find_none; [now apply IH|].
      intros x Hx. apply N.eqb_neq. apply H. unfold flat. cbn [flat_map members].
      apply in_or_app. now left.
  Qed.

  (* the first layer of class c in stack order (inside a group or not) *)
  Lemma lookup_gen : forall st c pre l post,
    flat st = pre ++ l :: post -> (forall x, In x pre -> cls x <> c) -> cls l = c ->
    (forall i, iface l = Some i -> lookup cls iface st c = Some i) /\
    (iface l = None -> (forall x, In x post -> cls x <> c) -> lookup cls iface st c = None).
  Proof.
    induction st as [|s rest IH]; intros c pre l post HF Hpre Hl.
    - destruct pre; discriminate.
    - unfold flat in HF. cbn [flat_map] in HF. fold (flat rest) in HF.
      destruct s as [a|ms]; cbn [members] in HF; cbn [lookup].
      + destruct pre as [|x pre']; cbn in HF; apply cons_inj in HF; destruct HF as [H1 H2].
        * subst a. rewrite Hl, N.eqb_refl. split; [auto|]. intros E _. exact E.
        * subst a. destruct (N.eqb_spec (cls x) c) as [E|_].
          -- exfalso. apply (Hpre x); [now left|exact E].
          -- apply (IH c pre' l post H2); [|exact Hl]. intros y Hy. apply Hpre. now right.
      + apply app_eq_app in HF. destruct HF as [z [[H1 H2]|[H1 H2]]].
        * (* ms = pre ++ z ; l :: post = z ++ flat rest *)
          destruct z as [|l' z'].
          -- cbn in H2. rewrite app_nil_r in H1. subst ms.
             rewrite find_none.
             ++ apply (IH c [] l post); [now symmetry|intros x []|exact Hl].
             ++ intros x Hx. apply N.eqb_neq. now apply Hpre.
          -- cbn in H2. apply cons_inj in H2. destruct H2 as [<- H2]. subst ms.
             rewrite find_first.
             ++ split.
                ** intros i E. now rewrite E.
                ** intros E Hpost. rewrite E. apply lookup_absent.
                   intros x Hx. apply Hpost. rewrite H2. apply in_or_app. now right.
             ++ intros x Hx. apply N.eqb_neq. now apply Hpre.
             ++ now apply N.eqb_eq.
        * (* pre = ms ++ z ; flat rest = z ++ l :: post *)
          subst pre. rewrite find_none.
          -- apply (IH c z l post H2); [|exact Hl].
             intros x Hx. apply Hpre. apply in_or_app. now right.
          -- intros x Hx. apply N.eqb_neq. apply Hpre. apply in_or_app. now left.
  Qed.

  Theorem lookup_thm : forall st c,
    (* a class that occurs nowhere: None *)
    ((forall x, In x (flat st) -> cls x <> c) -> lookup cls iface st c = None) /\
    (* the first layer of that class in stack order, plain or inside a group, when it has
       an interface *)
    (forall pre l post i, flat st = pre ++ l :: post -> (forall x, In x pre -> cls x <> c) ->
       cls l = c -> iface l = Some i -> lookup cls iface st c = Some i) /\
    (* a class that occurs exactly once: that layer's interface, whatever it is *)
    (forall pre l post, flat st = pre ++ l :: post ->
       (forall x, In x (pre ++ post) -> cls x <> c) -> cls l = c ->
       lookup cls iface st c = iface l).
  Proof.
    intros st c. split; [apply lookup_absent|]. split.
    - intros pre l post i HF Hpre Hl Hi.
      destruct (lookup_gen st c pre l post HF Hpre Hl) as [H _]. now apply H.
    - intros pre l post HF Hall Hl.
      assert (Hpre : forall x, In x pre -> cls x <> c).
      { intros x Hx. apply Hall. apply in_or_app. now left. }
      assert (Hpost : forall x, In x post -> cls x <> c).
      { intros x Hx. apply Hall. apply in_or_app. now right. }
      destruct (lookup_gen st c pre l post HF Hpre Hl) as [H1 H2].
      destruct (iface l) as [i|] eqn:E; [now apply H1|now apply H2].
  Qed.
End L.

Example lookup_example :
  let cls := fun l : lid => (l mod 10)%N in
  let iface := fun l : lid => if (l <? 20)%N then None else Some l in
  (* class 3 occurs in a group without interface (13), then in a later group with one (23) *)
  lookup cls iface [Plain 1; Group [12; 13]; Group [24; 23; 33]; Plain 43]%N 3%N = Some 23%N.
Proof. vm_compute. reflexivity. Qed.
