(* C18 — the default helpers, for every flag combination, against the function bodies
   regenerated from the Python source.  The domain is finite (booleans), so every statement is
   decided by computation; the `layer` argument is arbitrary.                              *)
From YV Require Import Common.Tac C18.C18Model C18.C18ProofsWiring Gen.C18Layers C18.C18Defaults.

Definition flag_kw (g m p pr : bool) : list (N * value) :=
  [(v_groups, VBool g); (v_media, VBool m); (v_privacy, VBool p); (v_profiles, VBool pr)].

Definition opt_item (o : option item) : list item :=
  match o with Some it => [it] | None => [] end.

(* getDefaultLayers: 16 combinations, keyword and positional call styles, and no arguments *)
Theorem default_layers_thm : forall g m p pr,
  call f_getDefaultLayers [] (flag_kw g m p pr) = Some (RVal (VTuple (expected_layers g m p pr))) /\
  call f_getDefaultLayers [VBool g; VBool m; VBool p; VBool pr] [] =
    Some (RVal (VTuple (expected_layers g m p pr))).
Proof. intros [] [] [] []; vm_compute; split; reflexivity. Qed.

Theorem push_default_layers_thm :
  default_layers_opt = Some (expected_layers true true true true).
Proof. vm_compute. reflexivity. Qed.

(* getProtocolLayers: basic ++ exactly the selected *)
Theorem protocol_layers_thm : forall g m p pr,
  call f_getProtocolLayers [] (flag_kw g m p pr) =
  Some (RVal (VTuple (map Cls (basic ++ selected g m p pr)))).
Proof. intros [] [] [] []; vm_compute; reflexivity. Qed.

(* getDefaultStack: all 32 flag combinations, with or without a top layer (any item),
   keyword and positional call styles; the stack is built with reversed = False *)
Theorem default_stack_thm : forall (layer : option item) ax g m p pr,
  call f_getDefaultStack [] ((v_layer, VLayer layer) :: (v_axolotl, VBool ax) :: flag_kw g m p pr) =
    Some (RStack (expected_layers g m p pr ++ opt_item layer) false) /\
  call f_getDefaultStack [VLayer layer; VBool ax; VBool g; VBool m; VBool p; VBool pr] [] =
    Some (RStack (expected_layers g m p pr ++ opt_item layer) false).
Proof. intros [it|] [] [] [] [] []; vm_compute; split; reflexivity. Qed.

Theorem default_stack_noargs_thm :
  call f_getDefaultStack [] [] = Some (RStack (expected_layers true true true true) false).
Proof. vm_compute. reflexivity. Qed.

(* decidable side conditions on the generated table *)
Fixpoint nodupb (l : list N) : bool :=
  match l with [] => true | x :: r => negb (existsb (N.eqb x) r) && nodupb r end.

Lemma nodupb_sound : forall l, nodupb l = true -> NoDup l.
Proof.
  induction l as [|x r IH]; intros H; [constructor|].
  cbn in H. apply andb_true_iff in H. destruct H as [H1 H2]. constructor; [|auto].
  intros X. apply negb_true_iff in H1.
  assert (existsb (N.eqb x) r = true); [|congruence].
  apply existsb_exists. exists x. split; [exact X|apply N.eqb_refl].
Qed.

(* all layers of the full default stack are distinct classes; the transport and encryption
   layers and the optional modules are not among the basic protocol modules *)
Theorem default_distinct_thm : NoDup (flat_map item_members (expected_layers true true true true)).
Proof. apply nodupb_sound. vm_compute. reflexivity. Qed.

(* the resulting stack, wired: 8 instances (9 with a top layer), in the stated order *)
Theorem default_stack_wired_thm : forall (layer : option item) g m p pr,
  layer <> Some Bad ->
  exists ws, construct false (expected_layers g m p pr ++ opt_item layer) = Some ws /\
             slots ws = map to_slot (expected_layers g m p pr ++ opt_item layer) /\
             well_wired ws.
Proof.
  intros layer g m p pr HL.
  destruct (wiring_thm false (expected_layers g m p pr ++ opt_item layer)) as [_ H].
  destruct H as (ws & H1 & H2 & _ & H4 & _).
  - intros X. apply in_app_or in X. destruct X as [X|X].
    + cbn in X. repeat (destruct X as [X|X]; [discriminate|]). exact X.
    + destruct layer as [it|]; cbn in X; [|exact X]. destruct X as [X|X]; [|exact X]. congruence.
  - exists ws. auto.
Qed.

(* yowsup/stacks/__init__.py: YOWSUP_FULL_STACK is a top-first tuple with an implicit group;
   YowStack(YOWSUP_FULL_STACK) (default order convention) puts the network layer at the bottom *)
Definition full_stack_spec : list item := tuple_of init_env v_YOWSUP_FULL_STACK.
Definition init_full : list lid := ids_of (tuple_of init_env v_YOWSUP_PROTOCOL_LAYERS_FULL).

Theorem full_stack_thm :
  exists ws, construct stack_reversed_default full_stack_spec = Some ws /\
    slots ws = [Plain c_YowNetworkLayer; Plain c_YowNoiseSegmentsLayer; Plain c_YowNoiseLayer;
                Plain c_YowCoderLayer; Plain c_YowLoggerLayer; Group init_full] /\
    NoDup (flat (slots ws)) /\ well_wired ws.
Proof.
  destruct (wiring_thm stack_reversed_default full_stack_spec) as [_ H].
  destruct H as (ws & H1 & H2 & _ & H4 & _).
  - vm_compute. intros X. repeat (destruct X as [X|X]; [discriminate|]). exact X.
  - exists ws. split; [exact H1|]. rewrite H2. split; [vm_compute; reflexivity|]. split; [|exact H4].
    apply nodupb_sound. vm_compute. reflexivity.
Qed.

(* ---- regression witness for the defect repaired by fixes/C18-getdefaultstack.patch ----
   Before the fix getDefaultStack passed `axolotl` positionally:
       YowStackBuilder.getDefaultLayers(axolotl, groups = groups, ...)
   so `groups` received two values: TypeError for every argument combination. *)
Definition funs_unpatched : list (N * fundef) :=
  (f_getDefaultStack,
   mkFun [(v_layer, VLayer None); (v_axolotl, VBool false); (v_groups, VBool true);
          (v_media, VBool true); (v_privacy, VBool true); (v_profiles, VBool true)]
     [SAssign v_allLayers (ECall f_getDefaultLayers [v_axolotl]
        [(v_groups, v_groups); (v_media, v_media); (v_privacy, v_privacy); (v_profiles, v_profiles)]);
      SIf v_layer [SAssign v_allLayers (EAdd (EVar v_allLayers) (ETuple [LVar v_layer]))];
      SReturnStack (EVar v_allLayers) false]) :: funs.

Lemma getdefaultstack_unpatched_refuted : forall (layer : option item) ax g m p pr,
  call_fun funs_unpatched globals_env FUEL f_getDefaultStack []
    ((v_layer, VLayer layer) :: (v_axolotl, VBool ax) :: flag_kw g m p pr) = None.
Proof. intros [it|] [] [] [] [] []; vm_compute; reflexivity. Qed.
