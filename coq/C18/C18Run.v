(* Glue between the sx line format and the C18 model (unverified, trusted, small). *)
From YV Require Import Common.Tac Common.Sx C18.C18Model Gen.C18Layers C18.C18Defaults.

Local Open Scope N_scope.

Definition nat_of (s : sx) : nat := N.to_nat (sx_get_n s).
Definition lids_of (s : sx) : list lid := map sx_get_n (sx_get_l s).
Definition sx_nat (n : nat) : sx := SN (N.of_nat n).
Definition sx_lids (l : list lid) : sx := SL (map SN l).

(* item: (0 l) class | (1 l) instance | (2 (l ...)) tuple | (3 (l ...)) YowParallelLayer | (4) other *)
Definition item_of (s : sx) : item :=
  match sx_get_n (sx_nth s 0) with
  | 0 => Cls (sx_get_n (sx_nth s 1))
  | 1 => Inst (sx_get_n (sx_nth s 1))
  | 2 => Tup (lids_of (sx_nth s 1))
  | 3 => Par (lids_of (sx_nth s 1))
  | _ => Bad
  end.

Definition sx_of_item (it : item) : sx :=
  match it with
  | Cls l => SL [SN 0; SN l]
  | Inst l => SL [SN 1; SN l]
  | Tup ms => SL [SN 2; sx_lids ms]
  | Par ms => SL [SN 3; sx_lids ms]
  | Bad => SL [SN 4]
  end.

Definition sx_of_slot (s : slot) : sx :=
  match s with Plain l => SL [SN 0; SN l] | Group ms => SL [SN 1; sx_lids ms] end.

Definition sx_of_wired (w : wired) : sx :=
  SL [sx_of_slot (w_slot w); sx_opt sx_nat (w_upper w); sx_opt sx_nat (w_lower w);
      sx_bool (w_stack w)].

Definition build_stack (reversed : bool) (spec : list item) (posts : list lid) : option (list wired) :=
  match construct reversed spec with
  | None => None
  | Some ws => add_posts ws posts
  end.

(* arg: (reversed (item ...) (post ...)) -> () | ((wired ...)) *)
Definition run_construct (arg : sx) : sx :=
  sx_opt (fun ws => SL (map sx_of_wired ws))
         (build_stack (sx_get_bool (sx_nth arg 0)) (map item_of (sx_get_l (sx_nth arg 1)))
                      (lids_of (sx_nth arg 2))).

Fixpoint assoc {A} (tab : list (N * A)) (k : N) : option A :=
  match tab with [] => None | (k', v) :: r => if N.eqb k' k then Some v else assoc r k end.

Definition tab_of {A} (f : sx -> A) (s : sx) : list (N * A) :=
  map (fun e => (sx_get_n (sx_nth e 0), f (sx_nth e 1))) (sx_get_l s).

(* behaviour table entry: a list of codes; 0 = hand the datum on unchanged, a = hand on d*8+a *)
Definition handler_of (tab : list (N * list N)) (l : lid) (d : N) : list N :=
  match assoc tab l with
  | None => [d]
  | Some codes => map (fun a => if N.eqb a 0 then d else d * 8 + a) codes
  end.

Definition sx_trace (t : list (lid * N)) : sx := SL (map (fun e => SL [SN (fst e); SN (snd e)]) t).

Section Scenario.
  Variable ws : list wired.
  Variable cls_tab : list (N * N).
  Variable iface_tab : list (N * N).
  Variable send_tab recv_tab : list (N * list N).

  Definition cls_f (l : lid) : N := match assoc cls_tab l with Some c => c | None => 0 end.
  Definition iface_f (l : lid) : option N := assoc iface_tab l.

  Definition run_op (q : list qentry) (o : sx) : sx * list qentry :=
    match sx_get_n (sx_nth o 0) with
    | 0 =>   (* (0 i (k)|() up det (cs)) : layer-level emit/broadcast *)
      let i := nat_of (sx_nth o 1) in
      let p := match sx_get_l (sx_nth o 2) with [] => PSlot i | k :: _ => PMember i (nat_of k) end in
      match event_at ws (lids_of (sx_nth o 5)) (sx_get_bool (sx_nth o 4)) (sx_get_bool (sx_nth o 3)) p with
      | None => (SL [], q)
      | Some (t, k) => (SL [sx_lids t], q ++ k)
      end
    | 1 =>   (* (1 up det (cs)) : stack-level *)
      match stack_event ws (lids_of (sx_nth o 3)) (sx_get_bool (sx_nth o 2)) (sx_get_bool (sx_nth o 1)) with
      | None => (SL [], q)
      | Some (t, k) => (SL [sx_lids t], q ++ k)
      end
    | 2 => let '(t, q') := loop_step q in (SL [sx_lids t], q')
    | 3 => (sx_opt sx_trace (stack_send (handler_of send_tab) ws (sx_get_n (sx_nth o 1))), q)
    | 4 => (sx_opt sx_trace (stack_receive (handler_of recv_tab) ws (sx_get_n (sx_nth o 1))), q)
    | 5 =>   (* (5 i up d) : toUpper / toLower called by instance i or one of its sublayers *)
      let up := sx_get_bool (sx_nth o 2) in
      (SL [sx_trace (to_neighbour (handler_of (if up then recv_tab else send_tab)) ws up
                                  (nat_of (sx_nth o 1)) (sx_get_n (sx_nth o 3)))], q)
    | 6 => (sx_opt SN (lookup cls_f iface_f (slots ws) (sx_get_n (sx_nth o 1))), q)
    | _ => (sx_err 1, q)
    end.

  Fixpoint run_ops (q : list qentry) (ops : list sx) : list sx * list qentry :=
    match ops with
    | [] => ([], q)
    | o :: r => let '(x, q1) := run_op q o in
                let '(xs, q2) := run_ops q1 r in (x :: xs, q2)
    end.
End Scenario.

(* arg: (reversed spec posts cls_tab iface_tab send_tab recv_tab ops)
   -> () if construction fails | ((out ...) queue_length) *)
Definition run_scenario (arg : sx) : sx :=
  match build_stack (sx_get_bool (sx_nth arg 0)) (map item_of (sx_get_l (sx_nth arg 1)))
                    (lids_of (sx_nth arg 2)) with
  | None => SL []
  | Some ws =>
    let '(outs, q) := run_ops ws (tab_of sx_get_n (sx_nth arg 3)) (tab_of sx_get_n (sx_nth arg 4))
                              (tab_of lids_of (sx_nth arg 5)) (tab_of lids_of (sx_nth arg 6))
                              [] (sx_get_l (sx_nth arg 7)) in
    SL [SL outs; sx_nat (length q)]
  end.

(* builder: ops (0 item) push | (1) pop | (2) pushDefaultLayers -> () | ((item ...)) *)
Definition bop_of (s : sx) : bop :=
  match sx_get_n (sx_nth s 0) with
  | 0 => BPush (item_of (sx_nth s 1))
  | 1 => BPop
  | _ => BPushDefaults
  end.

Definition run_builder (arg : sx) : sx :=
  match default_layers_opt with
  | None => SL []
  | Some d => SL [SL (map sx_of_item (builder_layers d (map bop_of (sx_get_l arg))))]
  end.

(* helper calls.  value: (0 b) bool | (1) None | (1 item) a layer | (2 (item ...)) tuple *)
Definition value_of (s : sx) : value :=
  match sx_get_n (sx_nth s 0) with
  | 0 => VBool (sx_get_bool (sx_nth s 1))
  | 1 => VLayer (match sx_get_l s with _ :: it :: _ => Some (item_of it) | _ => None end)
  | _ => VTuple (map item_of (sx_get_l (sx_nth s 1)))
  end.

Definition sx_of_value (v : value) : sx :=
  match v with
  | VBool b => SL [SN 0; sx_bool b]
  | VLayer None => SL [SN 1]
  | VLayer (Some it) => SL [SN 1; sx_of_item it]
  | VTuple l => SL [SN 2; SL (map sx_of_item l)]
  end.

(* arg: (f (value ...) ((name value) ...)) -> () exception | (0 value) | (1 (item ...) reversed) *)
Definition run_helper (arg : sx) : sx :=
  match call (sx_get_n (sx_nth arg 0)) (map value_of (sx_get_l (sx_nth arg 1)))
             (tab_of value_of (sx_nth arg 2)) with
  | None => SL []
  | Some (RVal v) => SL [SN 0; sx_of_value v]
  | Some (RStack l r) => SL [SN 1; SL (map sx_of_item l); sx_bool r]
  end.

(* arg: (which) -> the module constants of stacks/__init__.py: ((name (item ...)) ...) *)
Definition run_init_consts (arg : sx) : sx :=
  SL (map (fun p => SL [SN (fst p); match snd p with VTuple l => SL (map sx_of_item l) | _ => SL [] end])
          init_env).

Definition run_info (arg : sx) : sx :=
  SL [sx_bool translated_ok; sx_bool stack_reversed_default].
