(* A reference encoder driven by a choice vector: it can produce every kind of encoding the
   format allows (list header width, length width, literal vs token, packed vs raw, JID split
   at any '@', JID without user part, string-valued content, explicit empty child list).
   Definitions and the soundness proof: whatever the choices, the output is in the format
   relation for the given tree.                                                          *)
From YV Require Import Common.Tac C01.C01Model C01.C01Lib C02.C02Spec C01.C01Encode.
Local Open Scope N_scope.

Definition pop (cs : list N) : N * list N :=
  match cs with [] => (0, []) | c :: r => (c, r) end.

Definition pick {A} (c : N) (dflt : A) (opts : list A) : A :=
  nth (N.to_nat (c mod lenN opts)) opts dflt.

Fixpoint splits (s : str) : list (str * str) :=
  match s with
  | [] => []
  | c :: r => (if c =? 64 then [([], r)] else [])
              ++ map (fun uv => (c :: fst uv, snd uv)) (splits r)
  end.

Section Ref.
Variable D : dict.

Definition opt_tok (s : str) : list (list N) :=
  match s with
  | [] => []
  | _ => match index_of s (primary D) 0 with
         | Some i => if (1 <=? i) && (i <? 236) then [[i]] else []
         | None => []
         end
  end.

Definition opt_tok2 (s : str) : list (list N) :=
  match s with
  | [] => []
  | _ => match index_of s (secondary D) 0 with
         | Some j => if j <? 1024 then [[236 + j / 256; j mod 256]] else []
         | None => []
         end
  end.

Definition raw31 (s : str) : list N := 254 :: int31 (lenN s) ++ s.

Definition opt_raw (s : str) : list (list N) :=
  (if lenN s <? 256 then [252 :: lenN s :: s] else [])
  ++ (if lenN s <? 1048576 then [253 :: int20 (lenN s) ++ s] else [])
  ++ [raw31 s].

Definition opt_packed (s : str) : list (list N) :=
  if lenN s <=? 254 then
    (match vals nibble_val s with
     | Some vs => [255 :: packed_header (lenN s) :: pack_pairs vs] | None => [] end)
    ++ (match vals hex_val s with
        | Some vs => [251 :: packed_header (lenN s) :: pack_pairs vs] | None => [] end)
  else [].

Definition str_options (s : str) : list (list N) :=
  opt_raw s ++ opt_tok s ++ opt_tok2 s ++ opt_packed s.

Fixpoint ref_str (fuel : nat) (cs : list N) (s : str) : list N * list N :=
  let '(c, cs) := pop cs in
  match fuel with
  | O => (pick (c / 4) (raw31 s) (str_options s), cs)
  | S f =>
    if c mod 4 =? 3 then
      let '(b, cs) := ref_str f cs s in (250 :: 0 :: b, cs)
    else if c mod 4 =? 2 then
      match splits s with
      | [] => (pick (c / 4) (raw31 s) (str_options s), cs)
      | sp0 :: spr =>
        let '(k, cs) := pop cs in
        let '(u, v) := pick k sp0 (sp0 :: spr) in
        let '(bu, cs) := ref_str f cs u in
        let '(bv, cs) := ref_str f cs v in
        (250 :: bu ++ bv, cs)
      end
    else (pick (c / 4) (raw31 s) (str_options s), cs)
  end.

Definition list_options (n : N) : list (list N) :=
  (if n =? 0 then [[0]] else [])
  ++ (if n <? 256 then [[248; n]] else [])
  ++ [249 :: int16 n].

Definition ref_list (cs : list N) (n : N) : list N * list N :=
  let '(c, cs) := pop cs in (pick c (249 :: int16 n) (list_options n), cs).

Fixpoint ref_attrs (cs : list N) (attrs : list (str * str)) : list N * list N :=
  match attrs with
  | [] => ([], cs)
  | (k, v) :: r =>
    let '(bk, cs) := ref_str 3 cs k in
    let '(bv, cs) := ref_str 3 cs v in
    let '(br, cs) := ref_attrs cs r in
    (bk ++ bv ++ br, cs)
  end.

Definition ref_kids (rn : list N -> node -> list N * list N)
  : list N -> list node -> list N * list N :=
  fix go (cs : list N) (l : list node) : list N * list N :=
    match l with
    | [] => ([], cs)
    | k :: r => let '(bk, cs) := rn cs k in
                let '(br, cs) := go cs r in (bk ++ br, cs)
    end.

Fixpoint ref_node (cs : list N) (t : node) : list N * list N :=
  match t with
  | Node tag attrs data kids =>
    let '(c, cs) := pop cs in
    let explicit_empty := match data, kids with None, [] => c mod 2 =? 1 | _, _ => false end in
    let size := 2 * lenN attrs + 1 +
                (match data, kids with None, [] => if explicit_empty then 1 else 0 | _, _ => 1 end) in
    let '(bh, cs) := ref_list cs size in
    let '(bt, cs) := ref_str 3 cs tag in
    let '(ba, cs) := ref_attrs cs attrs in
    match data with
    | Some d => let '(bd, cs) := ref_str 3 cs d in (bh ++ bt ++ ba ++ bd, cs)
    | None =>
      match kids with
      | [] => if explicit_empty
              then let '(bl, cs) := ref_list cs 0 in (bh ++ bt ++ ba ++ bl ++ [], cs)
              else (bh ++ bt ++ ba, cs)
      | _ => let '(bl, cs) := ref_list cs (lenN kids) in
             let '(bks, cs) := ref_kids ref_node cs kids in
             (bh ++ bt ++ ba ++ bl ++ bks, cs)
      end
    end
  end.

(* the frame: flag byte 0 and the node *)
Definition ref_encode (cs : list N) (t : node) : list N := 0 :: fst (ref_node cs t).

(* ------------------------------------------------------------------ soundness *)

Lemma pick_in {A} c (d : A) opts : opts <> [] -> In (pick c d opts) opts.
Proof.
  intros H. unfold pick. apply nth_In.
  assert (lenN opts <> 0) by (unfold lenN; destruct opts; [congruence|cbn [length]; lia]).
  unfold lenN in *. lia.
Qed.

Lemma str_options_ne s : str_options s <> [].
Proof.
  unfold str_options, opt_raw. intros H. apply app_eq_nil in H. destruct H as [H _].
  apply app_eq_nil in H. destruct H as [_ H]. apply app_eq_nil in H. destruct H as [_ H].
  discriminate.
Qed.

Lemma str_options_sound s b : lenN s < 2147483648 -> In b (str_options s) -> EncStr D s b.
Proof.
  intros Hl Hin. unfold str_options in Hin. rewrite !in_app_iff in Hin.
  destruct Hin as [H|[H|[H|H]]].
  - unfold opt_raw in H. rewrite !in_app_iff in H. destruct H as [H|[H|H]].
    + destruct (lenN s <? 256) eqn:E; [|contradiction]. destruct H as [<-|[]].
      apply ES_raw8. lia.
    + destruct (lenN s <? 1048576) eqn:E; [|contradiction]. destruct H as [<-|[]].
      apply ES_raw20. lia.
    + destruct H as [<-|[]]. apply ES_raw31. exact Hl.
  - unfold opt_tok in H. destruct s as [|c0 s0]; [contradiction|].
    destruct (index_of (c0 :: s0) (primary D) 0) as [i|] eqn:E; [|contradiction].
    destruct ((1 <=? i) && (i <? 236)) eqn:E2; [|contradiction]. destruct H as [<-|[]].
    apply index_of_nthN in E. apply ES_tok; [lia|apply E|discriminate].
  - unfold opt_tok2 in H. destruct s as [|c0 s0]; [contradiction|].
    destruct (index_of (c0 :: s0) (secondary D) 0) as [j|] eqn:E; [|contradiction].
    destruct (j <? 1024) eqn:E2; [|contradiction]. destruct H as [<-|[]].
    apply index_of_nthN in E. apply ES_tok2; [lia|apply E|discriminate].
  - unfold opt_packed in H. destruct (lenN s <=? 254) eqn:E; [|contradiction].
    rewrite in_app_iff in H. destruct H as [H|H].
    + destruct (vals nibble_val s) as [vs|] eqn:Ev; [|contradiction]. destruct H as [<-|[]].
      apply ES_nibble; [exact Ev|lia].
    + destruct (vals hex_val s) as [vs|] eqn:Ev; [|contradiction]. destruct H as [<-|[]].
      apply ES_hex; [exact Ev|lia].
Qed.

Lemma splits_sound : forall s u v, In (u, v) (splits s) -> s = u ++ 64 :: v.
Proof.
  induction s as [|c r IH]; intros u v H; cbn [splits] in H; [contradiction|].
  rewrite in_app_iff in H. destruct H as [H|H].
  - destruct (N.eqb_spec c 64) as [->|]; [|contradiction]. destruct H as [H|[]].
    apply pair_inj in H. destruct H as [<- <-]. reflexivity.
  - apply in_map_iff in H. destruct H as ([u' v'] & E & Hin). cbn [fst snd] in E.
    apply pair_inj in E. destruct E as [<- <-]. cbn [app]. f_equal. apply IH. exact Hin.
Qed.

Lemma ref_str_sound : forall fuel cs s, lenN s < 2147483648 ->
  EncStr D s (fst (ref_str fuel cs s)).
Proof.
  induction fuel as [|f IH]; intros cs s Hl; cbn [ref_str]; destruct (pop cs) as [c cs1].
  - cbn [fst]. apply str_options_sound; [exact Hl|]. apply pick_in, str_options_ne.
  - destruct (c mod 4 =? 3).
    { specialize (IH cs1 s Hl). destruct (ref_str f cs1 s) as [b cs2]. cbn [fst] in *.
      apply ES_jid_nouser. exact IH. }
    destruct (c mod 4 =? 2).
    2:{ cbn [fst]. apply str_options_sound; [exact Hl|]. apply pick_in, str_options_ne. }
    destruct (splits s) as [|sp0 spr] eqn:Es.
    { cbn [fst]. apply str_options_sound; [exact Hl|]. apply pick_in, str_options_ne. }
    destruct (pop cs1) as [k cs2].
    assert (Hin : In (pick k sp0 (sp0 :: spr)) (splits s)).
    { rewrite Es. apply pick_in. discriminate. }
    destruct (pick k sp0 (sp0 :: spr)) as [u v]. apply splits_sound in Hin. subst s.
    rewrite lenN_app, lenN_cons in Hl.
    pose proof (IH cs2 u) as IHu. destruct (ref_str f cs2 u) as [bu cs3].
    pose proof (IH cs3 v) as IHv. destruct (ref_str f cs3 v) as [bv cs4].
    cbn [fst] in *. apply ES_jid; [apply IHu; lia|apply IHv; lia].
Qed.

Lemma str_options_hd s b : ~ reserved D s -> In b (str_options s) -> hd 0 b <> 1 /\ hd 0 b <> 2.
Proof.
  intros Hr Hin. unfold str_options in Hin. rewrite !in_app_iff in Hin.
  destruct Hin as [H|[H|[H|H]]].
  - unfold opt_raw in H. rewrite !in_app_iff in H. destruct H as [H|[H|H]].
    + destruct (lenN s <? 256); [|contradiction]. destruct H as [<-|[]]. cbn [hd]. lia.
    + destruct (lenN s <? 1048576); [|contradiction]. destruct H as [<-|[]]. cbn [hd]. lia.
    + destruct H as [<-|[]]. unfold raw31. cbn [hd]. lia.
  - unfold opt_tok in H. destruct s as [|c0 s0]; [contradiction|].
    destruct (index_of (c0 :: s0) (primary D) 0) as [i|] eqn:E; [|contradiction].
    destruct ((1 <=? i) && (i <? 236)); [|contradiction]. destruct H as [<-|[]].
    apply index_of_nthN in E. destruct E as [E _]. cbn [hd].
    split; intros ->; apply Hr; [left|right]; exact E.
  - unfold opt_tok2 in H. destruct s as [|c0 s0]; [contradiction|].
    destruct (index_of (c0 :: s0) (secondary D) 0) as [j|]; [|contradiction].
    destruct (j <? 1024); [|contradiction]. destruct H as [<-|[]]. cbn [hd]. lia.
  - unfold opt_packed in H. destruct (lenN s <=? 254); [|contradiction].
    rewrite in_app_iff in H. destruct H as [H|H].
    + destruct (vals nibble_val s); [|contradiction]. destruct H as [<-|[]]. cbn [hd]. lia.
    + destruct (vals hex_val s); [|contradiction]. destruct H as [<-|[]]. cbn [hd]. lia.
Qed.

Lemma ref_str_hd fuel cs s : ~ reserved D s ->
  hd 0 (fst (ref_str fuel cs s)) <> 1 /\ hd 0 (fst (ref_str fuel cs s)) <> 2.
Proof.
  intros Hr. destruct fuel as [|f]; cbn [ref_str]; destruct (pop cs) as [c cs1].
  - cbn [fst]. apply (str_options_hd s); [exact Hr|]. apply pick_in, str_options_ne.
  - destruct (c mod 4 =? 3).
    { destruct (ref_str f cs1 s) as [b cs2]. cbn [fst hd]. lia. }
    destruct (c mod 4 =? 2).
    2:{ cbn [fst]. apply (str_options_hd s); [exact Hr|]. apply pick_in, str_options_ne. }
    destruct (splits s) as [|sp0 spr].
    { cbn [fst]. apply (str_options_hd s); [exact Hr|]. apply pick_in, str_options_ne. }
    destruct (pop cs1) as [k cs2]. destruct (pick k sp0 (sp0 :: spr)) as [u v].
    destruct (ref_str f cs2 u) as [bu cs3]. destruct (ref_str f cs3 v) as [bv cs4].
    cbn [fst hd]. lia.
Qed.

Lemma ref_list_sound cs n : n < 65536 -> EncList n (fst (ref_list cs n)).
Proof.
  intros Hn. unfold ref_list. destruct (pop cs) as [c cs1]. cbn [fst].
  assert (Hin : In (pick c (249 :: int16 n) (list_options n)) (list_options n)).
  { apply pick_in. unfold list_options. intros H. apply app_eq_nil in H. destruct H as [_ H].
    apply app_eq_nil in H. destruct H as [_ H]. discriminate. }
  remember (pick c (249 :: int16 n) (list_options n)) as b eqn:Eb. clear Eb.
  unfold list_options in Hin. rewrite !in_app_iff in Hin. destruct Hin as [H|[H|H]].
  - destruct (N.eqb_spec n 0) as [->|]; [|contradiction]. destruct H as [<-|[]]. constructor.
  - destruct (n <? 256) eqn:E; [|contradiction]. destruct H as [<-|[]]. apply EL_8. lia.
  - destruct H as [<-|[]]. apply EL_16. exact Hn.
Qed.

(* the domain of the reference encoder: like wf_node but strings may be anything below 2^31
   bytes (a peer may send empty strings and strings ending in '@') *)
Inductive ref_ok : node -> Prop :=
| RO tag attrs data kids :
    lenN tag < 2147483648 -> ~ reserved D tag ->
    Forall (fun kv => lenN (fst kv) < 2147483648 /\ lenN (snd kv) < 2147483648) attrs ->
    (data = None \/ kids = []) ->
    (forall d, data = Some d -> lenN d < 2147483648) ->
    2 * lenN attrs + 2 < 65536 -> lenN kids < 65536 ->
    ref_oks kids ->
    ref_ok (Node tag attrs data kids)
with ref_oks : list node -> Prop :=
| ROs_nil : ref_oks []
| ROs_cons k r : ref_ok k -> ref_oks r -> ref_oks (k :: r).

Lemma ref_attrs_sound : forall attrs cs,
  Forall (fun kv => lenN (fst kv) < 2147483648 /\ lenN (snd kv) < 2147483648) attrs ->
  EncAttrs D attrs (fst (ref_attrs cs attrs)).
Proof.
  induction attrs as [|[k v] r IH]; intros cs H; cbn [ref_attrs].
  - constructor.
  - inversion H as [|? ? [Hk Hv] Hr]; subst. cbn [fst snd] in *.
    pose proof (ref_str_sound 3 cs k Hk) as Sk. destruct (ref_str 3 cs k) as [bk cs1].
    pose proof (ref_str_sound 3 cs1 v Hv) as Sv. destruct (ref_str 3 cs1 v) as [bv cs2].
    pose proof (IH cs2 Hr) as Sr. destruct (ref_attrs cs2 r) as [br cs3].
    cbn [fst] in *. apply EA_cons; assumption.
Qed.

Theorem ref_node_sound : forall t cs, ref_ok t -> EncNode D t (fst (ref_node cs t)).
Proof.
  intros t. induction t as [tag attrs data kids IHk | | k r IHk IHr] using node_ind2 with
    (Q := fun kids => forall cs, ref_oks kids -> EncKids D kids (fst (ref_kids ref_node cs kids))).
  - intros cs Hok. inversion Hok as [? ? ? ? Htag Hres Hattrs Hexcl Hdata Hsz Hnk Hkids]; subst.
    cbn [ref_node]. destruct (pop cs) as [c cs0].
    set (ee := match data, kids with None, [] => c mod 2 =? 1 | _, _ => false end).
    set (size := 2 * lenN attrs + 1 +
                 (match data, kids with None, [] => if ee then 1 else 0 | _, _ => 1 end)).
    assert (Hsize : size < 65536) by (subst size ee; clear - Hsz; unfold str in *; destruct data, kids; try destruct (c mod 2 =? 1); lia).
    pose proof (ref_list_sound cs0 size Hsize) as Sh. destruct (ref_list cs0 size) as [bh cs1].
    pose proof (ref_str_sound 3 cs1 tag Htag) as St.
    pose proof (ref_str_hd 3 cs1 tag Hres) as Sth. destruct (ref_str 3 cs1 tag) as [bt cs2].
    pose proof (ref_attrs_sound attrs cs2 Hattrs) as Sa. destruct (ref_attrs cs2 attrs) as [ba cs3].
    cbn [fst] in *.
    assert (Ht : EncTag D tag bt) by (split; assumption).
    destruct data as [d|].
    + destruct Hexcl as [Hx| ->]; [discriminate|].
      pose proof (ref_str_sound 3 cs3 d (Hdata d eq_refl)) as Sd.
      destruct (ref_str 3 cs3 d) as [bd cs4]. cbn [fst] in *.
      replace size with (2 * lenN attrs + 2) in Sh by (subst size; unfold str in *; lia).
      apply EN_data; assumption.
    + destruct kids as [|k0 kr].
      * subst ee. destruct (c mod 2 =? 1).
        -- pose proof (ref_list_sound cs3 0 ltac:(lia)) as Sl.
           destruct (ref_list cs3 0) as [bl cs4]. cbn [fst] in *.
           replace size with (2 * lenN attrs + 2) in Sh by (subst size; unfold str in *; lia).
           apply EN_kids; try assumption. constructor.
        -- cbn [fst]. replace size with (2 * lenN attrs + 1) in Sh by (subst size; unfold str in *; lia).
           apply EN_empty; assumption.
      * pose proof (ref_list_sound cs3 (lenN (k0 :: kr)) Hnk) as Sl.
        destruct (ref_list cs3 (lenN (k0 :: kr))) as [bl cs4].
        pose proof (IHk cs4 Hkids) as Sk.
        destruct (ref_kids ref_node cs4 (k0 :: kr)) as [bks cs5]. cbn [fst] in *.
        replace size with (2 * lenN attrs + 2) in Sh by (subst size; unfold str in *; lia).
        apply EN_kids; assumption.
  - intros cs _. cbn. constructor.
  - intros cs Hok. inversion Hok as [|? ? Hk Hr]; subst. cbn [ref_kids].
    pose proof (IHk cs Hk) as Sk. destruct (ref_node cs k) as [bk cs1].
    fold (ref_kids ref_node). pose proof (IHr cs1 Hr) as Sr.
    destruct (ref_kids ref_node cs1 r) as [br cs2]. cbn [fst] in *.
    apply EK_cons; assumption.
Qed.

Theorem ref_encode_sound inflate cs t : ref_ok t -> Frame D inflate t (ref_encode cs t).
Proof. intros H. apply F_plain. apply ref_node_sound. exact H. Qed.

End Ref.
