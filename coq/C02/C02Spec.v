(* The WhatsApp binary-XML frame format, written as a relation from the published format
   description (control bytes 0, 236-239, 248-255, the flag byte), NOT from yowsup's encoder
   or decoder.  It admits every choice a conforming peer may make.  No proofs here.       *)
From YV Require Import Common.Tac C01.C01Model.
Local Open Scope N_scope.

(* big-endian integers of the format *)
Definition int16 (n : N) : list N := [n / 256; n mod 256].
Definition int20 (n : N) : list N := [n / 65536; (n / 256) mod 256; n mod 256].
Definition int31 (n : N) : list N :=
  [n / 16777216; (n / 65536) mod 256; (n / 256) mod 256; n mod 256].

(* the two packing alphabets: character -> 4-bit value *)
Definition nibble_val (c : N) : option N :=
  if (48 <=? c) && (c <=? 57) then Some (c - 48)
  else if c =? 45 then Some 10 else if c =? 46 then Some 11 else None.

Definition hex_val (c : N) : option N :=
  if (48 <=? c) && (c <=? 57) then Some (c - 48)
  else if (65 <=? c) && (c <=? 70) then Some (c - 55) else None.

Fixpoint vals (f : N -> option N) (s : list N) : option (list N) :=
  match s with
  | [] => Some []
  | c :: r => match f c, vals f r with Some v, Some vs => Some (v :: vs) | _, _ => None end
  end.

(* two values per byte, high nibble first, odd tail padded with 0xF *)
Fixpoint pack_pairs (vs : list N) : list N :=
  match vs with
  | [] => []
  | [a] => [16 * a + 15]
  | a :: b :: r => (16 * a + b) :: pack_pairs r
  end.

(* header byte of a packed string: bit 7 = odd number of characters, low bits = byte count *)
Definition packed_header (len : N) : N := (len mod 2) * 128 + (len + 1) / 2.

Section Spec.
Variable D : dict.

(* a string in "string position" *)
Inductive EncStr : str -> list N -> Prop :=
| ES_tok i s : 1 <= i < 236 -> nthN (primary D) i = Some s -> s <> [] -> EncStr s [i]
| ES_tok2 j s : j < 1024 -> nthN (secondary D) j = Some s -> s <> [] ->
                EncStr s [236 + j / 256; j mod 256]
| ES_raw8 s : lenN s < 256 -> EncStr s (252 :: lenN s :: s)
| ES_raw20 s : lenN s < 1048576 -> EncStr s (253 :: int20 (lenN s) ++ s)
| ES_raw31 s : lenN s < 2147483648 -> EncStr s (254 :: int31 (lenN s) ++ s)
| ES_nibble s vs : vals nibble_val s = Some vs -> lenN s <= 254 ->
                   EncStr s (255 :: packed_header (lenN s) :: pack_pairs vs)
| ES_hex s vs : vals hex_val s = Some vs -> lenN s <= 254 ->
                EncStr s (251 :: packed_header (lenN s) :: pack_pairs vs)
| ES_jid u s bu bs : EncStr u bu -> EncStr s bs -> EncStr (u ++ 64 :: s) (250 :: bu ++ bs)
| ES_jid_nouser s bs : EncStr s bs -> EncStr s (250 :: 0 :: bs).

Inductive EncList : N -> list N -> Prop :=
| EL_0 : EncList 0 [0]
| EL_8 n : n < 256 -> EncList n [248; n]
| EL_16 n : n < 65536 -> EncList n (249 :: int16 n).

Inductive EncAttrs : list (str * str) -> list N -> Prop :=
| EA_nil : EncAttrs [] []
| EA_cons k v r bk bv br : EncStr k bk -> EncStr v bv -> EncAttrs r br ->
                           EncAttrs ((k, v) :: r) (bk ++ bv ++ br).

(* a tag is a string whose encoding does not start with the stream tokens 1 / 2 *)
Definition EncTag (s : str) (b : list N) : Prop :=
  EncStr s b /\ hd 0 b <> 1 /\ hd 0 b <> 2.

Inductive EncNode : node -> list N -> Prop :=
| EN_empty tag attrs bh bt ba :
    EncList (2 * lenN attrs + 1) bh -> EncTag tag bt -> EncAttrs attrs ba ->
    EncNode (Node tag attrs None []) (bh ++ bt ++ ba)
| EN_data tag attrs d bh bt ba bd :
    EncList (2 * lenN attrs + 2) bh -> EncTag tag bt -> EncAttrs attrs ba -> EncStr d bd ->
    EncNode (Node tag attrs (Some d) []) (bh ++ bt ++ ba ++ bd)
| EN_kids tag attrs kids bh bt ba bl bks :
    EncList (2 * lenN attrs + 2) bh -> EncTag tag bt -> EncAttrs attrs ba ->
    EncList (lenN kids) bl -> EncKids kids bks ->
    EncNode (Node tag attrs None kids) (bh ++ bt ++ ba ++ bl ++ bks)
with EncKids : list node -> list N -> Prop :=
| EK_nil : EncKids [] []
| EK_cons k ks bk bks : EncNode k bk -> EncKids ks bks -> EncKids (k :: ks) (bk ++ bks).

(* a frame: flag byte 0 + node, or flag byte 2 + zlib-deflated node *)
Variable inflate : list N -> option (list N).

Inductive Frame : node -> list N -> Prop :=
| F_plain t b : EncNode t b -> Frame t (0 :: b)
| F_deflate t z b : inflate z = Some b -> EncNode t b -> Frame t (2 :: z).

End Spec.

Scheme EncNode_mut := Minimality for EncNode Sort Prop
  with EncKids_mut := Minimality for EncKids Sort Prop.
