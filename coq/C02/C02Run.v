(* sx glue for C02: the model decoder over the pinned reference dictionary (the verified
   independent decoder) and the verified reference encoder with a choice vector. *)
From YV Require Import Common.Tac Common.Sx C01.C01Model C01.C01Run C02.C02Spec C02.C02RefDict
     C02.C02RefEnc.

Definition run_decode_ref (arg : sx) : sx :=
  sx_of_res (decode RefD (fun _ => None) (sx_get_b arg)).

Definition orun_decode_ref (oracle : sx -> sx) (arg : sx) : sx :=
  sx_of_res (decode RefD (fun z => match oracle (SB z) with SL (SB d :: _) => Some d | _ => None end)
                    (sx_get_b arg)).

(* (B choices, node) -> B frame *)
Definition run_ref_encode (arg : sx) : sx :=
  SB (ref_encode RefD (sx_get_b (sx_nth arg 0)) (node_of_sx (sx_nth arg 1))).
