(* C02 instantiation: the regenerated dictionary against the pinned reference copy. *)
From YV Require Import Common.Tac C01.C01Model C01.C01Lib Gen.C01Dict C02.C02RefDict.
Local Open Scope N_scope.

Fixpoint nodupb (l : list str) : bool :=
  match l with
  | [] => true
  | x :: r => negb (existsb (str_eqb x) r) && nodupb r
  end.

Lemma nodupb_NoDup l : nodupb l = true -> NoDup l.
Proof.
  induction l as [|x r IH]; intros H; [constructor|].
  cbn [nodupb] in H. apply andb_true_iff in H. destruct H as [H1 H2].
  constructor; [|apply IH; exact H2].
  intros Hin. apply negb_true_iff in H1.
  assert (existsb (str_eqb x) r = true); [|congruence].
  apply existsb_exists. exists x. split; [exact Hin|apply str_eqb_refl].
Qed.

Lemma dictionary_thm :
  primary D = ref_primary /\ secondary D = ref_secondary /\
  lenN (primary D) = 236 /\ lenN (secondary D) = 1024 /\
  NoDup (primary D ++ secondary D).
Proof.
  split; [vm_compute; reflexivity|]. split; [vm_compute; reflexivity|].
  split; [vm_compute; reflexivity|]. split; [vm_compute; reflexivity|].
  apply nodupb_NoDup. vm_compute. reflexivity.
Qed.
