(* Table instance: well-formed tables satisfy the hypothesis of the generic theorems;
   the leaky witness (release_on_raise = false) and the repaired run (non-vacuity).   *)
From YV Require Import Common.Tac C12.C12Chain C12.C12Proofs C12.C12Model.

Lemma lookup_in k l v : lookup k l = Some v -> In (k, v) l.
Proof.
  induction l as [|[k' v'] l IH]; simpl; [discriminate|].
  destruct (Nat.eqb_spec k k') as [->|Hne]; intros H.
  - inversion H; subst. left; reflexivity.
  - right; auto.
Qed.

Lemma wf_from_nth : forall T x k n, wf_from x T = true -> nth_error T k = Some n ->
  forall kind y, In y (calls_for n kind) -> y < x + k.
Proof.
  induction T as [|m T IH]; intros x k n H E kind y Hy; [destruct k; discriminate|].
  simpl in H. apply andb_prop in H. destruct H as [H1 H2]. apply andb_prop in H1. destruct H1 as [H1 H3].
  destruct k as [|k]; simpl in E.
  - inversion E; subst. unfold calls_for in Hy. destruct (lookup kind (ni_special n)) as [l|] eqn:El.
    + apply lookup_in in El. rewrite forallb_forall in H3. specialize (H3 _ El). simpl in H3.
      rewrite forallb_forall in H3. apply H3 in Hy. apply Nat.ltb_lt in Hy. lia.
    + rewrite forallb_forall in H1. apply H1 in Hy. apply Nat.ltb_lt in Hy. lia.
  - pose proof (IH _ _ _ H2 E _ _ Hy). lia.
Qed.

Lemma table_body_lower T : table_wf T = true ->
  forall x d s y d', In (y, d') (snd (t_body T x d s)) -> y < x.
Proof.
  intros W x d s y d' Hin. unfold t_body in Hin. simpl in Hin. apply in_map_iff in Hin.
  destruct Hin as (y0 & E & Hy). inversion E; subst y0. unfold t_info in Hy.
  destruct (nth_error T x) as [n|] eqn:En; [|simpl in Hy; contradiction].
  pose proof (wf_from_nth _ _ _ _ W En _ _ Hy). lia.
Qed.

Lemma table_ror T : table_ror_all T = true -> forall x, t_ror T x = true.
Proof.
  intros H x. unfold t_ror, t_info. destruct (nth_error T x) as [n|] eqn:En; [|reflexivity].
  unfold table_ror_all in H. rewrite forallb_forall in H. apply H. eapply nth_error_In; eauto.
Qed.

Lemma reach_run {data shared} hl rr bd s0 opss c acts c' :
  reach data shared hl rr bd s0 opss c -> run data shared hl rr bd c acts = Some c' ->
  reach data shared hl rr bd s0 opss c'.
Proof.
  revert c. induction acts as [|a r IH]; intros c R H; simpl in H.
  - inversion H; subst; exact R.
  - destruct (exec data shared hl rr bd c a) as [c1|] eqn:E; [|discriminate].
    apply (IH c1); [eapply reach_step; eauto|exact H].
Qed.

(* ---- the unrepaired pattern: acquire / call / release with no try-finally ---- *)
(* Two layers, two threads, one send each.  Thread 0: start, acquire lock 1, the lower layer
   raises, unwind (lock 1 is NOT released).  Its operation is over (reported as an error), it
   still owns lock 1, thread 1's send can start but never acquire: nobody can move.        *)
Definition leaky_acts : list (nat * bool) :=
  [(0, false); (0, false); (0, true); (0, false); (1, false)].

Definition cfg_after (r : bool) : config nat (list nat) :=
  match t_run (chain 2 r) (t_init [[(1, 0)]; [(1, 0)]]) leaky_acts with Some c => c | None => t_init [] end.

Lemma cfg_after_reach r : t_reach (chain 2 r) [[(1, 0)]; [(1, 0)]] (cfg_after r).
Proof.
  unfold cfg_after, t_reach.
  destruct (t_run (chain 2 r) (t_init [[(1, 0)]; [(1, 0)]]) leaky_acts) as [c|] eqn:E.
  - eapply reach_run; [apply reach_init|exact E].
  - exfalso. destruct r; vm_compute in E; discriminate.
Qed.

Theorem leaky_refuted_thm :
  exists c th0 th1, t_reach (chain 2 false) [[(1, 0)]; [(1, 0)]] c /\
    nth_error (thr c) 0 = Some th0 /\ nth_error (thr c) 1 = Some th1 /\
    finished th0 /\ results th0 = [false] /\     (* thread 0's send is over: it raised *)
    locks c 1 = Some 0 /\                         (* ... yet it still owns layer 1's lock *)
    ~ finished th1 /\                             (* thread 1 has a send in progress *)
    forall t, t_exec (chain 2 false) c (t, false) = None.   (* and nothing can ever move *)
Proof.
  pose (c := cfg_after false).
  destruct (nth_error (thr c) 0) as [th0|] eqn:E0; [|vm_compute in E0; discriminate].
  destruct (nth_error (thr c) 1) as [th1|] eqn:E1; [|vm_compute in E1; discriminate].
  exists c, th0, th1. split; [apply cfg_after_reach|].
  vm_compute in E0. vm_compute in E1. inversion E0; subst th0. inversion E1; subst th1.
  split; [reflexivity|]. split; [reflexivity|]. split; [split; reflexivity|]. split; [reflexivity|].
  split; [reflexivity|]. split.
  - intros [H _]. discriminate.
  - intros [|[|t]]; [vm_compute; reflexivity|vm_compute; reflexivity|].
    unfold t_exec, exec, exec_l. cbn [fst]. replace (nth_error (thr c) (S (S t))) with (@None (thread nat)); [reflexivity|].
    destruct t; reflexivity.
Qed.

(* ---- the same history on the repaired pattern (try/finally): non-vacuity of the theorems ---- *)
Example fixed_run :
  table_wf (chain 2 true) = true /\ table_ror_all (chain 2 true) = true /\
  exists c th0, t_reach (chain 2 true) [[(1, 0)]; [(1, 0)]] c /\ nth_error (thr c) 0 = Some th0 /\
    results th0 = [false] /\ locks c 1 = None /\
    exists c', t_run (chain 2 true) c [(1, false); (1, false); (1, false); (1, false)] = Some c' /\
      exists th1, nth_error (thr c') 1 = Some th1 /\ finished th1 /\ results th1 = [true] /\ sh c' = [1; 1; 0].
Proof.
  split; [reflexivity|]. split; [reflexivity|].
  pose (c := cfg_after true).
  destruct (nth_error (thr c) 0) as [th0|] eqn:E0; [|vm_compute in E0; discriminate].
  exists c, th0. split; [apply cfg_after_reach|]. split; [exact E0|].
  vm_compute in E0. inversion E0; subst th0. split; [reflexivity|]. split; [reflexivity|].
  destruct (t_run (chain 2 true) c [(1, false); (1, false); (1, false); (1, false)]) as [c'|] eqn:E;
    [|vm_compute in E; discriminate].
  exists c'. split; [reflexivity|].
  destruct (nth_error (thr c') 1) as [th1|] eqn:E1.
  - exists th1. split; [reflexivity|].
    assert (Hc : Some c' = t_run (chain 2 true) c [(1, false); (1, false); (1, false); (1, false)]) by (symmetry; exact E).
    clear E. vm_compute in Hc. inversion Hc; subst c'. vm_compute in E1. inversion E1; subst th1.
    repeat split; reflexivity.
  - exfalso. assert (Hc : Some c' = t_run (chain 2 true) c [(1, false); (1, false); (1, false); (1, false)]) by (symmetry; exact E).
    clear E. vm_compute in Hc. inversion Hc; subst c'. vm_compute in E1. discriminate.
Qed.
