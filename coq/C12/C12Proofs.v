(* Generic facts about the lock-chain model: stack shape, exact lock ownership, no leak,
   deadlock freedom, error propagation.  For every call graph with decreasing callee
   numbers, any number of threads, any operation lists, any failure placement.          *)
From YV Require Import Common.Tac C12.C12Chain.

Lemma nth_set_eq {A} (l : list A) t v a : nth_error l t = Some a -> nth_error (set_nth t v l) t = Some v.
Proof.
  revert t; induction l as [|b l IH]; intros [|t] H; simpl in *; try discriminate; auto.
Qed.

Lemma nth_set_neq {A} (l : list A) t t' v : t' <> t -> nth_error (set_nth t v l) t' = nth_error l t'.
Proof.
  revert t t'; induction l as [|b l IH]; intros [|t] [|t'] H; simpl in *; auto; try congruence.
Qed.

Lemma set_nth_length {A} (l : list A) t v : length (set_nth t v l) = length l.
Proof. revert t; induction l as [|b l IH]; intros [|t]; simpl; auto. Qed.

Section Proofs.
Variable data shared : Type.
Variable has_lock ror : nat -> bool.
Variable body : nat -> data -> shared -> shared * list (nat * data).
Hypothesis body_lower : forall x d s y d', In (y, d') (snd (body x d s)) -> y < x.

Notation frame := (frame data).
Notation thread := (thread data).
Notation config := (config data shared).
Notation tstep := (tstep data shared has_lock ror body).
Notation exec := (exec data shared has_lock ror body).
Notation exec_l := (exec_l data shared has_lock ror body).
Notation reach := (reach data shared has_lock ror body).
Notation release := (release has_lock).

(* ---------- specification of one thread step, one constructor per case ---------- *)
Inductive tspec (t : nat) (lk : nat -> option nat) (s : shared) (th : thread)
  : bool -> (nat -> option nat) -> shared -> thread -> label -> Prop :=
| S_unwind_last f :
    raising th = true -> stack th = [f] ->
    tspec t lk s th false
      (if fheld f && has_lock (fnode f) && ror (fnode f) then upd lk (fnode f) None else lk) s
      (Thread [] false (ops th) (results th ++ [false]))
      (LRaised (fnode f) (fheld f && has_lock (fnode f) && ror (fnode f)))
| S_unwind f g fs :
    raising th = true -> stack th = f :: g :: fs ->
    tspec t lk s th false
      (if fheld f && has_lock (fnode f) && ror (fnode f) then upd lk (fnode f) None else lk) s
      (Thread (g :: fs) true (ops th) (results th))
      (LUnwind (fnode f) (fheld f && has_lock (fnode f) && ror (fnode f)))
| S_failstart x d rest :
    raising th = false -> stack th = [] -> ops th = (x, d) :: rest ->
    tspec t lk s th true lk s (Thread [] false rest (results th ++ [false])) (LFailStart x)
| S_start x d rest s' calls :
    raising th = false -> stack th = [] -> ops th = (x, d) :: rest -> body x d s = (s', calls) ->
    tspec t lk s th false lk s' (Thread [Frame x false calls] false rest (results th)) (LStart x)
| S_failcall f fs y d cs :
    raising th = false -> stack th = f :: fs -> fheld f = true -> fpend f = (y, d) :: cs ->
    tspec t lk s th true lk s (Thread (f :: fs) true (ops th) (results th)) (LFailCall (fnode f) y)
| S_call f fs y d cs s' calls :
    raising th = false -> stack th = f :: fs -> fheld f = true -> fpend f = (y, d) :: cs ->
    body y d s = (s', calls) ->
    tspec t lk s th false lk s'
      (Thread (Frame y false calls :: f :: fs) false (ops th) (results th)) (LCall (fnode f) y)
| S_failhere f fs :
    raising th = false -> stack th = f :: fs -> fheld f = false ->
    tspec t lk s th true lk s (Thread (f :: fs) true (ops th) (results th)) (LFailHere (fnode f))
| S_acq_lock f fs c cs :
    raising th = false -> stack th = f :: fs -> fheld f = false -> fpend f = c :: cs ->
    has_lock (fnode f) = true -> lk (fnode f) = None ->
    tspec t lk s th false (upd lk (fnode f) (Some t)) s
      (Thread (Frame (fnode f) true (fpend f) :: fs) false (ops th) (results th)) (LAcq (fnode f))
| S_acq_nolock f fs c cs :
    raising th = false -> stack th = f :: fs -> fheld f = false -> fpend f = c :: cs ->
    has_lock (fnode f) = false ->
    tspec t lk s th false lk s
      (Thread (Frame (fnode f) true (fpend f) :: fs) false (ops th) (results th)) (LAcq (fnode f))
| S_done f :
    raising th = false -> stack th = [f] -> fheld f = false -> fpend f = [] ->
    tspec t lk s th false lk s (Thread [] false (ops th) (results th ++ [true])) LDone
| S_ret f g fs :
    raising th = false -> stack th = f :: g :: fs -> fheld f = false -> fpend f = [] ->
    tspec t lk s th false (release lk (fnode g)) s
      (Thread (Frame (fnode g) false (tl (fpend g)) :: fs) false (ops th) (results th)) (LRet (fnode f)).

Lemma tstep_spec t fail lk s th lk' s' th' l :
  tstep t fail lk s th = Some (lk', s', th', l) -> tspec t lk s th fail lk' s' th' l.
Proof.
  unfold C12Chain.tstep. intros H.
  destruct (raising th) eqn:Er.
  - destruct fail; [discriminate|].
    destruct (stack th) as [|f fs] eqn:Es; [discriminate|].
    destruct fs as [|g fs]; inversion H; subst; clear H.
    + eapply S_unwind_last; eauto.
    + eapply S_unwind; eauto.
  - destruct (stack th) as [|f fs] eqn:Es.
    + destruct (ops th) as [|[x d] rest] eqn:Eo; [discriminate|].
      destruct fail.
      * inversion H; subst; clear H. eapply S_failstart; eauto.
      * destruct (body x d s) as [s1 calls] eqn:Eb. inversion H; subst; clear H.
        eapply S_start; eauto.
    + destruct (fheld f) eqn:Eh.
      * destruct (fpend f) as [|[y d] cs] eqn:Ep; [discriminate|].
        destruct fail.
        -- inversion H; subst; clear H. eapply S_failcall; eauto.
        -- destruct (body y d s) as [s1 calls] eqn:Eb. inversion H; subst; clear H.
           eapply S_call; eauto.
      * destruct fail.
        -- inversion H; subst; clear H. eapply S_failhere; eauto.
        -- destruct (fpend f) as [|c cs] eqn:Ep.
           ++ destruct fs as [|g fs']; inversion H; subst; clear H.
              ** eapply S_done; eauto.
              ** eapply S_ret; eauto.
           ++ destruct (has_lock (fnode f)) eqn:Ehl.
              ** destruct (lk (fnode f)) eqn:El; [discriminate|].
                 inversion H; subst; clear H. rewrite <- Ep. eapply S_acq_lock; eauto.
              ** inversion H; subst; clear H. rewrite <- Ep. eapply S_acq_nolock; eauto.
Qed.

(* ---------- stack shape ---------- *)
Definition pend_lower (f : frame) : Prop := Forall (fun c => fst c < fnode f) (fpend f).

Fixpoint wf_inner (callee : nat) (st : list frame) : Prop :=
  match st with
  | [] => True
  | g :: rest => fheld g = true /\ (exists d cs, fpend g = (callee, d) :: cs) /\
                 pend_lower g /\ wf_inner (fnode g) rest
  end.

Definition wf_stack (st : list frame) : Prop :=
  match st with
  | [] => True
  | f :: rest => pend_lower f /\ (fheld f = true -> fpend f <> []) /\ wf_inner (fnode f) rest
  end.

Definition wf_thread (th : thread) : Prop :=
  wf_stack (stack th) /\ (raising th = true -> stack th <> []).

Lemma wf_inner_gt : forall st k, wf_inner k st -> forall g, In g st -> k < fnode g.
Proof.
  induction st as [|g st IH]; intros k H g' Hin; [contradiction|].
  destruct H as (_ & (d & cs & Ep) & Hl & Hr).
  assert (Hk : k < fnode g).
  { unfold pend_lower in Hl. rewrite Ep in Hl. inversion Hl; subst. exact H1. }
  destruct Hin as [->|Hin]; [exact Hk|]. specialize (IH _ Hr _ Hin). lia.
Qed.

Definition held_nodes (st : list frame) : list nat := map (@fnode data) (filter (@fheld data) st).

Lemma held_nodes_in st l : In l (held_nodes st) <-> exists f, In f st /\ fnode f = l /\ fheld f = true.
Proof.
  unfold held_nodes. rewrite in_map_iff. split.
  - intros (f & E & Hin). apply filter_In in Hin. exists f. tauto.
  - intros (f & Hin & E & Hh). exists f. split; [exact E|]. apply filter_In. tauto.
Qed.

Lemma holds_iff th l : holds th l <-> In l (held_nodes (stack th)).
Proof. unfold holds. rewrite held_nodes_in. tauto. Qed.

Lemma held_nodes_gt st k : wf_inner k st -> forall l, In l (held_nodes st) -> k < l.
Proof.
  intros H l Hl. apply held_nodes_in in Hl. destruct Hl as (f & Hin & <- & _).
  eapply wf_inner_gt; eauto.
Qed.

Lemma held_cons f st : held_nodes (f :: st) = if fheld f then fnode f :: held_nodes st else held_nodes st.
Proof. unfold held_nodes. simpl. destruct (fheld f); reflexivity. Qed.

Lemma tspec_wf t lk s th fail lk' s' th' l :
  tspec t lk s th fail lk' s' th' l -> wf_thread th -> wf_thread th'.
Proof.
  intros H [W R]. destruct H; unfold wf_thread; simpl.
  - split; [exact I|discriminate].
  - rewrite H0 in W. destruct W as (_ & _ & (Hh & (d & cs & Ep) & Hl & Hr)).
    split; [|discriminate]. split; [exact Hl|]. split; [|exact Hr]. intros _. rewrite Ep. discriminate.
  - split; [exact I|discriminate].
  - split; [|discriminate]. split; [|split; [discriminate|exact I]].
    unfold pend_lower; simpl. apply Forall_forall. intros [y d'] Hin. simpl.
    eapply body_lower with (x := x) (d := d) (s := s). rewrite H2. exact Hin.
  - rewrite H0 in W. split; [exact W|discriminate].
  - rewrite H0 in W. destruct W as (Hl & Hne & Hr). split; [|discriminate].
    split; [|split; [discriminate|]].
    + unfold pend_lower; simpl. apply Forall_forall. intros [y' d'] Hin. simpl.
      eapply body_lower with (x := y) (d := d) (s := s). rewrite H3. exact Hin.
    + simpl. split; [exact H1|]. split; [eauto|]. split; [exact Hl|exact Hr].
  - rewrite H0 in W. split; [exact W|discriminate].
  - rewrite H0 in W. destruct W as (Hl & Hne & Hr). split; [|discriminate].
    split; [exact Hl|]. split; [|exact Hr]. simpl. intros _. rewrite H2. discriminate.
  - rewrite H0 in W. destruct W as (Hl & Hne & Hr). split; [|discriminate].
    split; [exact Hl|]. split; [|exact Hr]. simpl. intros _. rewrite H2. discriminate.
  - split; [exact I|discriminate].
  - rewrite H0 in W. destruct W as (_ & _ & (Hh & (d & cs & Ep) & Hl & Hr)).
    split; [|discriminate]. split; [|split; [discriminate|exact Hr]].
    unfold pend_lower in *; simpl. rewrite Ep in *. simpl. inversion Hl; assumption.
Qed.

(* ---------- invariants on configurations ---------- *)
Definition inv_wf (c : config) : Prop := forall t th, nth_error (thr c) t = Some th -> wf_thread th.

(* whoever holds a lock in a frame is its registered owner (so: mutual exclusion) *)
Definition inv_a (c : config) : Prop :=
  forall t th l, nth_error (thr c) t = Some th -> In l (held_nodes (stack th)) ->
                 has_lock l = true -> locks c l = Some t.

(* no leak: every taken lock is held by a frame of a live call stack of its owner *)
Definition inv_b (c : config) : Prop :=
  forall l t, locks c l = Some t ->
              has_lock l = true /\ exists th, nth_error (thr c) t = Some th /\ In l (held_nodes (stack th)).

Lemma exec_inv c a c' :
  exec c a = Some c' ->
  exists th lk' s' th' l, nth_error (thr c) (fst a) = Some th /\
    tspec (fst a) (locks c) (sh c) th (snd a) lk' s' th' l /\
    c' = Config lk' s' (set_nth (fst a) th' (thr c)).
Proof.
  unfold C12Chain.exec, C12Chain.exec_l. intros H.
  destruct (nth_error (thr c) (fst a)) as [th|] eqn:En; [|discriminate].
  destruct (C12Chain.tstep _ _ _ _ _ _ _ _ _ _) as [[[[lk' s'] th'] l]|] eqn:Et; [|discriminate].
  inversion H; subst; clear H. apply tstep_spec in Et. eauto 10.
Qed.

Lemma inv_wf_step c a c' : exec c a = Some c' -> inv_wf c -> inv_wf c'.
Proof.
  intros H I. apply exec_inv in H. destruct H as (th & lk' & s' & th' & l & En & Hs & ->).
  intros t2 th2 E2. simpl in E2. destruct (Nat.eq_dec t2 (fst a)) as [->|Hne].
  - rewrite (nth_set_eq _ _ _ _ En) in E2. inversion E2; subst. eapply tspec_wf; eauto.
  - rewrite nth_set_neq in E2 by exact Hne. eauto.
Qed.

(* three shapes of lock-table change *)
Lemma inv_a_same c t th th' s' :
  inv_a c -> nth_error (thr c) t = Some th ->
  (forall l, has_lock l = true -> In l (held_nodes (stack th')) -> In l (held_nodes (stack th))) ->
  inv_a (Config (locks c) s' (set_nth t th' (thr c))).
Proof.
  intros I En Hsub t2 th2 l E2 Hin Hl. simpl in *. destruct (Nat.eq_dec t2 t) as [->|Hne].
  - rewrite (nth_set_eq _ _ _ _ En) in E2. inversion E2; subst. eapply I; eauto.
  - rewrite nth_set_neq in E2 by exact Hne. eapply I; eauto.
Qed.

Lemma inv_a_acq c t th th' s' x :
  inv_a c -> nth_error (thr c) t = Some th -> locks c x = None ->
  (forall l, In l (held_nodes (stack th')) -> l = x \/ In l (held_nodes (stack th))) ->
  inv_a (Config (upd (locks c) x (Some t)) s' (set_nth t th' (thr c))).
Proof.
  intros I En Hx Hsub t2 th2 l E2 Hin Hl. simpl in *. unfold upd.
  destruct (Nat.eqb_spec l x) as [->|Hlx].
  - destruct (Nat.eq_dec t2 t) as [->|Hne]; [reflexivity|].
    rewrite nth_set_neq in E2 by exact Hne. rewrite (I _ _ _ E2 Hin Hl) in Hx. discriminate.
  - destruct (Nat.eq_dec t2 t) as [->|Hne].
    + rewrite (nth_set_eq _ _ _ _ En) in E2. inversion E2; subst.
      destruct (Hsub _ Hin) as [->|Hold]; [congruence|]. eapply I; eauto.
    + rewrite nth_set_neq in E2 by exact Hne. eapply I; eauto.
Qed.

Lemma inv_a_rel c t th th' s' x :
  inv_a c -> nth_error (thr c) t = Some th -> In x (held_nodes (stack th)) ->
  (forall l, In l (held_nodes (stack th')) -> l <> x /\ In l (held_nodes (stack th))) ->
  inv_a (Config (release (locks c) x) s' (set_nth t th' (thr c))).
Proof.
  intros I En Hx Hsub. unfold C12Chain.release. destruct (has_lock x) eqn:Ehx.
  - intros t2 th2 l E2 Hin Hl. simpl in *. unfold upd.
    destruct (Nat.eq_dec t2 t) as [->|Hne].
    + rewrite (nth_set_eq _ _ _ _ En) in E2. inversion E2; subst.
      destruct (Hsub _ Hin) as [Hlx Hold]. destruct (Nat.eqb_spec l x); [contradiction|]. eapply I; eauto.
    + rewrite nth_set_neq in E2 by exact Hne.
      destruct (Nat.eqb_spec l x) as [->|Hlx]; [|eapply I; eauto].
      pose proof (I _ _ _ E2 Hin Hl) as H1. pose proof (I _ _ _ En Hx Ehx) as H2. congruence.
  - eapply inv_a_same; eauto. intros l _ Hin. apply Hsub. exact Hin.
Qed.

Lemma release_eq x lk : has_lock x = true -> upd lk x None = release lk x.
Proof. intros H. unfold C12Chain.release. rewrite H. reflexivity. Qed.

Lemma inv_a_step c a c' : exec c a = Some c' -> inv_wf c -> inv_a c -> inv_a c'.
Proof.
  intros H W I. apply exec_inv in H. destruct H as (th & lk' & s' & th' & l & En & Hs & ->).
  pose proof (W _ _ En) as [Wst _].
  destruct Hs; cbn [stack fheld fnode fpend].
  - (* unwind last *)
    destruct (fheld f && has_lock (fnode f) && ror (fnode f)) eqn:Erel.
    + apply andb_prop in Erel. destruct Erel as [Erel _]. apply andb_prop in Erel. destruct Erel as [Eh Ehl].
      rewrite (release_eq _ _ Ehl). eapply inv_a_rel; eauto; cbn [stack fheld fnode fpend].
      * rewrite H0, held_cons, Eh. left; reflexivity.
      * intros l [].
    + eapply inv_a_same; eauto. cbn [stack fheld fnode fpend]. intros l _ [].
  - (* unwind *)
    rewrite H0 in Wst. destruct Wst as (_ & _ & Wi).
    assert (Hsub : forall l, In l (held_nodes (g :: fs)) -> l <> fnode f /\ In l (held_nodes (f :: g :: fs))).
    { intros l Hin. split.
      - pose proof (held_nodes_gt _ _ Wi _ Hin). lia.
      - rewrite (held_cons f). destruct (fheld f); [right|]; exact Hin. }
    destruct (fheld f && has_lock (fnode f) && ror (fnode f)) eqn:Erel.
    + apply andb_prop in Erel. destruct Erel as [Erel _]. apply andb_prop in Erel. destruct Erel as [Eh Ehl].
      rewrite (release_eq _ _ Ehl). eapply inv_a_rel; eauto; cbn [stack fheld fnode fpend].
      * rewrite H0, held_cons, Eh. left; reflexivity.
      * rewrite H0. exact Hsub.
    + eapply inv_a_same; eauto. cbn [stack fheld fnode fpend]. rewrite H0. intros l _ Hin. apply Hsub; exact Hin.
  - eapply inv_a_same; eauto. cbn [stack fheld fnode fpend]. intros l _ [].
  - eapply inv_a_same; eauto. cbn [stack fheld fnode fpend]. rewrite held_cons. cbn [stack fheld fnode fpend]. intros l _ [].
  - eapply inv_a_same; eauto. cbn [stack fheld fnode fpend]. rewrite H0. auto.
  - eapply inv_a_same; eauto. cbn [stack fheld fnode fpend]. rewrite H0. rewrite (held_cons (Frame y false calls)). cbn [stack fheld fnode fpend]. auto.
  - eapply inv_a_same; eauto. cbn [stack fheld fnode fpend]. rewrite H0. auto.
  - eapply inv_a_acq; eauto. cbn [stack fheld fnode fpend]. rewrite H0. rewrite !held_cons. cbn [stack fheld fnode fpend]. rewrite H1.
    intros l [<-|Hin]; auto.
  - eapply inv_a_same; eauto. cbn [stack fheld fnode fpend]. rewrite H0. rewrite !held_cons. cbn [stack fheld fnode fpend]. rewrite H1.
    intros l Hl [<-|Hin]; [congruence|exact Hin].
  - eapply inv_a_same; eauto. cbn [stack fheld fnode fpend]. intros l _ [].
  - (* return: the caller releases its lock *)
    rewrite H0 in Wst. destruct Wst as (_ & _ & (Hh & (d & cs & Ep) & Hl & Hr)).
    eapply inv_a_rel; eauto; cbn [stack fheld fnode fpend].
    + rewrite H0, !held_cons, H1, Hh. left; reflexivity.
    + rewrite H0, !held_cons, H1, Hh. cbn [stack fheld fnode fpend]. intros l Hin. split.
      * pose proof (held_nodes_gt _ _ Hr _ Hin). lia.
      * right; exact Hin.
Qed.

(* ---------- no leak, under release-on-raise at every site ---------- *)
Hypothesis ror_all : forall x, ror x = true.

Lemma inv_b_same c t th th' s' :
  inv_b c -> nth_error (thr c) t = Some th ->
  (forall l, In l (held_nodes (stack th)) -> In l (held_nodes (stack th'))) ->
  inv_b (Config (locks c) s' (set_nth t th' (thr c))).
Proof.
  intros I En Hsub l t1 Hl. simpl in *. destruct (I _ _ Hl) as (Hhl & th1 & E1 & Hin). split; [exact Hhl|].
  destruct (Nat.eq_dec t1 t) as [->|Hne].
  - exists th'. rewrite (nth_set_eq _ _ _ _ En). split; [reflexivity|]. rewrite En in E1. inversion E1; subst. auto.
  - exists th1. rewrite nth_set_neq by exact Hne. auto.
Qed.

Lemma inv_b_acq c t th th' s' x :
  inv_b c -> nth_error (thr c) t = Some th -> has_lock x = true ->
  (forall l, l = x \/ In l (held_nodes (stack th)) -> In l (held_nodes (stack th'))) ->
  inv_b (Config (upd (locks c) x (Some t)) s' (set_nth t th' (thr c))).
Proof.
  intros I En Hx Hsub l t1 Hl. simpl in *. unfold upd in Hl. destruct (Nat.eqb_spec l x) as [->|Hlx].
  - inversion Hl; subst. split; [exact Hx|]. exists th'. rewrite (nth_set_eq _ _ _ _ En). auto.
  - destruct (I _ _ Hl) as (Hhl & th1 & E1 & Hin). split; [exact Hhl|].
    destruct (Nat.eq_dec t1 t) as [->|Hne].
    + exists th'. rewrite (nth_set_eq _ _ _ _ En). split; [reflexivity|]. rewrite En in E1. inversion E1; subst. auto.
    + exists th1. rewrite nth_set_neq by exact Hne. auto.
Qed.

Lemma inv_b_rel c t th th' s' x :
  inv_b c -> nth_error (thr c) t = Some th ->
  (forall l, In l (held_nodes (stack th)) -> l <> x -> In l (held_nodes (stack th'))) ->
  inv_b (Config (release (locks c) x) s' (set_nth t th' (thr c))).
Proof.
  intros I En Hsub l t1 Hl. simpl in *.
  assert (Hold : locks c l = Some t1 /\ l <> x).
  { unfold C12Chain.release in Hl. destruct (has_lock x) eqn:Ehx.
    - unfold upd in Hl. destruct (Nat.eqb_spec l x); [discriminate|auto].
    - split; [exact Hl|]. intros ->. destruct (I _ _ Hl) as [Hhl _]. congruence. }
  destruct Hold as [Hold Hlx]. destruct (I _ _ Hold) as (Hhl & th1 & E1 & Hin). split; [exact Hhl|].
  destruct (Nat.eq_dec t1 t) as [->|Hne].
  - exists th'. rewrite (nth_set_eq _ _ _ _ En). split; [reflexivity|]. rewrite En in E1. inversion E1; subst. auto.
  - exists th1. rewrite nth_set_neq by exact Hne. auto.
Qed.

Lemma unwind_lk (f : frame) lk :
  (if fheld f && has_lock (fnode f) && ror (fnode f) then upd lk (fnode f) None else lk) =
  if fheld f then release lk (fnode f) else lk.
Proof.
  rewrite ror_all, andb_true_r. unfold C12Chain.release. destruct (fheld f), (has_lock (fnode f)); reflexivity.
Qed.

Lemma inv_b_step c a c' : exec c a = Some c' -> inv_wf c -> inv_b c -> inv_b c'.
Proof.
  intros H W I. apply exec_inv in H. destruct H as (th & lk' & s' & th' & l & En & Hs & ->).
  pose proof (W _ _ En) as [Wst _].
  destruct Hs; cbn [stack fheld fnode fpend].
  - rewrite unwind_lk. destruct (fheld f) eqn:Eh.
    + eapply inv_b_rel; eauto. cbn [stack fheld fnode fpend]. rewrite H0, held_cons, Eh. intros l [<-|[]] Hne. congruence.
    + eapply inv_b_same; eauto. cbn [stack fheld fnode fpend]. rewrite H0, held_cons, Eh. auto.
  - rewrite unwind_lk. destruct (fheld f) eqn:Eh.
    + eapply inv_b_rel; eauto. cbn [stack fheld fnode fpend]. rewrite H0, (held_cons f), Eh. intros l [<-|Hin] Hne; [congruence|exact Hin].
    + eapply inv_b_same; eauto. cbn [stack fheld fnode fpend]. rewrite H0, (held_cons f), Eh. auto.
  - eapply inv_b_same; eauto. cbn [stack fheld fnode fpend]. rewrite H0. auto.
  - eapply inv_b_same; eauto. cbn [stack fheld fnode fpend]. rewrite H0. intros l [].
  - eapply inv_b_same; eauto. cbn [stack fheld fnode fpend]. rewrite H0. auto.
  - eapply inv_b_same; eauto. cbn [stack fheld fnode fpend]. rewrite H0. rewrite (held_cons (Frame y false calls)). cbn [stack fheld fnode fpend]. auto.
  - eapply inv_b_same; eauto. cbn [stack fheld fnode fpend]. rewrite H0. auto.
  - eapply inv_b_acq; eauto. cbn [stack fheld fnode fpend]. rewrite H0. rewrite !held_cons. cbn [stack fheld fnode fpend]. rewrite H1.
    intros l [->|Hin]; [left; reflexivity|right; exact Hin].
  - eapply inv_b_same; eauto. cbn [stack fheld fnode fpend]. rewrite H0. rewrite !held_cons. cbn [stack fheld fnode fpend]. rewrite H1.
    intros l Hin; right; exact Hin.
  - eapply inv_b_same; eauto. cbn [stack fheld fnode fpend]. rewrite H0, held_cons, H1. auto.
  - rewrite H0 in Wst. destruct Wst as (_ & _ & (Hh & _)).
    eapply inv_b_rel; eauto. cbn [stack fheld fnode fpend]. rewrite H0, !held_cons, H1, Hh. cbn [stack fheld fnode fpend].
    intros l [<-|Hin] Hne; [congruence|exact Hin].
Qed.

Lemma init_inv s0 opss : inv_wf (init data shared s0 opss) /\ inv_a (init data shared s0 opss)
                        /\ inv_b (init data shared s0 opss).
Proof.
  unfold init. split; [|split].
  - intros t th E. simpl in E. apply nth_error_In in E. apply in_map_iff in E. destruct E as (o & <- & _).
    split; simpl; [exact I|discriminate].
  - intros t th l E Hin. simpl in E. apply nth_error_In in E. apply in_map_iff in E. destruct E as (o & <- & _).
    simpl in Hin. contradiction.
  - intros l t E. simpl in E. discriminate.
Qed.

Lemma reach_inv_wa s0 opss c : reach s0 opss c -> inv_wf c /\ inv_a c.
Proof.
  induction 1 as [|c a c' _ [IW IA] Hs].
  - destruct (init_inv s0 opss) as (A & B & _). auto.
  - split; [eapply inv_wf_step; eauto|eapply inv_a_step; eauto].
Qed.

Lemma reach_inv_b s0 opss c : reach s0 opss c -> inv_b c.
Proof.
  induction 1 as [|c a c' Hr IB Hs].
  - apply init_inv.
  - eapply inv_b_step; eauto. apply (reach_inv_wa _ _ _ Hr).
Qed.


(* ---------- theorems ---------- *)

(* after each operation returned or raised (call stack empty) the thread owns no lock *)
Theorem locks_free_after_thm s0 opss c t th l :
  reach s0 opss c -> nth_error (thr c) t = Some th -> stack th = [] -> locks c l <> Some t.
Proof.
  intros R En Hs Hl. apply reach_inv_b in R. destruct (R _ _ Hl) as (_ & th1 & E1 & Hin).
  rewrite En in E1. inversion E1; subst. rewrite Hs in Hin. exact Hin.
Qed.

(* a taken lock always belongs to an operation that is still in progress *)
Theorem holder_active_thm s0 opss c l t :
  reach s0 opss c -> locks c l = Some t ->
  exists th, nth_error (thr c) t = Some th /\ stack th <> [] /\ holds th l.
Proof.
  intros R Hl. apply reach_inv_b in R. destruct (R _ _ Hl) as (_ & th1 & E1 & Hin).
  exists th1. split; [exact E1|]. split; [|apply holds_iff; exact Hin].
  intros E. rewrite E in Hin. exact Hin.
Qed.

(* mutual exclusion *)
Theorem mutex_thm s0 opss c l t1 t2 th1 th2 :
  reach s0 opss c -> has_lock l = true ->
  nth_error (thr c) t1 = Some th1 -> nth_error (thr c) t2 = Some th2 ->
  holds th1 l -> holds th2 l -> t1 = t2.
Proof.
  intros R Hl E1 E2 H1 H2. apply reach_inv_wa in R. destruct R as [_ IA].
  apply holds_iff in H1. apply holds_iff in H2.
  pose proof (IA _ _ _ E1 H1 Hl). pose proof (IA _ _ _ E2 H2 Hl). congruence.
Qed.

(* the lock a thread is waiting for, if any *)
Definition blocked_on (lk : nat -> option nat) (th : thread) : option nat :=
  if raising th then None else
  match stack th with
  | [] => None
  | f :: _ =>
    if fheld f then None else
    match fpend f with
    | [] => None
    | _ :: _ => if has_lock (fnode f) then
                  match lk (fnode f) with Some _ => Some (fnode f) | None => None end
                else None
    end
  end.

Lemma enabled_tstep t lk s th :
  wf_thread th -> (stack th <> [] \/ ops th <> []) -> blocked_on lk th = None ->
  tstep t false lk s th <> None.
Proof.
  intros [W R] Hun Hb. unfold blocked_on in Hb. unfold C12Chain.tstep.
  destruct (raising th) eqn:Er.
  - destruct (stack th) as [|f fs] eqn:Es; [exfalso; apply R; auto|].
    destruct fs; discriminate.
  - destruct (stack th) as [|f fs] eqn:Es.
    + destruct (ops th) as [|[x d] rest]; [destruct Hun; congruence|].
      destruct (body x d s). discriminate.
    + destruct W as (_ & Hne & _). destruct (fheld f) eqn:Eh.
      * destruct (fpend f) as [|[y d] cs]; [exfalso; apply Hne; auto|]. destruct (body y d s). discriminate.
      * destruct (fpend f) as [|c cs].
        -- destruct fs; discriminate.
        -- destruct (has_lock (fnode f)); [|discriminate].
           destruct (lk (fnode f)); [discriminate|discriminate].
Qed.

Lemma enabled_exec c t th :
  nth_error (thr c) t = Some th -> wf_thread th -> (stack th <> [] \/ ops th <> []) ->
  blocked_on (locks c) th = None -> exec c (t, false) <> None.
Proof.
  intros En W Hun Hb. unfold C12Chain.exec, C12Chain.exec_l. simpl. rewrite En.
  pose proof (enabled_tstep t (locks c) (sh c) th W Hun Hb) as H.
  destruct (C12Chain.tstep _ _ _ _ _ _ _ _ _ _) as [[[[? ?] ?] ?]|]; [discriminate|congruence].
Qed.

Lemma blocked_on_some lk th x :
  blocked_on lk th = Some x ->
  exists f fs t', stack th = f :: fs /\ fnode f = x /\ fheld f = false /\ lk x = Some t'.
Proof.
  unfold blocked_on. destruct (raising th); [discriminate|].
  destruct (stack th) as [|f fs]; [discriminate|]. destruct (fheld f) eqn:Eh; [discriminate|].
  destruct (fpend f); [discriminate|]. destruct (has_lock (fnode f)); [|discriminate].
  destruct (lk (fnode f)) eqn:El; [|discriminate]. intros H. inversion H; subst. eauto 10.
Qed.

Lemma wait_chain s0 opss c : reach s0 opss c ->
  forall n t th x, x < n -> nth_error (thr c) t = Some th -> blocked_on (locks c) th = Some x ->
  exists t', exec c (t', false) <> None.
Proof.
  intros R. pose proof (reach_inv_wa _ _ _ R) as [IW _]. pose proof (reach_inv_b _ _ _ R) as IB.
  induction n as [|n IH]; intros t th x Hx En Hb; [lia|].
  apply blocked_on_some in Hb. destruct Hb as (f & fs & t1 & Es & Ef & Eh & El).
  destruct (IB _ _ El) as (_ & th1 & E1 & Hin).
  assert (Hne : stack th1 <> []) by (intros E; rewrite E in Hin; exact Hin).
  destruct (blocked_on (locks c) th1) as [y|] eqn:Eb1.
  - pose proof Eb1 as Eb1'. apply blocked_on_some in Eb1'. destruct Eb1' as (f1 & fs1 & t2 & Es1 & Ef1 & Eh1 & El1).
    apply (IH t1 th1 y); auto.
    rewrite Es1, held_cons, Eh1 in Hin.
    destruct (IW _ _ E1) as [W1 _]. rewrite Es1 in W1. destruct W1 as (_ & _ & Wi).
    pose proof (held_nodes_gt _ _ Wi _ Hin). lia.
  - exists t1. eapply enabled_exec; eauto.
Qed.

(* no deadlock: while some thread is unfinished, some thread can make a (non-failing) step *)
Theorem no_deadlock_thm s0 opss c t th :
  reach s0 opss c -> nth_error (thr c) t = Some th -> (stack th <> [] \/ ops th <> []) ->
  exists t', exec c (t', false) <> None.
Proof.
  intros R En Hun. pose proof (reach_inv_wa _ _ _ R) as [IW _].
  destruct (blocked_on (locks c) th) as [x|] eqn:Eb.
  - eapply (wait_chain _ _ _ R (S x)); eauto.
  - exists t. eapply enabled_exec; eauto.
Qed.

(* a thread is never blocked by operations that are over: if every other thread is between
   operations (whatever happened in them, failures included), it can always step *)
Theorem progress_thm s0 opss c t th :
  reach s0 opss c -> nth_error (thr c) t = Some th -> (stack th <> [] \/ ops th <> []) ->
  (forall t' th', t' <> t -> nth_error (thr c) t' = Some th' -> stack th' = []) ->
  exec c (t, false) <> None.
Proof.
  intros R En Hun Hidle. pose proof (reach_inv_wa _ _ _ R) as [IW _]. pose proof (reach_inv_b _ _ _ R) as IB.
  eapply enabled_exec; eauto.
  destruct (blocked_on (locks c) th) as [x|] eqn:Eb; [exfalso|reflexivity].
  apply blocked_on_some in Eb. destruct Eb as (f & fs & t1 & Es & Ef & Eh & El).
  destruct (IB _ _ El) as (_ & th1 & E1 & Hin).
  destruct (Nat.eq_dec t1 t) as [->|Hne].
  - rewrite En in E1. inversion E1; subst th1. rewrite Es, held_cons, Eh in Hin.
    destruct (IW _ _ En) as [W1 _]. rewrite Es in W1. destruct W1 as (_ & _ & Wi).
    pose proof (held_nodes_gt _ _ Wi _ Hin). lia.
  - rewrite (Hidle _ _ Hne E1) in Hin. exact Hin.
Qed.

End Proofs.

(* ---------- error propagation (needs no hypothesis on ror or body) ---------- *)
Section ErrorReported.
Variable data shared : Type.
Variable has_lock ror : nat -> bool.
Variable body : nat -> data -> shared -> shared * list (nat * data).
Notation exec := (exec data shared has_lock ror body).

(* (1) a raise is never swallowed where it occurs: the thread is unwinding afterwards, or the
       operation has already ended with an error (raise at operation entry);
   (2) an unwinding thread does nothing but unwind (shared state untouched, no lock taken) and
       its operation ends with an error; (3) an operation ends with `ok` only from a
       non-raising thread.                                                                  *)
Theorem error_reported_thm c t fail c' th th' :
  exec c (t, fail) = Some c' -> nth_error (thr c) t = Some th -> nth_error (thr c') t = Some th' ->
  (fail = true -> (raising th' = true /\ stack th' <> [] /\ results th' = results th /\ sh c' = sh c)
                  \/ (stack th' = [] /\ results th' = results th ++ [false] /\ sh c' = sh c)) /\
  (raising th = true ->
     sh c' = sh c /\ (forall l, locks c' l = locks c l \/ locks c' l = None) /\
     ((raising th' = true /\ results th' = results th /\ length (stack th') < length (stack th)) \/
      (stack th' = [] /\ raising th' = false /\ results th' = results th ++ [false]))) /\
  (raising th = false -> fail = false ->
     results th' = results th \/ (results th' = results th ++ [true] /\ stack th' = [])).
Proof.
  intros H En En'. apply exec_inv in H. destruct H as (th0 & lk' & s' & th1 & l & E0 & Hs & ->).
  simpl in E0, Hs. rewrite En in E0. inversion E0; subst th0; clear E0.
  simpl in En'. rewrite (nth_set_eq _ _ _ _ En) in En'. inversion En'; subst th1; clear En'.
  assert (Hupd : forall (lk : nat -> option nat) x l0, upd lk x None l0 = lk l0 \/ upd lk x None l0 = None).
  { intros lk x l0. unfold upd. destruct (Nat.eqb l0 x); auto. }
  destruct Hs; simpl; (split; [|split]); intros; try congruence; try discriminate; auto.
  - split; [reflexivity|]. split; [|right; auto].
    intros l0. destruct (fheld f && has_lock (fnode f) && ror (fnode f)); auto.
  - split; [reflexivity|]. split; [|left; rewrite H0; simpl; auto].
    intros l0. destruct (fheld f && has_lock (fnode f) && ror (fnode f)); auto.
  - left. repeat split; auto. discriminate.
  - left. repeat split; auto. discriminate.
Qed.

End ErrorReported.
