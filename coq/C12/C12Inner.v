(* C12: the lock-chain model (C12Chain.v) extended by what an INNER lock site needs.  Definitions only.

   An inner site is a lock that a layer takes inside its own body around a piece of work that makes no
   call into another layer (the cipher lock a key manager may take around one encrypt / decrypt), and
   whose failure the layer may HANDLE itself: the axolotl receive layer turns a message that cannot be
   decrypted into a retry receipt, the caller of the read sees nothing.  C12Chain.v cannot say that:
   there a raising thread unwinds to the operation's caller, and a lock has no re-entrancy.  Added here:

     * a node may CATCH a failure of one of its callees: a frame carries `icatch` = the calls its handler
       makes (computed at entry from the node and the datum, like the ordinary calls); when unwinding
       reaches such a frame -- its lock, if it has one, released iff `ror` -- the thread stops raising and
       goes on with the handler's calls; a handler is used at most once per frame; a failure in the
       frame's own code is not caught by its own handler (mode ROwn), only by a caller's;
     * a lock may be RE-ENTRANT (`reent x`): its owner may take it again; the table keeps
       (owner, number of additional acquisitions); a release undoes one acquisition.

   With no handler anywhere and no re-entrant lock this is C12Chain.v's semantics step by step
   (C12InnerProofs.v, inner_conservative_sim and _enabled): the inner site is optional and its absence is the identity. *)
From YV Require Import Common.Tac C12.C12Chain.

(* not raising / the top frame's own code raised / a callee of the top frame raised *)
Inductive rmode := RNo | ROwn | RCallee.

Definition rmode_raising (m : rmode) : bool := match m with RNo => false | _ => true end.

Section Inner.
Variable data : Type.
Variable shared : Type.
Variable has_lock : nat -> bool.
Variable ror : nat -> bool.
Variable reent : nat -> bool.
Variable body : nat -> data -> shared -> shared * list (nat * data).
Variable handler : nat -> data -> option (list (nat * data)).

Record iframe := IFrame { inode : nat; iheld : bool; ipend : list (nat * data);
                          icatch : option (list (nat * data)) }.

Record ithread := IThread { istack : list iframe; imode : rmode;
                            iops : list (nat * data); iresults : list bool }.

(* lock table: owner and the number of ADDITIONAL acquisitions by that owner (0 = taken once) *)
Record iconfig := IConfig { ilocks : nat -> option (nat * nat); ish : shared; ithr : list ithread }.

(* undo one acquisition *)
Definition unlock (lk : nat -> option (nat * nat)) (x : nat) : nat -> option (nat * nat) :=
  match lk x with
  | Some (o, S k) => upd lk x (Some (o, k))
  | _ => upd lk x None
  end.

Definition irelease (lk : nat -> option (nat * nat)) (x : nat) : nat -> option (nat * nat) :=
  if has_lock x then unlock lk x else lk.

(* may thread t take lock x now, and what is the table afterwards *)
Definition try_acquire (t : nat) (lk : nat -> option (nat * nat)) (x : nat)
  : option (nat -> option (nat * nat)) :=
  match lk x with
  | None => Some (upd lk x (Some (t, 0)))
  | Some (o, k) => if reent x && Nat.eqb o t then Some (upd lk x (Some (o, S k))) else None
  end.

Definition ifinish (th : ithread) (r : bool) : ithread :=
  IThread [] RNo (iops th) (iresults th ++ [r]).

(* one step of thread number t *)
Definition itstep (t : nat) (fail : bool) (lk : nat -> option (nat * nat)) (s : shared) (th : ithread)
  : option ((nat -> option (nat * nat)) * shared * ithread) :=
  match imode th with
  | ROwn =>
    if fail then None else
    match istack th with
    | [] => None
    | f :: fs =>
      let rel := iheld f && has_lock (inode f) && ror (inode f) in
      let lk' := if rel then unlock lk (inode f) else lk in
      match fs with
      | [] => Some (lk', s, ifinish th false)
      | _ => Some (lk', s, IThread fs RCallee (iops th) (iresults th))
      end
    end
  | RCallee =>
    if fail then None else
    match istack th with
    | [] => None
    | f :: fs =>
      let rel := iheld f && has_lock (inode f) && ror (inode f) in
      let lk' := if rel then unlock lk (inode f) else lk in
      match icatch f with
      | Some h => Some (lk', s, IThread (IFrame (inode f) false h None :: fs) RNo (iops th) (iresults th))
      | None =>
        match fs with
        | [] => Some (lk', s, ifinish th false)
        | _ => Some (lk', s, IThread fs RCallee (iops th) (iresults th))
        end
      end
    end
  | RNo =>
    match istack th with
    | [] =>
      match iops th with
      | [] => None
      | (x, d) :: rest =>
        if fail then Some (lk, s, IThread [] RNo rest (iresults th ++ [false]))
        else let '(s', calls) := body x d s in
             Some (lk, s', IThread [IFrame x false calls (handler x d)] RNo rest (iresults th))
      end
    | f :: fs =>
      if iheld f then
        match ipend f with
        | [] => None
        | (y, d) :: cs =>
          if fail then Some (lk, s, IThread (f :: fs) RCallee (iops th) (iresults th))
          else let '(s', calls) := body y d s in
               Some (lk, s', IThread (IFrame y false calls (handler y d) :: f :: fs) RNo (iops th) (iresults th))
        end
      else if fail then Some (lk, s, IThread (f :: fs) ROwn (iops th) (iresults th))
      else
        match ipend f with
        | _ :: _ =>
          if has_lock (inode f) then
            match try_acquire t lk (inode f) with
            | Some lk' => Some (lk', s, IThread (IFrame (inode f) true (ipend f) (icatch f) :: fs) RNo
                                               (iops th) (iresults th))
            | None => None
            end
          else Some (lk, s, IThread (IFrame (inode f) true (ipend f) (icatch f) :: fs) RNo (iops th) (iresults th))
        | [] =>
          match fs with
          | [] => Some (lk, s, ifinish th true)
          | g :: fs' =>
            Some (irelease lk (inode g), s,
                  IThread (IFrame (inode g) false (tl (ipend g)) (icatch g) :: fs') RNo (iops th) (iresults th))
          end
        end
    end
  end.

Definition iexec (c : iconfig) (a : nat * bool) : option iconfig :=
  match nth_error (ithr c) (fst a) with
  | None => None
  | Some th =>
    match itstep (fst a) (snd a) (ilocks c) (ish c) th with
    | None => None
    | Some (lk', s', th') => Some (IConfig lk' s' (set_nth (fst a) th' (ithr c)))
    end
  end.

Fixpoint irun (c : iconfig) (acts : list (nat * bool)) : option iconfig :=
  match acts with
  | [] => Some c
  | a :: r => match iexec c a with Some c' => irun c' r | None => None end
  end.

Definition iinit (s0 : shared) (opss : list (list (nat * data))) : iconfig :=
  IConfig (fun _ => None) s0 (map (fun o => IThread [] RNo o []) opss).

Inductive ireach (s0 : shared) (opss : list (list (nat * data))) : iconfig -> Prop :=
| ireach_init : ireach s0 opss (iinit s0 opss)
| ireach_step c a c' : ireach s0 opss c -> iexec c a = Some c' -> ireach s0 opss c'.

Definition iholds (th : ithread) (l : nat) : Prop :=
  exists f, In f (istack th) /\ inode f = l /\ iheld f = true.

Definition ifinished (th : ithread) : Prop := istack th = [] /\ iops th = [].

Definition owner_of (c : iconfig) (l : nat) : option nat :=
  match ilocks c l with Some (o, _) => Some o | None => None end.

(* ---- projection onto C12Chain.v's configurations (used by the conservativity statement) ---- *)
Definition proj_frame (f : iframe) : frame data := Frame (inode f) (iheld f) (ipend f).
Definition proj_thread (th : ithread) : thread data :=
  Thread (map proj_frame (istack th)) (rmode_raising (imode th)) (iops th) (iresults th).

End Inner.

Arguments IFrame {data}. Arguments inode {data}. Arguments iheld {data}. Arguments ipend {data}.
Arguments icatch {data}.
Arguments IThread {data}. Arguments istack {data}. Arguments imode {data}. Arguments iops {data}.
Arguments iresults {data}.
Arguments IConfig {data shared}. Arguments ilocks {data shared}. Arguments ish {data shared}.
Arguments ithr {data shared}.
Arguments iholds {data}. Arguments ifinished {data}. Arguments owner_of {data shared}.
Arguments proj_frame {data}. Arguments proj_thread {data}.

(* ---------------------------------------------------------------------------------------------
   Table instance: C12Model.v's table plus the list of re-entrant lock nodes and the handlers
   (node, kind of datum, calls of the handler).  The harness adds the inner site to the table it
   builds from the real stack when the tree under test has such a lock.                          *)
From YV Require Import C12.C12Model.

Record itable := ITable { it_rows : table; it_reent : list nat; it_catch : list (nat * nat * list nat) }.

Definition it_reentb (T : itable) (x : nat) : bool := existsb (Nat.eqb x) (it_reent T).

Fixpoint find_catch (x k : nat) (l : list (nat * nat * list nat)) : option (list nat) :=
  match l with
  | [] => None
  | (x', k', calls) :: r => if Nat.eqb x x' && Nat.eqb k k' then Some calls else find_catch x k r
  end.

Definition it_handler (T : itable) (x : nat) (k : nat) : option (list (nat * nat)) :=
  match find_catch x k (it_catch T) with
  | Some calls => Some (map (fun y => (y, k)) calls)
  | None => None
  end.

Definition itable_wf (T : itable) : bool :=
  table_wf (it_rows T) &&
  forallb (fun e => forallb (fun y => Nat.ltb y (fst (fst e))) (snd e)) (it_catch T).

Definition it_exec (T : itable) :=
  iexec nat (list nat) (t_has_lock (it_rows T)) (t_ror (it_rows T)) (it_reentb T) (t_body (it_rows T))
        (it_handler T).
Definition it_run (T : itable) :=
  irun nat (list nat) (t_has_lock (it_rows T)) (t_ror (it_rows T)) (it_reentb T) (t_body (it_rows T))
       (it_handler T).
Definition it_init (opss : list (list (nat * nat))) : iconfig nat (list nat) := iinit nat (list nat) [] opss.
Definition it_reach (T : itable) (opss : list (list (nat * nat))) :=
  ireach nat (list nat) (t_has_lock (it_rows T)) (t_ror (it_rows T)) (it_reentb T) (t_body (it_rows T))
         (it_handler T) [] opss.

(* ---- sequential driver used by the correspondence (glue, as C12Model.drive) ---- *)
Definition inext_entry (th : ithread nat) : option nat :=
  match imode th with
  | RNo =>
    match istack th with
    | [] => match iops th with (x, _) :: _ => Some x | [] => None end
    | f :: _ => if iheld f then match ipend f with (y, _) :: _ => Some y | [] => None end else None
    end
  | _ => None
  end.

Definition iinside (th : ithread nat) : option nat :=
  match imode th with
  | RNo => match istack th with
           | f :: _ => if iheld f then None else Some (inode f)
           | [] => None
           end
  | _ => None
  end.

(* as C12Model.drive: failspec (y, k, m) = the k-th entry into node y during this operation raises,
   m = 0 at entry before any effect, m > 0 inside y's own code right after entry.
   0 = returned, 1 = raised, 2 = blocked on a lock, 3 = out of fuel / no such thread *)
Fixpoint idrive (T : itable) (fuel : nat) (t : nat) (failspec : option (nat * nat * nat)) (seen : nat)
         (nres : nat) (c : iconfig nat (list nat)) : iconfig nat (list nat) * nat :=
  match fuel with
  | O => (c, 3)
  | S fuel' =>
    match nth_error (ithr c) t with
    | None => (c, 3)
    | Some th =>
      if Nat.ltb nres (length (iresults th)) then
        (c, if last (iresults th) true then 0 else 1)
      else
        let '(fail, seen') :=
          match failspec with
          | Some (y, k, O) =>
            match inext_entry th with
            | Some y' => if Nat.eqb y y' then (Nat.eqb seen k, S seen) else (false, seen)
            | None => (false, seen)
            end
          | Some (y, k, S _) =>
            match inext_entry th, iinside th with
            | Some y', _ => if Nat.eqb y y' then (false, S seen) else (false, seen)
            | None, Some y' => if Nat.eqb y y' && Nat.eqb seen (S k) then (true, S seen) else (false, seen)
            | None, None => (false, seen)
            end
          | None => (false, seen)
          end in
        match it_exec T c (t, fail) with
        | None => (c, 2)
        | Some c' => idrive T fuel' t failspec seen' nres c'
        end
    end
  end.
