(* Glue between the sx line format and the C12 table model (unverified, trusted, small). *)
From YV Require Import Common.Tac Common.Sx C12.C12Chain C12.C12Model.

Definition nat_of (s : sx) : nat := N.to_nat (sx_get_n s).
Definition sx_nat (n : nat) : sx := SN (N.of_nat n).

(* row: (N lock  N ror  (N callee ...)  ((N kind (N callee ...)) ...)) *)
Definition table_of (s : sx) : table :=
  map (fun r => NodeInfo (sx_get_bool (sx_nth r 0)) (sx_get_bool (sx_nth r 1))
                         (map nat_of (sx_get_l (sx_nth r 2)))
                         (map (fun kv => (nat_of (sx_nth kv 0), map nat_of (sx_get_l (sx_nth kv 1))))
                              (sx_get_l (sx_nth r 3)))) (sx_get_l s).

(* op: (N thread  N entry  N kind  () | (N failnode N occurrence N mode)) *)
Definition op_thread (o : sx) : nat := nat_of (sx_nth o 0).
Definition op_entry (o : sx) : nat * nat := (nat_of (sx_nth o 1), nat_of (sx_nth o 2)).
Definition op_fail (o : sx) : option (nat * nat * nat) :=
  match sx_get_l (sx_nth o 3) with
  | [y; k; m] => Some (nat_of y, nat_of k, nat_of m)
  | _ => None
  end.

Fixpoint seq_from (a n : nat) : list nat := match n with O => [] | S n' => a :: seq_from (S a) n' end.

Definition ops_of_thread (ops : list sx) (t : nat) : list (nat * nat) :=
  map op_entry (filter (fun o => Nat.eqb (op_thread o) t) ops).

Definition lock_row (T : table) (c : config nat (list nat)) : sx :=
  SL (map (fun x => sx_bool (match locks c x with Some _ => true | None => false end))
          (seq_from 0 (length T))).

Fixpoint skipn_nat {A} (n : nat) (l : list A) : list A :=
  match n, l with O, _ => l | S n', _ :: r => skipn_nat n' r | S _, [] => [] end.

Fixpoint run_ops (T : table) (ops : list sx) (c : config nat (list nat)) : list sx :=
  match ops with
  | [] => []
  | o :: rest =>
    let t := op_thread o in
    let nres := match nth_error (thr c) t with Some th => length (results th) | None => 0 end in
    let '(c', out) := drive T 4000 t (op_fail o) 0 nres c in
    SL [sx_nat out; lock_row T c'; SL (map sx_nat (skipn_nat (length (sh c)) (sh c')))]
       :: run_ops T rest c'
  end.

(* arg: (table  nthreads  (op ...))  ->  (N wf  N ror_all  ((N outcome (N locked ...) (N entered ...)) ...)) *)
Definition run_c12 (arg : sx) : sx :=
  let T := table_of (sx_nth arg 0) in
  let nthreads := nat_of (sx_nth arg 1) in
  let ops := sx_get_l (sx_nth arg 2) in
  let opss := map (ops_of_thread ops) (seq_from 0 nthreads) in
  SL [sx_bool (table_wf T); sx_bool (table_ror_all T); SL (run_ops T ops (t_init opss))].

(* ---- incoming direction with failing deliveries (C12Segments.v) ----
   arg: ((B badframe ...) B buf (B chunk ...)) -> ((((B frame ...) N raised) ...) B buf') *)
From YV Require Import C05.C05Model C12.C12Segments.

Fixpoint bytes_eqb (a b : list N) : bool :=
  match a, b with
  | [], [] => true
  | x :: a', y :: b' => N.eqb x y && bytes_eqb a' b'
  | _, _ => false
  end.

Definition run_c12seg (arg : sx) : sx :=
  let bads := map sx_get_b (sx_get_l (sx_nth arg 0)) in
  let bad := fun f => existsb (bytes_eqb f) bads in
  let buf := sx_get_b (sx_nth arg 1) in
  let chunks := map sx_get_b (sx_get_l (sx_nth arg 2)) in
  let '(calls, b) := run_exc bad buf chunks in
  SL [SL (map (fun c => SL [SL (map SB (fst c)); sx_bool (snd c)]) calls); SB b].

(* ---- concurrent operations in flight: the harness pauses a real thread inside a layer (an application
   callback that waits), lets another thread run into the lock, then lets the first one raise or return.
   phase = (N thread  N mode  N target):
     mode 0: drive the thread until its operation is over or it cannot step (blocked on a lock)
     mode 1: drive it until it is running node `target`'s own code (then pause there)
     mode 2: the thread's next step raises (inside the node it is paused in), then as mode 0
   per phase: (N outcome  (N locked ...)  (N entered ...))   outcome 0 returned, 1 raised, 2 blocked,
   3 fuel/no such thread, 4 paused inside target *)
Fixpoint drive_until (T : table) (fuel : nat) (t : nat) (target : option nat) (nres : nat)
         (c : config nat (list nat)) : config nat (list nat) * nat :=
  match fuel with
  | O => (c, 3)
  | S fuel' =>
    match nth_error (thr c) t with
    | None => (c, 3)
    | Some th =>
      if Nat.ltb nres (length (results th)) then (c, if last (results th) true then 0 else 1)
      else
        match target, inside th with
        | Some y, Some y' => if Nat.eqb y y' then (c, 4) else
            match t_exec T c (t, false) with None => (c, 2) | Some c' => drive_until T fuel' t target nres c' end
        | _, _ =>
            match t_exec T c (t, false) with None => (c, 2) | Some c' => drive_until T fuel' t target nres c' end
        end
    end
  end.

Fixpoint run_phases (T : table) (phases : list sx) (nres : list nat) (c : config nat (list nat)) : list sx :=
  match phases with
  | [] => []
  | p :: rest =>
    let t := nat_of (sx_nth p 0) in
    let mode := nat_of (sx_nth p 1) in
    let target := nat_of (sx_nth p 2) in
    let nr := nth t nres 0 in
    let c1 := match mode with
              | 2 => match t_exec T c (t, true) with Some c' => c' | None => c end
              | _ => c
              end in
    let '(c', out) := drive_until T 4000 t (match mode with 1 => Some target | _ => None end) nr c1 in
    let nres' := match out with
                 | 0 | 1 => set_nth t (S nr) nres
                 | _ => nres
                 end in
    SL [sx_nat out; lock_row T c'; SL (map sx_nat (skipn_nat (length (sh c)) (sh c')))]
       :: run_phases T rest nres' c'
  end.

(* arg: (table  nthreads  (op ...)  (phase ...)) *)
Definition run_c12_phases (arg : sx) : sx :=
  let T := table_of (sx_nth arg 0) in
  let nthreads := nat_of (sx_nth arg 1) in
  let ops := sx_get_l (sx_nth arg 2) in
  let opss := map (ops_of_thread ops) (seq_from 0 nthreads) in
  SL (run_phases T (sx_get_l (sx_nth arg 3)) (map (fun _ => 0) (seq_from 0 nthreads)) (t_init opss)).

(* ---- inner lock site (C12Inner.v): the table plus the re-entrant lock nodes and the handlers ----
   arg: (table  (N reentrant-node ...)  ((N node  N kind  (N callee ...)) ...)  nthreads  (op ...))
        ->  (N wf  N ror_all  ((N outcome (N locked ...) (N entered ...)) ...))      as run_c12 *)
From YV Require Import C12.C12Inner.

Definition itable_of (rows reent catch : sx) : itable :=
  ITable (table_of rows) (map nat_of (sx_get_l reent))
         (map (fun e => (nat_of (sx_nth e 0), nat_of (sx_nth e 1), map nat_of (sx_get_l (sx_nth e 2))))
              (sx_get_l catch)).

Definition ilock_row (T : itable) (c : iconfig nat (list nat)) : sx :=
  SL (map (fun x => sx_bool (match ilocks c x with Some _ => true | None => false end))
          (seq_from 0 (length (it_rows T)))).

Fixpoint irun_ops (T : itable) (ops : list sx) (c : iconfig nat (list nat)) : list sx :=
  match ops with
  | [] => []
  | o :: rest =>
    let t := op_thread o in
    let nres := match nth_error (ithr c) t with Some th => length (iresults th) | None => 0 end in
    let '(c', out) := idrive T 4000 t (op_fail o) 0 nres c in
    SL [sx_nat out; ilock_row T c'; SL (map sx_nat (skipn_nat (length (ish c)) (ish c')))]
       :: irun_ops T rest c'
  end.

Definition run_c12i (arg : sx) : sx :=
  let T := itable_of (sx_nth arg 0) (sx_nth arg 1) (sx_nth arg 2) in
  let nthreads := nat_of (sx_nth arg 3) in
  let ops := sx_get_l (sx_nth arg 4) in
  let opss := map (ops_of_thread ops) (seq_from 0 nthreads) in
  SL [sx_bool (itable_wf T); sx_bool (table_ror_all (it_rows T)); SL (irun_ops T ops (it_init opss))].
