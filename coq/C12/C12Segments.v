(* C12, incoming direction: YowNoiseSegmentsLayer.receive when the upward delivery of a frame raises.

   receive(data):   self._read_buffer.extend(data)
                    while len(buf) > 3:
                        if a whole frame is there:  data = buf[3:3+n]; self._read_buffer = buf[3+n:]
                                                    self.toUpper(bytes(data))        <- may raise
                        else break

   The frame is cut off the layer's buffer BEFORE it is handed upward, so when toUpper raises the
   exception leaves receive() with every following complete frame still in the buffer; the next
   receive() delivers them first.  `bad f` = "toUpper(f) raises" (decided by the layers above).
   Model = C05Model.peel with that one extra exit.  Definitions first, proofs below.            *)
From YV Require Import Common.Tac C05.C05Model C05.C05Proofs.

Local Open Scope nat_scope.

Section Exc.
Variable bad : list N -> bool.

(* returns (frames handed to toUpper in this call, did the call raise, new buffer) *)
Fixpoint peel_exc (fuel : nat) (buf : list N) : list (list N) * bool * list N :=
  match fuel with
  | O => ([], false, buf)
  | S fuel' =>
    match buf with
    | b0 :: b1 :: b2 :: rest =>
      if Nat.ltb 0 (length rest) then
        if (be24 b0 b1 b2 <=? lenN rest)%N then
          let sz := N.to_nat (be24 b0 b1 b2) in
          if bad (firstn sz rest) then ([firstn sz rest], true, skipn sz rest)
          else
            let '(fs, r, b) := peel_exc fuel' (skipn sz rest) in
            (firstn sz rest :: fs, r, b)
        else ([], false, buf)
      else ([], false, buf)
    | _ => ([], false, buf)
    end
  end.

Definition recv_exc (buf chunk : list N) : list (list N) * bool * list N :=
  let b := buf ++ chunk in peel_exc (length b) b.

(* a history of network reads: per read (frames handed upward, raised?), and the final buffer *)
Fixpoint run_exc (buf : list N) (chunks : list (list N)) : list (list (list N) * bool) * list N :=
  match chunks with
  | [] => ([], buf)
  | c :: cs =>
    let '(fs, r, buf') := recv_exc buf c in
    let '(calls, buf'') := run_exc buf' cs in
    ((fs, r) :: calls, buf'')
  end.

Definition attempted (calls : list (list (list N) * bool)) : list (list N) := concat (map fst calls).
Definition all_good (fs : list (list N)) : bool := forallb (fun f => negb (bad f)) fs.

(* ------------------------------------------------------------------ proofs *)
Definition PE (b : list N) := peel_exc (length b) b.

Lemma peel_exc_fuel : forall f1 f2 b, length b <= f1 -> length b <= f2 -> peel_exc f1 b = peel_exc f2 b.
Proof.
  induction f1 as [|f1 IH]; intros f2 b H1 H2.
  - destruct b; [|simpl in H1; lia]. destruct f2; reflexivity.
  - destruct f2 as [|f2].
    + destruct b; [reflexivity|simpl in H2; lia].
    + cbn [peel_exc]. destruct b as [|b0 [|b1 [|b2 rest]]]; try reflexivity.
      destruct (Nat.ltb 0 (length rest)) eqn:E0; [|reflexivity].
      destruct (be24 b0 b1 b2 <=? lenN rest)%N eqn:E1; [|reflexivity].
      destruct (bad _); [reflexivity|].
      rewrite (IH f2); [reflexivity| |];
        rewrite skipn_length; simpl in H1, H2; lia.
Qed.

Lemma peel_exc_S f b0 b1 b2 rest :
  peel_exc (S f) (b0 :: b1 :: b2 :: rest) =
  if Nat.ltb 0 (length rest) then
    if (be24 b0 b1 b2 <=? lenN rest)%N then
      if bad (firstn (N.to_nat (be24 b0 b1 b2)) rest)
      then ([firstn (N.to_nat (be24 b0 b1 b2)) rest], true, skipn (N.to_nat (be24 b0 b1 b2)) rest)
      else let '(fs, r, b) := peel_exc f (skipn (N.to_nat (be24 b0 b1 b2)) rest) in
           (firstn (N.to_nat (be24 b0 b1 b2)) rest :: fs, r, b)
    else ([], false, b0 :: b1 :: b2 :: rest)
  else ([], false, b0 :: b1 :: b2 :: rest).
Proof. reflexivity. Qed.

Lemma PE_fuel f b : length b <= f -> peel_exc f b = PE b.
Proof. intros H. apply peel_exc_fuel; [exact H|lia]. Qed.

Lemma PE_short b : length b <= 3 -> PE b = ([], false, b).
Proof.
  destruct b as [|b0 [|b1 [|b2 [|b3 rest]]]]; cbn; intros H; try reflexivity. lia.
Qed.

Lemma PE_wait b0 b1 b2 rest : length rest < N.to_nat (be24 b0 b1 b2) ->
  PE (b0 :: b1 :: b2 :: rest) = ([], false, b0 :: b1 :: b2 :: rest).
Proof.
  intros H. unfold PE. cbn [length]. rewrite peel_exc_S.
  destruct (Nat.ltb 0 (length rest)); [|reflexivity].
  destruct (N.leb_spec (be24 b0 b1 b2) (lenN rest)); [unfold lenN in *; lia|reflexivity].
Qed.

Lemma PE_take b0 b1 b2 rest : 0 < length rest -> N.to_nat (be24 b0 b1 b2) <= length rest ->
  PE (b0 :: b1 :: b2 :: rest) =
  let sz := N.to_nat (be24 b0 b1 b2) in
  if bad (firstn sz rest) then ([firstn sz rest], true, skipn sz rest)
  else let '(fs, r, b) := PE (skipn sz rest) in (firstn sz rest :: fs, r, b).
Proof.
  intros H0 H1. unfold PE at 1. cbn [length]. rewrite peel_exc_S.
  destruct (Nat.ltb_spec 0 (length rest)); [|lia].
  destruct (N.leb_spec (be24 b0 b1 b2) (lenN rest)); [|unfold lenN in *; lia].
  cbv zeta. destruct (bad _); [reflexivity|].
  rewrite PE_fuel; [reflexivity|]. rewrite skipn_length. lia.
Qed.

(* One call.  Whatever raises: the frames handed upward are a prefix of the frames the buffer holds,
   all but possibly the last were accepted, the last one is the failing one iff the call raised,
   and EVERY OTHER complete frame (and the unfinished tail) is still in the buffer afterwards. *)
Lemma PE_spec_aux : forall n b att raised b' fs r,
  length b <= n -> PE b = (att, raised, b') -> P b = (fs, r) ->
  exists post, fs = att ++ post /\ P b' = (post, r) /\
    (raised = false -> post = [] /\ all_good att = true) /\
    (raised = true -> exists pre f, att = pre ++ [f] /\ bad f = true /\ all_good pre = true).
Proof.
  induction n as [|n IH]; intros b att raised b' fs r Hn HPE HP.
  - destruct b; [|simpl in Hn; lia]. cbn in HPE, HP.
    apply pair_inj in HPE as [HPE <-]. apply pair_inj in HPE as [<- <-].
    apply pair_inj in HP as [<- <-]. exists []. repeat split; try reflexivity; discriminate.
  - destruct (P_cases b) as [Hs | (b0 & b1 & b2 & rest & -> & H0 & H1)].
    + (* no complete frame *)
      assert (HE : PE b = ([], false, b)).
      { destruct b as [|b0 [|b1 [|b2 rest]]]; try (apply PE_short; simpl; lia).
        destruct (Nat.ltb_spec 0 (length rest)) as [H0|H0]; [|apply PE_short; simpl; lia].
        destruct (Nat.leb_spec (N.to_nat (be24 b0 b1 b2)) (length rest)) as [H1|H1];
          [|apply PE_wait; exact H1].
        exfalso. rewrite (P_take b0 b1 b2 rest H0 H1) in Hs.
        destruct (P (skipn _ rest)). apply pair_inj in Hs as [Hs _]. discriminate. }
      rewrite HE in HPE. apply pair_inj in HPE as [HPE <-]. apply pair_inj in HPE as [<- <-].
      rewrite Hs in HP. apply pair_inj in HP as [<- <-].
      exists []. repeat split; try reflexivity; try exact Hs; discriminate.
    + rewrite (PE_take b0 b1 b2 rest H0 H1) in HPE. cbv zeta in HPE.
      rewrite (P_take b0 b1 b2 rest H0 H1) in HP.
      set (sz := N.to_nat (be24 b0 b1 b2)) in *.
      destruct (P (skipn sz rest)) as [fs1 r1] eqn:EP.
      apply pair_inj in HP as [<- <-].
      destruct (bad (firstn sz rest)) eqn:Eb.
      * apply pair_inj in HPE as [HPE <-]. apply pair_inj in HPE as [<- <-].
        exists fs1. split; [reflexivity|]. split; [exact EP|]. split; [discriminate|].
        intros _. exists [], (firstn sz rest). repeat split; [exact Eb].
      * destruct (PE (skipn sz rest)) as [[att1 raised1] bb1] eqn:EE.
        apply pair_inj in HPE as [HPE <-]. apply pair_inj in HPE as [<- <-].
        destruct (IH (skipn sz rest) att1 raised1 bb1 fs1 r1) as (post & Hfs & HPb & Hok & Hraise);
          [rewrite skipn_length; simpl in Hn; lia | exact EE | exact EP |].
        exists post. split; [cbn [app]; rewrite Hfs; reflexivity|]. split; [exact HPb|]. split.
        -- intros Hr. destruct (Hok Hr) as [-> Hg]. split; [reflexivity|].
           unfold all_good. cbn [forallb]. rewrite Eb. exact Hg.
        -- intros Hr. destruct (Hraise Hr) as (pre & f & -> & Hbf & Hg).
           exists (firstn sz rest :: pre), f. split; [reflexivity|]. split; [exact Hbf|].
           unfold all_good. cbn [forallb]. rewrite Eb. exact Hg.
Qed.

Lemma PE_spec b att raised b' fs r :
  PE b = (att, raised, b') -> P b = (fs, r) ->
  exists post, fs = att ++ post /\ P b' = (post, r) /\
    (raised = false -> post = [] /\ all_good att = true) /\
    (raised = true -> exists pre f, att = pre ++ [f] /\ bad f = true /\ all_good pre = true).
Proof. apply (PE_spec_aux (length b)). lia. Qed.

(* A whole history of reads, any chunking, any failures: nothing is lost, duplicated or reordered.
   The frames handed upward so far followed by the complete frames still buffered are exactly the
   frames of the byte stream, and the unfinished tail is the stream's. *)
Lemma run_exc_conserves : forall chunks buf calls b,
  run_exc buf chunks = (calls, b) ->
  attempted calls ++ fst (P b) = fst (P (buf ++ concat chunks)) /\
  snd (P b) = snd (P (buf ++ concat chunks)).
Proof.
  induction chunks as [|c cs IH]; intros buf calls b H.
  - cbn in H. apply pair_inj in H as [<- <-]. cbn. rewrite app_nil_r. split; reflexivity.
  - cbn [run_exc] in H. unfold recv_exc in H. fold (PE (buf ++ c)) in H.
    destruct (PE (buf ++ c)) as [[att raised] b1] eqn:E1.
    destruct (run_exc b1 cs) as [calls1 b2] eqn:E2.
    apply pair_inj in H as [<- <-].
    destruct (P (buf ++ c)) as [fs r] eqn:EP.
    destruct (PE_spec _ _ _ _ _ _ E1 EP) as (post & -> & HPb1 & _ & _).
    destruct (IH b1 calls1 b2 E2) as [IHa IHb].
    cbn [concat]. rewrite app_assoc. rewrite (P_app (buf ++ c) (concat cs)). rewrite EP.
    rewrite (P_app b1 (concat cs)) in IHa, IHb. rewrite HPb1 in IHa, IHb.
    destruct (P (r ++ concat cs)) as [fs' r'] eqn:E3. cbn [fst snd] in *.
    unfold attempted in *. cbn [map fst concat]. rewrite <- app_assoc, IHa, app_assoc.
    split; [reflexivity|exact IHb].
Qed.

(* the last read returned normally => no complete frame is left waiting in the buffer *)
Lemma run_exc_last_ok : forall chunks buf calls b fs raised,
  run_exc buf chunks = (calls ++ [(fs, raised)], b) -> raised = false -> fst (P b) = [].
Proof.
  induction chunks as [|c cs IH]; intros buf calls b fs raised H Hr.
  - cbn in H. apply pair_inj in H as [H _]. destruct calls; discriminate.
  - cbn [run_exc] in H. unfold recv_exc in H. fold (PE (buf ++ c)) in H.
    destruct (PE (buf ++ c)) as [[att r1] b1] eqn:E1.
    destruct (run_exc b1 cs) as [calls1 b2] eqn:E2.
    apply pair_inj in H as [H <-].
    destruct calls as [|c0 calls].
    + cbn [app] in H. apply cons_inj in H as [H Hnil]. apply pair_inj in H as [<- <-].
      destruct cs as [|c' cs'].
      * cbn in E2. apply pair_inj in E2 as [_ <-].
        destruct (P (buf ++ c)) as [fs0 r0] eqn:EP.
        destruct (PE_spec _ _ _ _ _ _ E1 EP) as (post & _ & HPb1 & Hok & _).
        destruct (Hok Hr) as [-> _]. rewrite HPb1. reflexivity.
      * cbn [run_exc] in E2. destruct (recv_exc b1 c') as [[? ?] ?].
        destruct (run_exc l0 cs'). apply pair_inj in E2 as [E2 _]. subst calls1. discriminate.
    + cbn [app] in H. apply cons_inj in H as [_ H]. subst calls1.
      eapply IH; [exact E2|exact Hr].
Qed.

End Exc.

(* ------------------------------------------------------------------ stated against the wire *)
Lemma P_wire_stream fs partial : Forall valid_frame fs -> incomplete partial ->
  P (concat (map wire fs) ++ partial) = (fs, partial).
Proof. intros. apply P_complete; assumption. Qed.

(* C12 for the incoming direction.  The peer sent frames fs (and maybe the beginning of one more);
   the network delivered the bytes in any chunks; the delivery of any frames raised in the layers
   above.  Then: what was handed upward is a prefix of fs (in order, nothing twice, nothing skipped),
   the frames not yet handed upward are still in the buffer as complete frames (they are delivered by
   the next read), and if the last read did not raise everything sent so far was handed upward. *)
Theorem incoming_survives_failure : forall bad chunks fs partial calls b,
  Forall valid_frame fs -> incomplete partial ->
  concat chunks = concat (map wire fs) ++ partial ->
  run_exc bad [] chunks = (calls, b) ->
  attempted calls ++ fst (P b) = fs /\ snd (P b) = partial /\
  (forall calls' att, calls = calls' ++ [(att, false)] -> attempted calls = fs /\ b = partial).
Proof.
  intros bad chunks fs partial calls b Hv Hi Hc H.
  destruct (run_exc_conserves bad chunks [] calls b H) as [Ha Hb].
  cbn [app] in Ha, Hb. rewrite Hc, (P_wire_stream fs partial Hv Hi) in Ha, Hb. cbn [fst snd] in Ha, Hb.
  split; [exact Ha|]. split; [exact Hb|].
  intros calls' att ->.
  pose proof (run_exc_last_ok bad chunks [] calls' b att false H eq_refl) as Hn.
  rewrite Hn, app_nil_r in Ha. split; [exact Ha|].
  destruct (P b) as [x y] eqn:E. cbn [fst snd] in Hn, Hb. subst x y.
  (* P b = ([], partial): peeling took nothing, so b itself is the remainder *)
  destruct (P_cases b) as [Hs | (b0 & b1 & b2 & rest & -> & H0 & H1)].
  - rewrite Hs in E. apply pair_inj in E as [_ E]. exact E.
  - rewrite (P_take b0 b1 b2 rest H0 H1) in E. destruct (P (skipn _ rest)).
    apply pair_inj in E as [E _]. discriminate.
Qed.

(* the frames that were accepted (did not raise) are exactly the non-failing ones of the prefix handed
   upward: a failing frame is handed upward once and never again *)
Theorem failing_frame_not_redelivered : forall bad chunks calls b,
  run_exc bad [] chunks = (calls, b) ->
  Forall (fun c => snd c = true -> exists pre f, fst c = pre ++ [f] /\ bad f = true /\ all_good bad pre = true) calls /\
  Forall (fun c => snd c = false -> all_good bad (fst c) = true) calls.
Proof.
  intros bad chunks. generalize (@nil N).
  induction chunks as [|c cs IH]; intros buf calls b H.
  - cbn in H. apply pair_inj in H as [<- _]. split; constructor.
  - cbn [run_exc] in H. unfold recv_exc in H. fold (PE bad (buf ++ c)) in H.
    destruct (PE bad (buf ++ c)) as [[att raised] b1] eqn:E1.
    destruct (run_exc bad b1 cs) as [calls1 b2] eqn:E2.
    apply pair_inj in H as [<- <-].
    destruct (P (buf ++ c)) as [fs r] eqn:EP.
    destruct (PE_spec _ _ _ _ _ _ _ E1 EP) as (post & _ & _ & Hok & Hraise).
    destruct (IH b1 calls1 b2 E2) as [I1 I2].
    split.
    + constructor; [cbn [fst snd]; exact Hraise | exact I1].
    + constructor; [cbn [fst snd]; intros Hr; apply Hok; exact Hr | exact I2].
Qed.

(* non-vacuity: two frames in one read, the first one fails: it is handed upward alone, the call raises,
   the second frame stays buffered and is delivered (with the third) by the next read *)
Example coalesced_failure :
  let f1 := [7;7]%N in let f2 := [8]%N in let f3 := [9;9;9]%N in
  run_exc (fun f => match f with [7;7]%N => true | _ => false end) []
          [wire f1 ++ wire f2; wire f3] =
  ([([f1], true); ([f2; f3], false)], []).
Proof. vm_compute. reflexivity. Qed.
