(* Shared lock-chain model (C12 and C11).  Definitions only.

   A *ranked call graph*: nodes are natural numbers; entering node x with datum d runs
   `body x d` on the shared state and yields the list of calls (callee, datum) the node will
   make, in order; every callee has a strictly smaller number (`body_lower`, a hypothesis of
   the theorems).  A node that has a lock wraps EACH call in acquire/release of its own lock --
   this is YowLayer.toLower (acquire; lower.send(data); release) and, for the upward
   direction, YowNoiseLayer._flush_incoming_buffer (_flush_lock around toUpper).
   A layer chain is the instance "node i calls node i-1".

   A thread is a call stack of frames (head = innermost) plus the list of operations it still
   has to start.  A frame (x, held, pend): node x, `held` = x's lock is held for the call at
   the head of `pend`, `pend` = calls still to make.  All non-top frames are `held` with
   their head call in progress.

   One scheduler action (t, fail): thread t makes its next step; fail=true makes the step
   raise instead (failure oracle: at operation entry, at the entry of any callee before it
   has any effect, or inside a frame's own code between calls).  A raising thread only
   unwinds: each step pops one frame and releases that frame's lock iff `ror x`
   (release_on_raise: try/finally or `with` present at that site).                        *)
From YV Require Import Common.Tac.

Definition upd {A} (f : nat -> A) (k : nat) (v : A) : nat -> A :=
  fun x => if Nat.eqb x k then v else f x.

Fixpoint set_nth {A} (n : nat) (v : A) (l : list A) : list A :=
  match l, n with
  | [], _ => []
  | _ :: r, O => v :: r
  | a :: r, S n' => a :: set_nth n' v r
  end.

Section Chain.
Variable data : Type.
Variable shared : Type.
Variable has_lock : nat -> bool.
Variable ror : nat -> bool.
Variable body : nat -> data -> shared -> shared * list (nat * data).

Record frame := Frame { fnode : nat; fheld : bool; fpend : list (nat * data) }.

(* results: true = the operation returned, false = it raised to the caller; newest last *)
Record thread := Thread { stack : list frame; raising : bool;
                          ops : list (nat * data); results : list bool }.

Record config := Config { locks : nat -> option nat; sh : shared; thr : list thread }.

Inductive label :=
| LStart (x : nat) | LFailStart (x : nat)
| LAcq (x : nat) | LCall (x y : nat) | LFailCall (x y : nat) | LFailHere (x : nat)
| LRet (x : nat) | LDone | LUnwind (x : nat) (released : bool) | LRaised (x : nat) (released : bool).

Definition release (lk : nat -> option nat) (x : nat) : nat -> option nat :=
  if has_lock x then upd lk x None else lk.

(* one step of thread number t *)
Definition tstep (t : nat) (fail : bool) (lk : nat -> option nat) (s : shared) (th : thread)
  : option ((nat -> option nat) * shared * thread * label) :=
  if raising th then
    if fail then None else
    match stack th with
    | [] => None
    | f :: fs =>
      let rel := fheld f && has_lock (fnode f) && ror (fnode f) in
      let lk' := if rel then upd lk (fnode f) None else lk in
      match fs with
      | [] => Some (lk', s, Thread [] false (ops th) (results th ++ [false]), LRaised (fnode f) rel)
      | _ => Some (lk', s, Thread fs true (ops th) (results th), LUnwind (fnode f) rel)
      end
    end
  else
    match stack th with
    | [] =>
      match ops th with
      | [] => None
      | (x, d) :: rest =>
        if fail then Some (lk, s, Thread [] false rest (results th ++ [false]), LFailStart x)
        else let '(s', calls) := body x d s in
             Some (lk, s', Thread [Frame x false calls] false rest (results th), LStart x)
      end
    | f :: fs =>
      if fheld f then
        match fpend f with
        | [] => None
        | (y, d) :: cs =>
          if fail then Some (lk, s, Thread (f :: fs) true (ops th) (results th), LFailCall (fnode f) y)
          else let '(s', calls) := body y d s in
               Some (lk, s', Thread (Frame y false calls :: f :: fs) false (ops th) (results th),
                     LCall (fnode f) y)
        end
      else if fail then Some (lk, s, Thread (f :: fs) true (ops th) (results th), LFailHere (fnode f))
      else
        match fpend f with
        | _ :: _ =>
          if has_lock (fnode f) then
            match lk (fnode f) with
            | None => Some (upd lk (fnode f) (Some t), s,
                            Thread (Frame (fnode f) true (fpend f) :: fs) false (ops th) (results th),
                            LAcq (fnode f))
            | Some _ => None
            end
          else Some (lk, s, Thread (Frame (fnode f) true (fpend f) :: fs) false (ops th) (results th),
                     LAcq (fnode f))
        | [] =>
          match fs with
          | [] => Some (lk, s, Thread [] false (ops th) (results th ++ [true]), LDone)
          | g :: fs' =>
            Some (release lk (fnode g), s,
                  Thread (Frame (fnode g) false (tl (fpend g)) :: fs') false (ops th) (results th),
                  LRet (fnode f))
          end
        end
    end.

Definition exec_l (c : config) (a : nat * bool) : option (config * label) :=
  match nth_error (thr c) (fst a) with
  | None => None
  | Some th =>
    match tstep (fst a) (snd a) (locks c) (sh c) th with
    | None => None
    | Some (lk', s', th', l) => Some (Config lk' s' (set_nth (fst a) th' (thr c)), l)
    end
  end.

Definition exec (c : config) (a : nat * bool) : option config :=
  match exec_l c a with Some (c', _) => Some c' | None => None end.

Fixpoint run (c : config) (acts : list (nat * bool)) : option config :=
  match acts with
  | [] => Some c
  | a :: r => match exec c a with Some c' => run c' r | None => None end
  end.

Definition init (s0 : shared) (opss : list (list (nat * data))) : config :=
  Config (fun _ => None) s0 (map (fun o => Thread [] false o []) opss).

Inductive reach (s0 : shared) (opss : list (list (nat * data))) : config -> Prop :=
| reach_init : reach s0 opss (init s0 opss)
| reach_step c a c' : reach s0 opss c -> exec c a = Some c' -> reach s0 opss c'.

(* failure-free reachability (C11) *)
Inductive reach_nf (s0 : shared) (opss : list (list (nat * data))) : config -> Prop :=
| reach_nf_init : reach_nf s0 opss (init s0 opss)
| reach_nf_step c t c' : reach_nf s0 opss c -> exec c (t, false) = Some c' -> reach_nf s0 opss c'.

Definition holds (th : thread) (l : nat) : Prop :=
  exists f, In f (stack th) /\ fnode f = l /\ fheld f = true.

Definition idle (th : thread) : Prop := stack th = [].
Definition finished (th : thread) : Prop := stack th = [] /\ ops th = [].

End Chain.

Arguments Frame {data}.
Arguments fnode {data}. Arguments fheld {data}. Arguments fpend {data}.
Arguments Thread {data}. Arguments stack {data}. Arguments raising {data}.
Arguments ops {data}. Arguments results {data}.
Arguments Config {data shared}. Arguments locks {data shared}. Arguments sh {data shared}.
Arguments thr {data shared}.
Arguments holds {data}. Arguments idle {data}. Arguments finished {data}.
