(* Inner lock site: table instance of the hypotheses, the leaky witness (a failure handled inside the layer
   leaves the inner lock held) and the same history on the repaired pattern (non-vacuity).            *)
From YV Require Import Common.Tac C12.C12Chain C12.C12Model C12.C12Inst C12.C12Inner.

Lemma find_catch_in x k l calls : find_catch x k l = Some calls -> In (x, k, calls) l.
Proof.
  induction l as [|[[x' k'] c'] l IH]; simpl; [discriminate|].
  destruct (Nat.eqb_spec x x') as [->|Hx]; simpl.
  - destruct (Nat.eqb_spec k k') as [->|Hk]; intros H.
    + inversion H; subst. left; reflexivity.
    + right; auto.
  - intros H. right; auto.
Qed.

Lemma itable_handler_lower T : itable_wf T = true ->
  forall x d h y d', it_handler T x d = Some h -> In (y, d') h -> y < x.
Proof.
  intros W x d h y d' Hh Hin. unfold itable_wf in W. apply andb_prop in W. destruct W as [_ W].
  unfold it_handler in Hh. destruct (find_catch x d (it_catch T)) as [calls|] eqn:E; [|discriminate].
  inversion Hh; subst h; clear Hh. apply in_map_iff in Hin. destruct Hin as (y0 & Ey & Hy).
  inversion Ey; subst y0. apply find_catch_in in E. rewrite forallb_forall in W. specialize (W _ E).
  simpl in W. rewrite forallb_forall in W. apply W in Hy. apply Nat.ltb_lt in Hy. exact Hy.
Qed.

Lemma itable_body_lower T : itable_wf T = true ->
  forall x d s y d', In (y, d') (snd (t_body (it_rows T) x d s)) -> y < x.
Proof.
  intros W. unfold itable_wf in W. apply andb_prop in W. destruct W as [W _]. exact (table_body_lower _ W).
Qed.

Lemma ireach_run {data shared} hl rr re bd hd s0 opss c acts c' :
  ireach data shared hl rr re bd hd s0 opss c -> irun data shared hl rr re bd hd c acts = Some c' ->
  ireach data shared hl rr re bd hd s0 opss c'.
Proof.
  revert c. induction acts as [|a r IH]; intros c R H; simpl in H.
  - inversion H; subst; exact R.
  - destruct (iexec data shared hl rr re bd hd c a) as [c1|] eqn:E; [|discriminate].
    apply (IH c1); [eapply ireach_step; eauto|exact H].
Qed.

(* ---- a small stack with an inner site ----
     0  the cipher work itself (no lock, makes no call)
     1  the INNER LOCK SITE around it (release_on_raise r, re-entrant iff re)
     2  the layer below (leaf)
     3  the axolotl layer's toLower site (lock, releases on raise)
     4  the axolotl layer's send: cipher work (1), then hand the result down (3)
     5  the application layer's toLower site (lock, releases on raise)
     6  the application's send: down through 5
     7  the axolotl layer's receive: cipher work (1), then deliver upward (nothing to model);
        for kind 1 (a message that cannot be decrypted) its handler sends a retry receipt down (3)   *)
Definition inner_rows (r : bool) : table :=
  [ NodeInfo false true [] []; NodeInfo true r [0] []; NodeInfo false true [] [];
    NodeInfo true true [2] []; NodeInfo false true [1; 3] []; NodeInfo true true [4] [];
    NodeInfo false true [5] []; NodeInfo false true [1] [] ].
Definition inner_table (r re : bool) : itable :=
  ITable (inner_rows r) (if re then [1] else []) [(7, 1, [3])].

(* thread 0 = the thread that reads the socket: an undecryptable message (kind 1), then a good one;
   thread 1 = the application: one message *)
Definition inner_ops : list (list (nat * nat)) := [[(7, 1); (7, 0)]; [(6, 0)]].

(* thread 0: enter 7, call 1, take the inner lock, the cipher work raises, unwind 1 (lock kept iff r = false),
   7's handler catches, retry receipt down through 3 and 2, back, done.  Then its second message: the inner lock
   again (re-entrant: fine), cipher work, back, done.  Thread 1: 6, 5 (lock), 4, 1: wants the inner lock. *)
Definition inner_acts0 : list (nat * bool) :=
  [(0, false); (0, false); (0, false); (0, false); (0, true); (0, false); (0, false);
   (0, false); (0, false); (0, false); (0, false); (0, false); (0, false); (0, false)].
Definition inner_acts0b : list (nat * bool) :=
  [(0, false); (0, false); (0, false); (0, false); (0, false); (0, false); (0, false); (0, false)].
Definition inner_acts1 : list (nat * bool) :=
  [(1, false); (1, false); (1, false); (1, false); (1, false); (1, false); (1, false)].

Definition inner_cfg (r re : bool) (acts : list (nat * bool)) : iconfig nat (list nat) :=
  match it_run (inner_table r re) (it_init inner_ops) acts with Some c => c | None => it_init [] end.

Lemma inner_cfg_reach r re acts :
  it_run (inner_table r re) (it_init inner_ops) acts <> None ->
  it_reach (inner_table r re) inner_ops (inner_cfg r re acts).
Proof.
  unfold inner_cfg, it_reach, it_run. intros H.
  destruct (irun _ _ _ _ _ _ _ (it_init inner_ops) acts) as [c|] eqn:E; [|congruence].
  eapply ireach_run; [apply ireach_init|exact E].
Qed.

(* The leaky inner site (acquire; yield; release without try/finally, re-entrant lock), the failure HANDLED by
   the layer: both operations of thread 0 returned normally -- nobody was told about a failure, and the thread
   that failed keeps working (its second message took the re-entrant lock again) -- yet it owns the inner lock;
   thread 1's send is stuck at the inner site with the application layer's lock 5 in its hands, and no thread
   can ever move again. *)
Theorem inner_leaky_refuted_thm :
  exists c th0 th1, it_reach (inner_table false true) inner_ops c /\
    nth_error (ithr c) 0 = Some th0 /\ nth_error (ithr c) 1 = Some th1 /\
    ifinished th0 /\ iresults th0 = [true; true] /\
    ilocks c 1 = Some (0, 0) /\
    ~ ifinished th1 /\ ilocks c 5 = Some (1, 0) /\
    forall t, it_exec (inner_table false true) c (t, false) = None.
Proof.
  pose (acts := inner_acts0 ++ inner_acts0b ++ inner_acts1).
  pose (c := inner_cfg false true acts).
  assert (R : it_reach (inner_table false true) inner_ops c).
  { apply inner_cfg_reach. vm_compute. discriminate. }
  destruct (nth_error (ithr c) 0) as [th0|] eqn:E0; [|vm_compute in E0; discriminate].
  destruct (nth_error (ithr c) 1) as [th1|] eqn:E1; [|vm_compute in E1; discriminate].
  exists c, th0, th1. split; [exact R|].
  vm_compute in E0. vm_compute in E1. inversion E0; subst th0. inversion E1; subst th1.
  split; [reflexivity|]. split; [reflexivity|]. split; [split; reflexivity|]. split; [reflexivity|].
  split; [reflexivity|]. split; [intros [H _]; discriminate|]. split; [reflexivity|].
  intros [|[|t]]; [vm_compute; reflexivity|vm_compute; reflexivity|].
  unfold it_exec, iexec. cbn [fst].
  replace (nth_error (ithr c) (S (S t))) with (@None (ithread nat)); [reflexivity|].
  destruct t; reflexivity.
Qed.

(* a plain (not re-entrant) leaky inner lock: the thread that failed blocks itself on its next message *)
Theorem inner_leaky_plain_lock_thm :
  exists c th0, it_reach (inner_table false false) inner_ops c /\
    nth_error (ithr c) 0 = Some th0 /\ iresults th0 = [true] /\ ~ ifinished th0 /\
    ilocks c 1 = Some (0, 0) /\ it_exec (inner_table false false) c (0, false) = None.
Proof.
  pose (acts := inner_acts0 ++ [(0, false); (0, false); (0, false)]).
  pose (c := inner_cfg false false acts).
  assert (R : it_reach (inner_table false false) inner_ops c).
  { apply inner_cfg_reach. vm_compute. discriminate. }
  destruct (nth_error (ithr c) 0) as [th0|] eqn:E0; [|vm_compute in E0; discriminate].
  exists c, th0. split; [exact R|]. vm_compute in E0. inversion E0; subst th0.
  split; [reflexivity|]. split; [reflexivity|]. split; [intros [H _]; discriminate|].
  split; [reflexivity|]. vm_compute. reflexivity.
Qed.

(* ---- the same history with release-on-raise at the inner site (try/finally, `with lock:`): non-vacuity ---- *)
Example inner_fixed_run :
  itable_wf (inner_table true true) = true /\ table_ror_all (it_rows (inner_table true true)) = true /\
  exists c th0 th1, it_reach (inner_table true true) inner_ops c /\
    nth_error (ithr c) 0 = Some th0 /\ nth_error (ithr c) 1 = Some th1 /\
    ifinished th0 /\ iresults th0 = [true; true] /\ ifinished th1 /\ iresults th1 = [true] /\
    (forall l, l < 8 -> ilocks c l = None) /\
    ish c = [7; 1; 3; 2; 7; 1; 0; 6; 5; 4; 1; 0; 3; 2].
Proof.
  split; [reflexivity|]. split; [reflexivity|].
  pose (acts := inner_acts0 ++ inner_acts0b ++ inner_acts1 ++
                [(1, false); (1, false); (1, false); (1, false); (1, false); (1, false); (1, false); (1, false);
                 (1, false); (1, false); (1, false); (1, false); (1, false)]).
  pose (c := inner_cfg true true acts).
  assert (R : it_reach (inner_table true true) inner_ops c).
  { apply inner_cfg_reach. vm_compute. discriminate. }
  destruct (nth_error (ithr c) 0) as [th0|] eqn:E0; [|vm_compute in E0; discriminate].
  destruct (nth_error (ithr c) 1) as [th1|] eqn:E1; [|vm_compute in E1; discriminate].
  exists c, th0, th1. split; [exact R|].
  vm_compute in E0. vm_compute in E1. inversion E0; subst th0. inversion E1; subst th1.
  split; [reflexivity|]. split; [reflexivity|]. split; [split; reflexivity|]. split; [reflexivity|].
  split; [split; reflexivity|]. split; [reflexivity|]. split.
  - intros l Hl. do 8 (destruct l as [|l]; [vm_compute; reflexivity|]). lia.
  - vm_compute. reflexivity.
Qed.
