(* C12 instance of the lock-chain model: a call graph given as a table (one row per node:
   has a lock?, releases it when a callee raises?, callees in call order).  The harness builds
   the table from the layer list of the real stack (downward chain: layer i calls layer i-1
   under its own lock; upward chain: receive calls the next layer's receive without a lock,
   except the noise layer's _flush_lock; a handler that answers calls into the downward
   chain).  Data is irrelevant for C12 (unit); the shared state is the log of entered nodes. *)
From YV Require Import Common.Tac C12.C12Chain.

(* ni_calls: callees for the default kind of datum; ni_special: callees for particular kinds
   (e.g. the protocol layer answers a server ping downward instead of passing it upward) *)
Record nodeinfo := NodeInfo { ni_lock : bool; ni_ror : bool; ni_calls : list nat;
                              ni_special : list (nat * list nat) }.
Definition table := list nodeinfo.

Definition t_info (T : table) (x : nat) : nodeinfo :=
  match nth_error T x with Some n => n | None => NodeInfo false true [] [] end.
Definition t_has_lock (T : table) (x : nat) : bool := ni_lock (t_info T x).
Definition t_ror (T : table) (x : nat) : bool := ni_ror (t_info T x).
Fixpoint lookup (k : nat) (l : list (nat * list nat)) : option (list nat) :=
  match l with
  | [] => None
  | (k', v) :: r => if Nat.eqb k k' then Some v else lookup k r
  end.
Definition calls_for (n : nodeinfo) (k : nat) : list nat :=
  match lookup k (ni_special n) with Some l => l | None => ni_calls n end.
(* the datum is the kind of stanza; it is handed on unchanged *)
Definition t_body (T : table) (x : nat) (k : nat) (s : list nat) : list nat * list (nat * nat) :=
  (s ++ [x], map (fun y => (y, k)) (calls_for (t_info T x) k)).

Fixpoint wf_from (x : nat) (T : table) : bool :=
  match T with
  | [] => true
  | n :: r => forallb (fun y => Nat.ltb y x) (ni_calls n) &&
              forallb (fun kv => forallb (fun y => Nat.ltb y x) (snd kv)) (ni_special n) &&
              wf_from (S x) r
  end.
Definition table_wf (T : table) : bool := wf_from 0 T.
Definition table_ror_all (T : table) : bool := forallb ni_ror T.

Definition t_exec (T : table) := exec nat (list nat) (t_has_lock T) (t_ror T) (t_body T).
Definition t_exec_l (T : table) := exec_l nat (list nat) (t_has_lock T) (t_ror T) (t_body T).
Definition t_run (T : table) := run nat (list nat) (t_has_lock T) (t_ror T) (t_body T).
(* operations: (entry node, kind) *)
Definition t_init (opss : list (list (nat * nat))) : config nat (list nat) :=
  init nat (list nat) [] opss.
Definition t_reach (T : table) (opss : list (list (nat * nat))) :=
  reach nat (list nat) (t_has_lock T) (t_ror T) (t_body T) [] opss.

(* a plain chain of n+1 layers, all with the given release_on_raise *)
Fixpoint chain_from (x : nat) (n : nat) (r : bool) : table :=
  match n with
  | O => []
  | S n' => NodeInfo true r (match x with O => [] | S p => [p] end) [] :: chain_from (S x) n' r
  end.
Definition chain (n : nat) (r : bool) : table := chain_from 0 n r.

(* ---- sequential driver used by the correspondence (glue, not part of any theorem) ---- *)
(* next call target of a thread: Some y if its next non-failing step enters node y *)
Definition next_entry (th : thread nat) : option nat :=
  if raising th then None else
  match stack th with
  | [] => match ops th with (x, _) :: _ => Some x | [] => None end
  | f :: _ => if fheld f then match fpend f with (y, _) :: _ => Some y | [] => None end else None
  end.

(* node whose own code the thread is running (top frame, lock not held) *)
Definition inside (th : thread nat) : option nat :=
  if raising th then None else
  match stack th with
  | f :: _ => if fheld f then None else Some (fnode f)
  | [] => None
  end.

(* drive thread t until its current/next operation is over.  failspec = Some (y, k, m): the k-th
   entry into node y during this operation raises -- m = 0: at entry, before any effect;
   m > 0: inside y's own code right after entry.  Returns the configuration and
   0 = returned, 1 = raised, 2 = blocked on a lock, 3 = out of fuel / no such thread *)
Fixpoint drive (T : table) (fuel : nat) (t : nat) (failspec : option (nat * nat * nat)) (seen : nat)
         (nres : nat) (c : config nat (list nat)) : config nat (list nat) * nat :=
  match fuel with
  | O => (c, 3)
  | S fuel' =>
    match nth_error (thr c) t with
    | None => (c, 3)
    | Some th =>
      if Nat.ltb nres (length (results th)) then
        (c, if last (results th) true then 0 else 1)
      else
        let '(fail, seen') :=
          match failspec with
          | Some (y, k, O) =>
            match next_entry th with
            | Some y' => if Nat.eqb y y' then (Nat.eqb seen k, S seen) else (false, seen)
            | None => (false, seen)
            end
          | Some (y, k, S _) =>
            match next_entry th, inside th with
            | Some y', _ => if Nat.eqb y y' then (false, S seen) else (false, seen)
            | None, Some y' => if Nat.eqb y y' && Nat.eqb seen (S k) then (true, S seen) else (false, seen)
            | None, None => (false, seen)
            end
          | None => (false, seen)
          end in
        match t_exec T c (t, fail) with
        | None => (c, 2)
        | Some c' => drive T fuel' t failspec seen' nres c'
        end
    end
  end.
