(* C12: the facts of C12Proofs.v for the generalised lock-chain model C12Inner.v (handlers that catch a
   callee's failure, re-entrant locks), the conservativity of the generalisation (with no handler and
   no re-entrant lock C12Inner.v IS C12Chain.v, step by step), and how failures are reported or handled. *)
From YV Require Import Common.Tac C12.C12Chain C12.C12Proofs C12.C12Inner.

Lemma set_nth_in {A} (l : list A) t v a : In a (set_nth t v l) -> a = v \/ In a l.
Proof.
  revert t; induction l as [|b l IH]; intros [|t] H; simpl in *; auto.
  - destruct H as [H|H]; auto.
  - destruct H as [H|H]; auto. destruct (IH _ H); auto.
Qed.

Lemma set_nth_map {A B} (g : A -> B) (l : list A) t v : set_nth t (g v) (map g l) = map g (set_nth t v l).
Proof. revert t; induction l as [|b l IH]; intros [|t]; simpl; auto. rewrite IH. reflexivity. Qed.

Lemma nth_error_map' {A B} (g : A -> B) (l : list A) t :
  nth_error (map g l) t = match nth_error l t with Some a => Some (g a) | None => None end.
Proof. revert t; induction l as [|b l IH]; intros [|t]; simpl; auto. Qed.

(* ---------- specification of one thread step, one constructor per case ---------- *)
Section InnerSpec.
Variable data shared : Type.
Variable has_lock ror reent : nat -> bool.
Variable body : nat -> data -> shared -> shared * list (nat * data).
Variable handler : nat -> data -> option (list (nat * data)).

Notation iframe := (iframe data).
Notation ithread := (ithread data).
Notation iconfig := (iconfig data shared).
Notation itstep := (itstep data shared has_lock ror reent body handler).
Notation iexec := (iexec data shared has_lock ror reent body handler).
Notation ifinish := (ifinish data).
Notation irelease := (irelease has_lock).

(* the lock table after the frame f was popped by a raising thread *)
Definition unwind_lk (lk : nat -> option (nat * nat)) (f : iframe) : nat -> option (nat * nat) :=
  if iheld f && has_lock (inode f) && ror (inode f) then unlock lk (inode f) else lk.

Inductive ispec (t : nat) (lk : nat -> option (nat * nat)) (s : shared) (th : ithread)
  : bool -> (nat -> option (nat * nat)) -> shared -> ithread -> Prop :=
| I_unwind_last f
    (Hm : imode th <> RNo) (Hc : imode th = RCallee -> icatch f = None) (Es : istack th = [f]) :
    ispec t lk s th false (unwind_lk lk f) s (ifinish th false)
| I_unwind f g fs
    (Hm : imode th <> RNo) (Hc : imode th = RCallee -> icatch f = None) (Es : istack th = f :: g :: fs) :
    ispec t lk s th false (unwind_lk lk f) s (IThread (g :: fs) RCallee (iops th) (iresults th))
| I_catch f fs h
    (Hm : imode th = RCallee) (Es : istack th = f :: fs) (Ec : icatch f = Some h) :
    ispec t lk s th false (unwind_lk lk f) s
      (IThread (IFrame (inode f) false h None :: fs) RNo (iops th) (iresults th))
| I_failstart x d rest
    (Hm : imode th = RNo) (Es : istack th = []) (Eo : iops th = (x, d) :: rest) :
    ispec t lk s th true lk s (IThread [] RNo rest (iresults th ++ [false]))
| I_start x d rest s' calls
    (Hm : imode th = RNo) (Es : istack th = []) (Eo : iops th = (x, d) :: rest)
    (Eb : body x d s = (s', calls)) :
    ispec t lk s th false lk s' (IThread [IFrame x false calls (handler x d)] RNo rest (iresults th))
| I_failcall f fs y d cs
    (Hm : imode th = RNo) (Es : istack th = f :: fs) (Eh : iheld f = true) (Ep : ipend f = (y, d) :: cs) :
    ispec t lk s th true lk s (IThread (f :: fs) RCallee (iops th) (iresults th))
| I_call f fs y d cs s' calls
    (Hm : imode th = RNo) (Es : istack th = f :: fs) (Eh : iheld f = true) (Ep : ipend f = (y, d) :: cs)
    (Eb : body y d s = (s', calls)) :
    ispec t lk s th false lk s'
      (IThread (IFrame y false calls (handler y d) :: f :: fs) RNo (iops th) (iresults th))
| I_failhere f fs
    (Hm : imode th = RNo) (Es : istack th = f :: fs) (Eh : iheld f = false) :
    ispec t lk s th true lk s (IThread (f :: fs) ROwn (iops th) (iresults th))
| I_acq_free f fs c cs
    (Hm : imode th = RNo) (Es : istack th = f :: fs) (Eh : iheld f = false) (Ep : ipend f = c :: cs)
    (Ehl : has_lock (inode f) = true) (El : lk (inode f) = None) :
    ispec t lk s th false (upd lk (inode f) (Some (t, 0))) s
      (IThread (IFrame (inode f) true (ipend f) (icatch f) :: fs) RNo (iops th) (iresults th))
| I_acq_re f fs c cs k
    (Hm : imode th = RNo) (Es : istack th = f :: fs) (Eh : iheld f = false) (Ep : ipend f = c :: cs)
    (Ehl : has_lock (inode f) = true) (El : lk (inode f) = Some (t, k)) (Ere : reent (inode f) = true) :
    ispec t lk s th false (upd lk (inode f) (Some (t, S k))) s
      (IThread (IFrame (inode f) true (ipend f) (icatch f) :: fs) RNo (iops th) (iresults th))
| I_acq_nolock f fs c cs
    (Hm : imode th = RNo) (Es : istack th = f :: fs) (Eh : iheld f = false) (Ep : ipend f = c :: cs)
    (Ehl : has_lock (inode f) = false) :
    ispec t lk s th false lk s
      (IThread (IFrame (inode f) true (ipend f) (icatch f) :: fs) RNo (iops th) (iresults th))
| I_done f
    (Hm : imode th = RNo) (Es : istack th = [f]) (Eh : iheld f = false) (Ep : ipend f = []) :
    ispec t lk s th false lk s (ifinish th true)
| I_ret f g fs
    (Hm : imode th = RNo) (Es : istack th = f :: g :: fs) (Eh : iheld f = false) (Ep : ipend f = []) :
    ispec t lk s th false (irelease lk (inode g)) s
      (IThread (IFrame (inode g) false (tl (ipend g)) (icatch g) :: fs) RNo (iops th) (iresults th)).

Lemma itstep_spec t fail lk s th lk' s' th' :
  itstep t fail lk s th = Some (lk', s', th') -> ispec t lk s th fail lk' s' th'.
Proof.
  unfold C12Inner.itstep. intros H.
  destruct (imode th) eqn:Em.
  - destruct (istack th) as [|f fs] eqn:Es.
    + destruct (iops th) as [|[x d] rest] eqn:Eo; [discriminate|].
      destruct fail.
      * inversion H; subst; clear H. eapply I_failstart; eauto.
      * destruct (body x d s) as [s1 calls] eqn:Eb. inversion H; subst; clear H.
        eapply I_start; eauto.
    + destruct (iheld f) eqn:Eh.
      * destruct (ipend f) as [|[y d] cs] eqn:Ep; [discriminate|].
        destruct fail.
        -- inversion H; subst; clear H. eapply I_failcall; eauto.
        -- destruct (body y d s) as [s1 calls] eqn:Eb. inversion H; subst; clear H.
           eapply I_call; eauto.
      * destruct fail.
        -- inversion H; subst; clear H. eapply I_failhere; eauto.
        -- destruct (ipend f) as [|c cs] eqn:Ep.
           ++ destruct fs as [|g fs']; inversion H; subst; clear H.
              ** eapply I_done; eauto.
              ** eapply I_ret; eauto.
           ++ destruct (has_lock (inode f)) eqn:Ehl.
              ** unfold C12Inner.try_acquire in H.
                 destruct (lk (inode f)) as [[o k]|] eqn:El.
                 --- destruct (reent (inode f)) eqn:Ere; [|discriminate]. cbn [andb] in H.
                     destruct (Nat.eqb_spec o t) as [->|Hne]; [|discriminate].
                     inversion H; subst; clear H. rewrite <- Ep. eapply I_acq_re; eauto.
                 --- inversion H; subst; clear H. rewrite <- Ep. eapply I_acq_free; eauto.
              ** inversion H; subst; clear H. rewrite <- Ep. eapply I_acq_nolock; eauto.
  - destruct fail; [discriminate|].
    destruct (istack th) as [|f fs] eqn:Es; [discriminate|].
    destruct fs as [|g fs]; inversion H; subst; clear H.
    + eapply I_unwind_last; eauto; congruence.
    + eapply I_unwind; eauto; congruence.
  - destruct fail; [discriminate|].
    destruct (istack th) as [|f fs] eqn:Es; [discriminate|].
    destruct (icatch f) as [h|] eqn:Ec.
    + inversion H; subst; clear H. eapply I_catch; eauto.
    + destruct fs as [|g fs]; inversion H; subst; clear H.
      * eapply I_unwind_last; eauto; congruence.
      * eapply I_unwind; eauto; congruence.
Qed.

Lemma iexec_inv c a c' :
  iexec c a = Some c' ->
  exists th lk' s' th', nth_error (ithr c) (fst a) = Some th /\
    ispec (fst a) (ilocks c) (ish c) th (snd a) lk' s' th' /\
    c' = IConfig lk' s' (set_nth (fst a) th' (ithr c)).
Proof.
  unfold C12Inner.iexec. intros H.
  destruct (nth_error (ithr c) (fst a)) as [th|] eqn:En; [|discriminate].
  destruct (C12Inner.itstep _ _ _ _ _ _ _ _ _ _ _ _) as [[[lk' s'] th']|] eqn:Et; [|discriminate].
  inversion H; subst; clear H. apply itstep_spec in Et. eauto 10.
Qed.

Lemma unlock_neq (lk : nat -> option (nat * nat)) x l : l <> x -> unlock lk x l = lk l.
Proof.
  intros H. unfold unlock. destruct (lk x) as [[o [|k]]|]; unfold upd; destruct (Nat.eqb_spec l x); congruence.
Qed.

Lemma unlock_eq (lk : nat -> option (nat * nat)) x :
  unlock lk x x = None \/ exists o k, lk x = Some (o, S k) /\ unlock lk x x = Some (o, k).
Proof.
  unfold unlock. destruct (lk x) as [[o [|k]]|] eqn:E; unfold upd; rewrite Nat.eqb_refl; eauto.
Qed.

End InnerSpec.

(* ---------- stack shape, lock ownership, no leak, deadlock freedom ---------- *)
Section InnerProofs.
Variable data shared : Type.
Variable has_lock ror reent : nat -> bool.
Variable body : nat -> data -> shared -> shared * list (nat * data).
Variable handler : nat -> data -> option (list (nat * data)).
Hypothesis body_lower : forall x d s y d', In (y, d') (snd (body x d s)) -> y < x.
Hypothesis handler_lower : forall x d h y d', handler x d = Some h -> In (y, d') h -> y < x.
Notation iexec := (iexec data shared has_lock ror reent body handler).
Notation ireach := (ireach data shared has_lock ror reent body handler).
Notation iframe := (iframe data).
Notation ithread := (ithread data).
Notation iconfig := (iconfig data shared).
Notation itstep := (itstep data shared has_lock ror reent body handler).
Notation ispec := (ispec data shared has_lock ror reent body handler).
Notation unwind_lk := (unwind_lk data has_lock ror).
Notation irelease := (irelease has_lock).

Definition ipend_lower (f : iframe) : Prop := Forall (fun c => fst c < inode f) (ipend f).
Definition icatch_lower (f : iframe) : Prop :=
  forall h, icatch f = Some h -> Forall (fun c => fst c < inode f) h.

Fixpoint iwf_inner (callee : nat) (st : list iframe) : Prop :=
  match st with
  | [] => True
  | g :: rest => iheld g = true /\ (exists d cs, ipend g = (callee, d) :: cs) /\
                 ipend_lower g /\ iwf_inner (inode g) rest
  end.

Definition iwf_stack (st : list iframe) : Prop :=
  match st with
  | [] => True
  | f :: rest => ipend_lower f /\ (iheld f = true -> ipend f <> []) /\ iwf_inner (inode f) rest
  end.

Definition iwf_thread (th : ithread) : Prop :=
  iwf_stack (istack th) /\ Forall icatch_lower (istack th) /\ (imode th <> RNo -> istack th <> []).

Lemma iwf_inner_gt : forall st k, iwf_inner k st -> forall g, In g st -> k < inode g.
Proof.
  induction st as [|g st IH]; intros k H g' Hin; [contradiction|].
  destruct H as (_ & (d & cs & Ep) & Hl & Hr).
  assert (Hk : k < inode g).
  { unfold ipend_lower in Hl. rewrite Ep in Hl. apply Forall_inv in Hl. exact Hl. }
  destruct Hin as [->|Hin]; [exact Hk|]. specialize (IH _ Hr _ Hin). lia.
Qed.

Definition iheld_nodes (st : list iframe) : list nat := map (@inode data) (filter (@iheld data) st).

Lemma iheld_nodes_in st l : In l (iheld_nodes st) <-> exists f, In f st /\ inode f = l /\ iheld f = true.
Proof.
  unfold iheld_nodes. rewrite in_map_iff. split.
  - intros (f & E & Hin). apply filter_In in Hin. exists f. tauto.
  - intros (f & Hin & E & Hh). exists f. split; [exact E|]. apply filter_In. tauto.
Qed.

Lemma iholds_iff th l : iholds th l <-> In l (iheld_nodes (istack th)).
Proof. unfold iholds. rewrite iheld_nodes_in. tauto. Qed.

Lemma iheld_nodes_gt st k : iwf_inner k st -> forall l, In l (iheld_nodes st) -> k < l.
Proof.
  intros H l Hl. apply iheld_nodes_in in Hl. destruct Hl as (f & Hin & <- & _).
  eapply iwf_inner_gt; eauto.
Qed.

Lemma iheld_cons f st :
  iheld_nodes (f :: st) = if iheld f then inode f :: iheld_nodes st else iheld_nodes st.
Proof. unfold iheld_nodes. simpl. destruct (iheld f); reflexivity. Qed.

Ltac norno := let Hc := fresh in intros Hc; exfalso; apply Hc; reflexivity.

Lemma ispec_wf t lk s th fail lk' s' th' :
  ispec t lk s th fail lk' s' th' -> iwf_thread th -> iwf_thread th'.
Proof.
  intros H (W & C & R). destruct H; unfold iwf_thread, C12Inner.ifinish; cbn [istack imode].
  - split; [exact I|]. split; [constructor|norno].
  - rewrite Es in W, C. destruct W as (_ & _ & (Hh & (d & cs & Ep) & Hl & Hr)).
    apply Forall_inv_tail in C. split; [|split; [exact C|discriminate]].
    split; [exact Hl|]. split; [|exact Hr]. intros _. rewrite Ep. discriminate.
  - rewrite Es in W, C. destruct W as (_ & _ & Hr).
    pose proof (Forall_inv C) as Cf. apply Forall_inv_tail in C.
    split; [|split; [|norno]].
    + split; [|split; [discriminate|exact Hr]]. unfold ipend_lower. cbn [ipend inode]. apply Cf. exact Ec.
    + constructor; [|exact C]. intros h0 E0. cbn [icatch] in E0. discriminate.
  - split; [exact I|]. split; [constructor|norno].
  - split; [|split; [|norno]].
    + split; [|split; [discriminate|exact I]].
      unfold ipend_lower; cbn [ipend inode]. apply Forall_forall. intros [y d'] Hin. cbn [fst].
      eapply body_lower with (x := x) (d := d) (s := s). rewrite Eb. exact Hin.
    + constructor; [|constructor]. intros h E0. cbn [icatch inode] in *.
      apply Forall_forall. intros [y d'] Hin. cbn [fst]. eapply handler_lower; eauto.
  - rewrite Es in W, C. split; [exact W|]. split; [exact C|discriminate].
  - rewrite Es in W, C. destruct W as (Hl & Hne & Hr). split; [|split; [|norno]].
    + split; [|split; [discriminate|]].
      * unfold ipend_lower; cbn [ipend inode]. apply Forall_forall. intros [y' d'] Hin. cbn [fst].
        eapply body_lower with (x := y) (d := d) (s := s). rewrite Eb. exact Hin.
      * cbn [iwf_inner inode]. split; [exact Eh|]. split; [eauto|]. split; [exact Hl|exact Hr].
    + constructor; [|exact C]. intros h E0. cbn [icatch inode] in *.
      apply Forall_forall. intros [y' d'] Hin. cbn [fst]. eapply handler_lower; eauto.
  - rewrite Es in W, C. split; [exact W|]. split; [exact C|discriminate].
  - rewrite Es in W, C. destruct W as (Hl & Hne & Hr). split; [|split; [|norno]].
    + split; [exact Hl|]. split; [|exact Hr]. cbn [ipend]. intros _. rewrite Ep. discriminate.
    + constructor; [exact (Forall_inv C)|exact (Forall_inv_tail C)].
  - rewrite Es in W, C. destruct W as (Hl & Hne & Hr). split; [|split; [|norno]].
    + split; [exact Hl|]. split; [|exact Hr]. cbn [ipend]. intros _. rewrite Ep. discriminate.
    + constructor; [exact (Forall_inv C)|exact (Forall_inv_tail C)].
  - rewrite Es in W, C. destruct W as (Hl & Hne & Hr). split; [|split; [|norno]].
    + split; [exact Hl|]. split; [|exact Hr]. cbn [ipend]. intros _. rewrite Ep. discriminate.
    + constructor; [exact (Forall_inv C)|exact (Forall_inv_tail C)].
  - split; [exact I|]. split; [constructor|norno].
  - rewrite Es in W, C. destruct W as (_ & _ & (Hh & (d & cs & Ep') & Hl & Hr)).
    apply Forall_inv_tail in C. split; [|split; [|norno]].
    + split; [|split; [discriminate|exact Hr]].
      unfold ipend_lower in *; cbn [ipend inode]. rewrite Ep' in *. cbn [tl]. exact (Forall_inv_tail Hl).
    + constructor; [exact (Forall_inv C)|exact (Forall_inv_tail C)].
Qed.

(* ---------- invariants on configurations ---------- *)
Definition iinv_wf (c : iconfig) : Prop := forall t th, nth_error (ithr c) t = Some th -> iwf_thread th.

Lemma iinv_wf_step c a c' : iexec c a = Some c' -> iinv_wf c -> iinv_wf c'.
Proof.
  intros H I. apply iexec_inv in H. destruct H as (th & lk' & s' & th' & En & Hs & ->).
  intros t2 th2 E2. cbn [ithr] in E2. destruct (Nat.eq_dec t2 (fst a)) as [->|Hne].
  - rewrite (nth_set_eq _ _ _ _ En) in E2. apply Some_inj in E2. subst th2. eapply ispec_wf; eauto.
  - rewrite nth_set_neq in E2 by exact Hne. eauto.
Qed.

(* whoever holds a lock in a frame is its registered owner (so: mutual exclusion) *)
Definition iinv_a (c : iconfig) : Prop :=
  forall t th l, nth_error (ithr c) t = Some th -> In l (iheld_nodes (istack th)) ->
                 has_lock l = true -> exists k, ilocks c l = Some (t, k).

Lemma iinv_a_same c t th th' s' :
  iinv_a c -> nth_error (ithr c) t = Some th ->
  (forall l, has_lock l = true -> In l (iheld_nodes (istack th')) -> In l (iheld_nodes (istack th))) ->
  iinv_a (IConfig (ilocks c) s' (set_nth t th' (ithr c))).
Proof.
  intros I En Hsub t2 th2 l E2 Hin Hl. cbn [ilocks ithr] in *. destruct (Nat.eq_dec t2 t) as [->|Hne].
  - rewrite (nth_set_eq _ _ _ _ En) in E2. apply Some_inj in E2. subst th2. eapply I; eauto.
  - rewrite nth_set_neq in E2 by exact Hne. eapply I; eauto.
Qed.

(* the table changes at x only; x was free or owned by the stepping thread *)
Lemma iinv_a_chg c t th th' s' lk' x :
  iinv_a c -> nth_error (ithr c) t = Some th -> has_lock x = true ->
  (forall l, l <> x -> lk' l = ilocks c l) ->
  (ilocks c x = None \/ exists k, ilocks c x = Some (t, k)) ->
  (forall l, has_lock l = true -> In l (iheld_nodes (istack th')) ->
     (l = x /\ exists k, lk' x = Some (t, k)) \/ (l <> x /\ In l (iheld_nodes (istack th)))) ->
  iinv_a (IConfig lk' s' (set_nth t th' (ithr c))).
Proof.
  intros I En Hx Hfr Hown Hsub t2 th2 l E2 Hin Hl. cbn [ilocks ithr] in *.
  destruct (Nat.eq_dec t2 t) as [->|Hne].
  - rewrite (nth_set_eq _ _ _ _ En) in E2. apply Some_inj in E2. subst th2.
    destruct (Hsub _ Hl Hin) as [[-> Hk]|[Hlx Hold]]; [exact Hk|]. rewrite Hfr by exact Hlx. eapply I; eauto.
  - rewrite nth_set_neq in E2 by exact Hne.
    destruct (Nat.eq_dec l x) as [->|Hlx].
    + destruct (I _ _ _ E2 Hin Hl) as [k Hk]. destruct Hown as [Hn|[k' Hk']]; congruence.
    + rewrite Hfr by exact Hlx. eapply I; eauto.
Qed.

Lemma upd_neq {A} (f : nat -> A) x v l : l <> x -> upd f x v l = f l.
Proof. intros H. unfold upd. destruct (Nat.eqb_spec l x); congruence. Qed.

Lemma upd_eq {A} (f : nat -> A) x v : upd f x v x = v.
Proof. unfold upd. rewrite Nat.eqb_refl. reflexivity. Qed.

(* a raising thread pops its top frame *)
Lemma iinv_a_pop c t th th' s' f fs :
  iinv_a c -> nth_error (ithr c) t = Some th -> istack th = f :: fs -> iwf_inner (inode f) fs ->
  (forall l, In l (iheld_nodes (istack th')) -> In l (iheld_nodes fs)) ->
  iinv_a (IConfig (unwind_lk (ilocks c) f) s' (set_nth t th' (ithr c))).
Proof.
  intros I En Es Wi Hsub.
  assert (Hold : forall l, In l (iheld_nodes fs) -> l <> inode f /\ In l (iheld_nodes (istack th))).
  { intros l Hin. split.
    - pose proof (iheld_nodes_gt _ _ Wi _ Hin). lia.
    - rewrite Es, iheld_cons. destruct (iheld f); [right|]; exact Hin. }
  unfold C12InnerProofs.unwind_lk.
  destruct (iheld f && has_lock (inode f) && ror (inode f)) eqn:Erel.
  - apply andb_prop in Erel. destruct Erel as [Erel _]. apply andb_prop in Erel. destruct Erel as [Eh Ehl].
    eapply iinv_a_chg with (x := inode f); [exact I|exact En|exact Ehl| | |].
    + intros l Hne. apply unlock_neq. exact Hne.
    + right. eapply I; eauto. rewrite Es, iheld_cons, Eh. left; reflexivity.
    + intros l _ Hin. right. apply Hold. apply Hsub. exact Hin.
  - eapply iinv_a_same; eauto. intros l _ Hin. apply Hold. apply Hsub. exact Hin.
Qed.

Lemma iinv_a_step c a c' : iexec c a = Some c' -> iinv_wf c -> iinv_a c -> iinv_a c'.
Proof.
  intros H W I. apply iexec_inv in H. destruct H as (th & lk' & s' & th' & En & Hs & ->).
  pose proof (W _ _ En) as (Wst & _ & _).
  destruct Hs; unfold C12Inner.ifinish.
  - eapply iinv_a_pop; eauto. exact Logic.I.
  - rewrite Es in Wst. destruct Wst as (_ & _ & Wi). eapply iinv_a_pop; eauto.
  - rewrite Es in Wst. destruct Wst as (_ & _ & Wi). eapply iinv_a_pop; eauto.
  - eapply iinv_a_same; eauto. cbn [istack]. intros l _ [].
  - eapply iinv_a_same; eauto. cbn [istack]. rewrite iheld_cons. cbn [iheld]. intros l _ [].
  - eapply iinv_a_same; eauto. cbn [istack]. rewrite Es. auto.
  - eapply iinv_a_same; eauto. cbn [istack]. rewrite Es.
    rewrite (iheld_cons (IFrame y false calls (handler y d))). cbn [iheld]. auto.
  - eapply iinv_a_same; eauto. cbn [istack]. rewrite Es. auto.
  - rewrite Es in Wst. destruct Wst as (_ & _ & Wi).
    eapply iinv_a_chg with (x := inode f); eauto.
    + intros l Hne. apply upd_neq. exact Hne.
    + cbn [istack]. rewrite Es, !iheld_cons. cbn [iheld inode]. rewrite Eh.
      intros l _ [<-|Hin].
      * left. split; [reflexivity|]. rewrite upd_eq. eauto.
      * right. split; [|exact Hin]. pose proof (iheld_nodes_gt _ _ Wi _ Hin). lia.
  - rewrite Es in Wst. destruct Wst as (_ & _ & Wi).
    eapply iinv_a_chg with (x := inode f); eauto.
    + intros l Hne. apply upd_neq. exact Hne.
    + cbn [istack]. rewrite Es, !iheld_cons. cbn [iheld inode]. rewrite Eh.
      intros l _ [<-|Hin].
      * left. split; [reflexivity|]. rewrite upd_eq. eauto.
      * right. split; [|exact Hin]. pose proof (iheld_nodes_gt _ _ Wi _ Hin). lia.
  - eapply iinv_a_same; eauto. cbn [istack]. rewrite Es, !iheld_cons. cbn [iheld inode]. rewrite Eh.
    intros l Hl [<-|Hin]; [congruence|exact Hin].
  - eapply iinv_a_same; eauto. cbn [istack]. intros l _ [].
  - rewrite Es in Wst. destruct Wst as (_ & _ & (Hh & (d & cs & Ep') & Hl & Hr)).
    assert (Hsub : forall l, In l (iheld_nodes (IFrame (inode g) false (tl (ipend g)) (icatch g) :: fs)) ->
                             l <> inode g /\ In l (iheld_nodes (istack th))).
    { rewrite Es, !iheld_cons, Eh, Hh. cbn [iheld]. intros l Hin. split.
      - pose proof (iheld_nodes_gt _ _ Hr _ Hin). lia.
      - right; exact Hin. }
    unfold C12Inner.irelease. destruct (has_lock (inode g)) eqn:Ehg.
    + eapply iinv_a_chg with (x := inode g); [exact I|exact En|exact Ehg| | |].
      * intros l Hne. apply unlock_neq. exact Hne.
      * right. eapply I; eauto. rewrite Es, !iheld_cons, Eh, Hh. left; reflexivity.
      * cbn [istack]. intros l _ Hin. right. apply Hsub. exact Hin.
    + eapply iinv_a_same; eauto. cbn [istack]. intros l _ Hin. apply Hsub. exact Hin.
Qed.

Lemma iinit_inv_wa s0 opss : iinv_wf (iinit data shared s0 opss) /\ iinv_a (iinit data shared s0 opss).
Proof.
  unfold iinit. split.
  - intros t th E. cbn [ithr] in E. apply nth_error_In in E. apply in_map_iff in E. destruct E as (o & <- & _).
    unfold iwf_thread. cbn [istack imode]. split; [exact I|]. split; [constructor|norno].
  - intros t th l E Hin. cbn [ithr] in E. apply nth_error_In in E. apply in_map_iff in E.
    destruct E as (o & <- & _). cbn [istack] in Hin. destruct Hin.
Qed.

Lemma ireach_inv_wa s0 opss c : ireach s0 opss c -> iinv_wf c /\ iinv_a c.
Proof.
  induction 1 as [|c a c' _ [IW IA] Hs].
  - apply iinit_inv_wa.
  - split; [eapply iinv_wf_step; eauto|eapply iinv_a_step; eauto].
Qed.

(* mutual exclusion (whatever the release-on-raise discipline) *)
Theorem inner_mutex_thm s0 opss c l t1 t2 th1 th2 :
  ireach s0 opss c -> has_lock l = true ->
  nth_error (ithr c) t1 = Some th1 -> nth_error (ithr c) t2 = Some th2 ->
  iholds th1 l -> iholds th2 l -> t1 = t2.
Proof.
  intros R Hl E1 E2 H1 H2. apply ireach_inv_wa in R. destruct R as [_ IA].
  apply iholds_iff in H1. apply iholds_iff in H2.
  destruct (IA _ _ _ E1 H1 Hl) as [k1 K1]. destruct (IA _ _ _ E2 H2 Hl) as [k2 K2]. congruence.
Qed.

(* ---------- no leak, under release-on-raise at every site ---------- *)
Hypothesis ror_all : forall x, ror x = true.

(* every taken lock is held, exactly once, by a frame of a live call stack of its owner *)
Definition iinv_b (c : iconfig) : Prop :=
  forall l t k, ilocks c l = Some (t, k) ->
    has_lock l = true /\ k = 0 /\
    exists th, nth_error (ithr c) t = Some th /\ In l (iheld_nodes (istack th)).

Lemma iinv_b_same c t th th' s' :
  iinv_b c -> nth_error (ithr c) t = Some th ->
  (forall l, In l (iheld_nodes (istack th)) -> In l (iheld_nodes (istack th'))) ->
  iinv_b (IConfig (ilocks c) s' (set_nth t th' (ithr c))).
Proof.
  intros I En Hsub l t1 k Hl. cbn [ilocks ithr] in *. destruct (I _ _ _ Hl) as (Hhl & Hk & th1 & E1 & Hin).
  split; [exact Hhl|]. split; [exact Hk|].
  destruct (Nat.eq_dec t1 t) as [->|Hne].
  - exists th'. rewrite (nth_set_eq _ _ _ _ En). split; [reflexivity|]. rewrite En in E1.
    apply Some_inj in E1. subst th1. auto.
  - exists th1. rewrite nth_set_neq by exact Hne. auto.
Qed.

Lemma iinv_b_acq c t th th' s' x :
  iinv_b c -> nth_error (ithr c) t = Some th -> has_lock x = true ->
  (forall l, l = x \/ In l (iheld_nodes (istack th)) -> In l (iheld_nodes (istack th'))) ->
  iinv_b (IConfig (upd (ilocks c) x (Some (t, 0))) s' (set_nth t th' (ithr c))).
Proof.
  intros I En Hx Hsub l t1 k Hl. cbn [ilocks ithr] in *. unfold upd in Hl. destruct (Nat.eqb_spec l x) as [->|Hlx].
  - apply Some_inj in Hl. apply pair_inj in Hl. destruct Hl as [<- <-].
    split; [exact Hx|]. split; [reflexivity|]. exists th'. rewrite (nth_set_eq _ _ _ _ En). auto.
  - destruct (I _ _ _ Hl) as (Hhl & Hk & th1 & E1 & Hin). split; [exact Hhl|]. split; [exact Hk|].
    destruct (Nat.eq_dec t1 t) as [->|Hne].
    + exists th'. rewrite (nth_set_eq _ _ _ _ En). split; [reflexivity|]. rewrite En in E1.
      apply Some_inj in E1. subst th1. auto.
    + exists th1. rewrite nth_set_neq by exact Hne. auto.
Qed.

Lemma iinv_b_rel c t th th' s' x :
  iinv_b c -> nth_error (ithr c) t = Some th ->
  (forall l, In l (iheld_nodes (istack th)) -> l <> x -> In l (iheld_nodes (istack th'))) ->
  iinv_b (IConfig (irelease (ilocks c) x) s' (set_nth t th' (ithr c))).
Proof.
  intros I En Hsub l t1 k Hl. cbn [ilocks ithr] in *.
  assert (Hold : ilocks c l = Some (t1, k) /\ l <> x).
  { unfold C12Inner.irelease in Hl. destruct (has_lock x) eqn:Ehx.
    - destruct (Nat.eq_dec l x) as [->|Hne].
      + exfalso. destruct (unlock_eq (ilocks c) x) as [E|(o & k' & E1 & E2)]; [congruence|].
        destruct (I _ _ _ E1) as (_ & Hk & _). discriminate.
      + rewrite unlock_neq in Hl by exact Hne. auto.
    - split; [exact Hl|]. intros ->. destruct (I _ _ _ Hl) as [Hhl _]. congruence. }
  destruct Hold as [Hold Hlx]. destruct (I _ _ _ Hold) as (Hhl & Hk & th1 & E1 & Hin).
  split; [exact Hhl|]. split; [exact Hk|].
  destruct (Nat.eq_dec t1 t) as [->|Hne].
  - exists th'. rewrite (nth_set_eq _ _ _ _ En). split; [reflexivity|]. rewrite En in E1.
    apply Some_inj in E1. subst th1. auto.
  - exists th1. rewrite nth_set_neq by exact Hne. auto.
Qed.

Lemma unwind_lk_ror (f : iframe) lk :
  unwind_lk lk f = if iheld f then irelease lk (inode f) else lk.
Proof.
  unfold C12InnerProofs.unwind_lk. rewrite ror_all, andb_true_r. unfold C12Inner.irelease.
  destruct (iheld f), (has_lock (inode f)); reflexivity.
Qed.

Lemma iinv_b_pop c t th th' s' f fs :
  iinv_b c -> nth_error (ithr c) t = Some th -> istack th = f :: fs ->
  (forall l, In l (iheld_nodes fs) -> In l (iheld_nodes (istack th'))) ->
  iinv_b (IConfig (unwind_lk (ilocks c) f) s' (set_nth t th' (ithr c))).
Proof.
  intros I En Es Hsub. rewrite unwind_lk_ror. destruct (iheld f) eqn:Eh.
  - eapply iinv_b_rel; [exact I|exact En|]. rewrite Es, iheld_cons, Eh.
    intros l [<-|Hin] Hne; [congruence|auto].
  - eapply iinv_b_same; [exact I|exact En|]. rewrite Es, iheld_cons, Eh. exact Hsub.
Qed.

Lemma iinv_b_step c a c' : iexec c a = Some c' -> iinv_wf c -> iinv_b c -> iinv_b c'.
Proof.
  intros H W I. apply iexec_inv in H. destruct H as (th & lk' & s' & th' & En & Hs & ->).
  pose proof (W _ _ En) as (Wst & _ & _).
  destruct Hs; unfold C12Inner.ifinish.
  - eapply iinv_b_pop; [exact I|exact En|exact Es|]. intros l [].
  - eapply iinv_b_pop; [exact I|exact En|exact Es|]. cbn [istack]. auto.
  - eapply iinv_b_pop; [exact I|exact En|exact Es|]. cbn [istack]. rewrite iheld_cons. cbn [iheld]. auto.
  - eapply iinv_b_same; [exact I|exact En|]. rewrite Es. intros l [].
  - eapply iinv_b_same; [exact I|exact En|]. rewrite Es. intros l [].
  - eapply iinv_b_same; [exact I|exact En|]. cbn [istack]. rewrite Es. auto.
  - eapply iinv_b_same; [exact I|exact En|]. cbn [istack]. rewrite Es.
    rewrite (iheld_cons (IFrame y false calls (handler y d))). cbn [iheld]. auto.
  - eapply iinv_b_same; [exact I|exact En|]. cbn [istack]. rewrite Es. auto.
  - eapply iinv_b_acq; [exact I|exact En|exact Ehl|]. cbn [istack]. rewrite Es, !iheld_cons. cbn [iheld inode].
    rewrite Eh. intros l [->|Hin]; [left; reflexivity|right; exact Hin].
  - (* re-entrant acquisition: impossible, the thread would hold the lock in a frame below *)
    exfalso. destruct (I _ _ _ El) as (_ & _ & th1 & E1 & Hin). rewrite En in E1. apply Some_inj in E1. subst th1.
    rewrite Es, iheld_cons, Eh in Hin. rewrite Es in Wst. destruct Wst as (_ & _ & Wi).
    pose proof (iheld_nodes_gt _ _ Wi _ Hin). lia.
  - eapply iinv_b_same; [exact I|exact En|]. cbn [istack]. rewrite Es, !iheld_cons. cbn [iheld inode].
    rewrite Eh. intros l Hin; right; exact Hin.
  - eapply iinv_b_same; [exact I|exact En|]. cbn [istack]. rewrite Es, iheld_cons, Eh. auto.
  - rewrite Es in Wst. destruct Wst as (_ & _ & (Hh & _)).
    eapply iinv_b_rel; [exact I|exact En|]. cbn [istack]. rewrite Es, !iheld_cons, Eh, Hh. cbn [iheld].
    intros l [<-|Hin] Hne; [congruence|exact Hin].
Qed.

Lemma iinit_inv_b s0 opss : iinv_b (iinit data shared s0 opss).
Proof. intros l t k E. cbn [iinit ilocks] in E. discriminate. Qed.

Lemma ireach_inv_b s0 opss c : ireach s0 opss c -> iinv_b c.
Proof.
  induction 1 as [|c a c' Hr IB Hs].
  - apply iinit_inv_b.
  - eapply iinv_b_step; eauto. apply (ireach_inv_wa _ _ _ Hr).
Qed.

(* ---------- theorems ---------- *)

(* after each operation returned or raised (call stack empty) the thread owns no lock *)
Theorem inner_locks_free_after_thm s0 opss c t th l :
  ireach s0 opss c -> nth_error (ithr c) t = Some th -> istack th = [] -> owner_of c l <> Some t.
Proof.
  intros R En Hs Hl. apply ireach_inv_b in R. unfold owner_of in Hl.
  destruct (ilocks c l) as [[o k]|] eqn:El; [|discriminate]. apply Some_inj in Hl. subst o.
  destruct (R _ _ _ El) as (_ & _ & th1 & E1 & Hin).
  rewrite En in E1. apply Some_inj in E1. subst th1. rewrite Hs in Hin. exact Hin.
Qed.

(* a taken lock is taken once and belongs to an operation that is still in progress *)
Theorem inner_holder_active_thm s0 opss c l t k :
  ireach s0 opss c -> ilocks c l = Some (t, k) ->
  k = 0 /\ exists th, nth_error (ithr c) t = Some th /\ istack th <> [] /\ iholds th l.
Proof.
  intros R Hl. apply ireach_inv_b in R. destruct (R _ _ _ Hl) as (_ & Hk & th1 & E1 & Hin).
  split; [exact Hk|]. exists th1. split; [exact E1|]. split; [|apply iholds_iff; exact Hin].
  intros E. rewrite E in Hin. exact Hin.
Qed.

(* the lock thread number t is waiting for, if any *)
Definition iblocked_on (t : nat) (lk : nat -> option (nat * nat)) (th : ithread) : option nat :=
  match imode th with
  | RNo =>
    match istack th with
    | [] => None
    | f :: _ =>
      if iheld f then None else
      match ipend f with
      | [] => None
      | _ :: _ =>
        if has_lock (inode f) then
          match lk (inode f) with
          | Some (o, _) => if reent (inode f) && Nat.eqb o t then None else Some (inode f)
          | None => None
          end
        else None
      end
    end
  | _ => None
  end.

Lemma ienabled_tstep t lk s th :
  iwf_thread th -> (istack th <> [] \/ iops th <> []) -> iblocked_on t lk th = None ->
  itstep t false lk s th <> None.
Proof.
  intros (W & _ & R) Hun Hb. unfold iblocked_on in Hb. unfold C12Inner.itstep.
  destruct (imode th) eqn:Em.
  - destruct (istack th) as [|f fs] eqn:Es.
    + destruct (iops th) as [|[x d] rest]; [destruct Hun; congruence|].
      destruct (body x d s). discriminate.
    + destruct W as (_ & Hne & _). destruct (iheld f) eqn:Eh.
      * destruct (ipend f) as [|[y d] cs]; [exfalso; apply Hne; auto|]. destruct (body y d s). discriminate.
      * destruct (ipend f) as [|c cs].
        -- destruct fs; discriminate.
        -- destruct (has_lock (inode f)); [|discriminate].
           unfold C12Inner.try_acquire.
           destruct (lk (inode f)) as [[o k]|]; [|discriminate].
           destruct (reent (inode f) && Nat.eqb o t); [discriminate|discriminate].
  - destruct (istack th) as [|f fs] eqn:Es; [exfalso; apply R; [discriminate|reflexivity]|].
    destruct fs; discriminate.
  - destruct (istack th) as [|f fs] eqn:Es; [exfalso; apply R; [discriminate|reflexivity]|].
    destruct (icatch f); [discriminate|]. destruct fs; discriminate.
Qed.

Lemma ienabled_exec c t th :
  nth_error (ithr c) t = Some th -> iwf_thread th -> (istack th <> [] \/ iops th <> []) ->
  iblocked_on t (ilocks c) th = None -> iexec c (t, false) <> None.
Proof.
  intros En W Hun Hb. unfold C12Inner.iexec. cbn [fst snd]. rewrite En.
  pose proof (ienabled_tstep t (ilocks c) (ish c) th W Hun Hb) as H.
  destruct (C12Inner.itstep _ _ _ _ _ _ _ _ _ _ _ _) as [[[? ?] ?]|]; [discriminate|congruence].
Qed.

Lemma iblocked_on_some t lk th x :
  iblocked_on t lk th = Some x ->
  exists f fs t' k, istack th = f :: fs /\ inode f = x /\ iheld f = false /\ lk x = Some (t', k).
Proof.
  unfold iblocked_on. destruct (imode th); [|discriminate|discriminate].
  destruct (istack th) as [|f fs]; [discriminate|]. destruct (iheld f) eqn:Eh; [discriminate|].
  destruct (ipend f); [discriminate|]. destruct (has_lock (inode f)); [|discriminate].
  destruct (lk (inode f)) as [[o k]|] eqn:El; [|discriminate].
  destruct (reent (inode f) && Nat.eqb o t); [discriminate|].
  intros H. apply Some_inj in H. subst x. eauto 10.
Qed.

Lemma iwait_chain s0 opss c : ireach s0 opss c ->
  forall n t th x, x < n -> nth_error (ithr c) t = Some th -> iblocked_on t (ilocks c) th = Some x ->
  exists t', iexec c (t', false) <> None.
Proof.
  intros R. pose proof (ireach_inv_wa _ _ _ R) as [IW _]. pose proof (ireach_inv_b _ _ _ R) as IB.
  induction n as [|n IH]; intros t th x Hx En Hb; [lia|].
  apply iblocked_on_some in Hb. destruct Hb as (f & fs & t1 & k & Es & Ef & Eh & El).
  destruct (IB _ _ _ El) as (_ & _ & th1 & E1 & Hin).
  assert (Hne : istack th1 <> []) by (intros E; rewrite E in Hin; exact Hin).
  destruct (iblocked_on t1 (ilocks c) th1) as [y|] eqn:Eb1.
  - pose proof Eb1 as Eb1'. apply iblocked_on_some in Eb1'.
    destruct Eb1' as (f1 & fs1 & t2 & k2 & Es1 & Ef1 & Eh1 & El1).
    apply (IH t1 th1 y); auto.
    rewrite Es1, iheld_cons, Eh1 in Hin.
    destruct (IW _ _ E1) as (W1 & _ & _). rewrite Es1 in W1. destruct W1 as (_ & _ & Wi).
    pose proof (iheld_nodes_gt _ _ Wi _ Hin). lia.
  - exists t1. eapply ienabled_exec; eauto.
Qed.

(* no deadlock: while some thread is unfinished, some thread can make a (non-failing) step *)
Theorem inner_no_deadlock_thm s0 opss c t th :
  ireach s0 opss c -> nth_error (ithr c) t = Some th -> (istack th <> [] \/ iops th <> []) ->
  exists t', iexec c (t', false) <> None.
Proof.
  intros R En Hun. pose proof (ireach_inv_wa _ _ _ R) as [IW _].
  destruct (iblocked_on t (ilocks c) th) as [x|] eqn:Eb.
  - eapply (iwait_chain _ _ _ R (S x)); eauto.
  - exists t. eapply ienabled_exec; eauto.
Qed.

(* a thread is never blocked by operations that are over, handled failures included *)
Theorem inner_progress_thm s0 opss c t th :
  ireach s0 opss c -> nth_error (ithr c) t = Some th -> (istack th <> [] \/ iops th <> []) ->
  (forall t' th', t' <> t -> nth_error (ithr c) t' = Some th' -> istack th' = []) ->
  iexec c (t, false) <> None.
Proof.
  intros R En Hun Hidle. pose proof (ireach_inv_wa _ _ _ R) as [IW _]. pose proof (ireach_inv_b _ _ _ R) as IB.
  eapply ienabled_exec; eauto.
  destruct (iblocked_on t (ilocks c) th) as [x|] eqn:Eb; [exfalso|reflexivity].
  apply iblocked_on_some in Eb. destruct Eb as (f & fs & t1 & k & Es & Ef & Eh & El).
  destruct (IB _ _ _ El) as (_ & _ & th1 & E1 & Hin).
  destruct (Nat.eq_dec t1 t) as [->|Hne].
  - rewrite En in E1. apply Some_inj in E1. subst th1. rewrite Es, iheld_cons, Eh in Hin.
    destruct (IW _ _ En) as (W1 & _ & _). rewrite Es in W1. destruct W1 as (_ & _ & Wi).
    pose proof (iheld_nodes_gt _ _ Wi _ Hin). lia.
  - rewrite (Hidle _ _ Hne E1) in Hin. exact Hin.
Qed.

End InnerProofs.

(* ---------- how failures are reported or handled (needs no hypothesis on ror, body, handler) ---------- *)
Section InnerErrors.
Variable data shared : Type.
Variable has_lock ror reent : nat -> bool.
Variable body : nat -> data -> shared -> shared * list (nat * data).
Variable handler : nat -> data -> option (list (nat * data)).
Notation iexec := (iexec data shared has_lock ror reent body handler).

Lemma unwind_lk_shape (lk : nat -> option (nat * nat)) (f : iframe data) l :
  unwind_lk data has_lock ror lk f l = lk l \/ unwind_lk data has_lock ror lk f l = None \/
  exists o k, lk l = Some (o, S k) /\ unwind_lk data has_lock ror lk f l = Some (o, k).
Proof.
  unfold unwind_lk. destruct (iheld f && has_lock (inode f) && ror (inode f)); [|left; reflexivity].
  destruct (Nat.eq_dec l (inode f)) as [->|Hne].
  - destruct (unlock_eq lk (inode f)) as [E|(o & k & E1 & E2)]; [right; left; exact E|].
    right; right. eauto.
  - left. apply unlock_neq. exact Hne.
Qed.

Theorem inner_error_reported_thm c t fail c' th th' :
  iexec c (t, fail) = Some c' -> nth_error (ithr c) t = Some th -> nth_error (ithr c') t = Some th' ->
  (fail = true -> (imode th' <> RNo /\ istack th' <> [] /\ iresults th' = iresults th /\ ish c' = ish c)
                  \/ (istack th' = [] /\ iresults th' = iresults th ++ [false] /\ ish c' = ish c)) /\
  (imode th <> RNo ->
     ish c' = ish c /\
     (forall l, ilocks c' l = ilocks c l \/ ilocks c' l = None \/
                exists o k, ilocks c l = Some (o, S k) /\ ilocks c' l = Some (o, k)) /\
     ((imode th' <> RNo /\ iresults th' = iresults th /\ length (istack th') < length (istack th)) \/
      (istack th' = [] /\ imode th' = RNo /\ iresults th' = iresults th ++ [false]) \/
      (imode th = RCallee /\ imode th' = RNo /\ iresults th' = iresults th /\
       exists f fs h, istack th = f :: fs /\ icatch f = Some h /\
                      istack th' = IFrame (inode f) false h None :: fs))) /\
  (imode th = RNo -> fail = false ->
     iresults th' = iresults th \/ (iresults th' = iresults th ++ [true] /\ istack th' = [])).
Proof.
  intros H En En'. apply iexec_inv in H. destruct H as (th0 & lk' & s' & th1 & E0 & Hs & ->).
  cbn [fst snd] in E0, Hs. rewrite En in E0. apply Some_inj in E0. subst th0.
  cbn [ithr] in En'. rewrite (nth_set_eq _ _ _ _ En) in En'. apply Some_inj in En'. subst th1.
  destruct Hs; unfold C12Inner.ifinish; cbn [ilocks ish istack imode iresults];
    (split; [|split]); intros; try congruence; try discriminate; auto.
  - split; [reflexivity|]. split; [apply unwind_lk_shape|]. right; left. auto.
  - split; [reflexivity|]. split; [apply unwind_lk_shape|]. left. rewrite Es. cbn [length].
    split; [discriminate|]. split; [reflexivity|lia].
  - split; [reflexivity|]. split; [apply unwind_lk_shape|]. right; right.
    split; [exact Hm|]. split; [reflexivity|]. split; [reflexivity|].
    exists f, fs, h. split; [exact Es|]. split; [exact Ec|reflexivity].
  - left. repeat split; auto; discriminate.
  - left. repeat split; auto; discriminate.
Qed.

End InnerErrors.

(* ---------- conservativity: no handler, no re-entrant lock = C12Chain.v, step by step ---------- *)
Section InnerConservative.
Variable data shared : Type.
Variable has_lock ror : nat -> bool.
Variable body : nat -> data -> shared -> shared * list (nat * data).
Notation noh := (fun (_ : nat) (_ : data) => @None (list (nat * data))).
Notation nore := (fun _ : nat => false).
Notation iexec := (iexec data shared has_lock ror nore body noh).
Notation exec := (exec data shared has_lock ror body).
Notation itstep := (itstep data shared has_lock ror nore body noh).
Notation tstep := (tstep data shared has_lock ror body).

Definition sim (c0 : config data shared) (c : iconfig data shared) : Prop :=
  (forall x, locks c0 x = match ilocks c x with Some (o, _) => Some o | None => None end) /\
  (forall x o k, ilocks c x = Some (o, k) -> k = 0) /\
  sh c0 = ish c /\ thr c0 = map proj_thread (ithr c) /\
  (forall th f, In th (ithr c) -> In f (istack th) -> icatch f = None).

Definition lrel (lk0 : nat -> option nat) (lk : nat -> option (nat * nat)) : Prop :=
  (forall x, lk0 x = match lk x with Some (o, _) => Some o | None => None end) /\
  (forall x o k, lk x = Some (o, k) -> k = 0).

Lemma lrel_unlock lk0 lk x : lrel lk0 lk -> lrel (upd lk0 x None) (unlock lk x).
Proof.
  intros [A B]. split.
  - intros y. destruct (Nat.eq_dec y x) as [->|Hne].
    + rewrite upd_eq. destruct (unlock_eq lk x) as [E|(o & k & E1 & E2)]; [rewrite E; reflexivity|].
      apply B in E1. discriminate.
    + rewrite upd_neq, unlock_neq by exact Hne. apply A.
  - intros y o k E. destruct (Nat.eq_dec y x) as [->|Hne].
    + destruct (unlock_eq lk x) as [E'|(o' & k' & E1 & E2)]; [congruence|]. apply B in E1. discriminate.
    + rewrite unlock_neq in E by exact Hne. eapply B; eauto.
Qed.

Lemma lrel_acq lk0 lk x t : lrel lk0 lk -> lrel (upd lk0 x (Some t)) (upd lk x (Some (t, 0))).
Proof.
  intros [A B]. split.
  - intros y. unfold upd. destruct (Nat.eqb y x); [reflexivity|apply A].
  - intros y o k. unfold upd. destruct (Nat.eqb y x); [|apply B].
    intros E. apply Some_inj in E. apply pair_inj in E. destruct E as [_ <-]. reflexivity.
Qed.

Lemma lrel_if (b : bool) lk0 lk x :
  lrel lk0 lk -> lrel (if b then upd lk0 x None else lk0) (if b then unlock lk x else lk).
Proof. intros L. destruct b; [apply lrel_unlock|]; exact L. Qed.

Definition nocatch (th : ithread data) : Prop := forall f, In f (istack th) -> icatch f = None.

Ltac stepped := eexists; eexists; split; [reflexivity|].

Lemma step_proj t fail lk0 lk s th :
  lrel lk0 lk -> nocatch th ->
  match itstep t fail lk s th with
  | Some (lk', s', th') =>
      exists lk0' l, tstep t fail lk0 s (proj_thread th) = Some (lk0', s', proj_thread th', l) /\
                     lrel lk0' lk' /\ nocatch th'
  | None => tstep t fail lk0 s (proj_thread th) = None
  end.
Proof.
  intros L N. destruct th as [st m o r]. unfold nocatch in *. cbn [istack] in N.
  unfold C12Inner.itstep, C12Chain.tstep, proj_thread.
  cbn [imode istack iops iresults raising stack ops results].
  destruct m; cbn [rmode_raising].
  - destruct st as [|[x hd p ct] fs]; cbn [map proj_frame inode iheld ipend icatch fnode fheld fpend].
    + destruct o as [|[x d] rest]; [reflexivity|]. destruct fail.
      * stepped. split; [exact L|]. intros f [].
      * destruct (body x d s) as [s1 calls]. stepped. split; [exact L|].
        cbn [istack]. intros f [<-|[]]. reflexivity.
    + destruct hd.
      * destruct p as [|[y d] cs]; [reflexivity|]. destruct fail.
        -- stepped. split; [exact L|exact N].
        -- destruct (body y d s) as [s1 calls]. stepped. split; [exact L|].
           cbn [istack]. intros f [<-|Hin]; [reflexivity|apply N; exact Hin].
      * destruct fail.
        -- stepped. split; [exact L|exact N].
        -- destruct p as [|c cs].
           ++ destruct fs as [|[x' hd' p' ct'] fs'];
                cbn [map proj_frame inode iheld ipend icatch fnode fheld fpend].
              ** stepped. split; [exact L|]. intros f [].
              ** unfold C12Chain.release, C12Inner.irelease. destruct (has_lock x').
                 --- stepped. split; [apply lrel_unlock; exact L|].
                     cbn [istack]. intros f [<-|Hin]; cbn [icatch].
                     +++ apply (N (IFrame x' hd' p' ct')). right; left; reflexivity.
                     +++ apply N. right; right; exact Hin.
                 --- stepped. split; [exact L|].
                     cbn [istack]. intros f [<-|Hin]; cbn [icatch].
                     +++ apply (N (IFrame x' hd' p' ct')). right; left; reflexivity.
                     +++ apply N. right; right; exact Hin.
           ++ destruct (has_lock x).
              ** unfold C12Inner.try_acquire. pose proof (proj1 L x) as Ax.
                 destruct (lk x) as [[o' k]|] eqn:El.
                 --- cbn [andb]. rewrite Ax. reflexivity.
                 --- rewrite Ax. stepped. split; [apply lrel_acq; exact L|].
                     cbn [istack]. intros f [<-|Hin]; cbn [icatch].
                     +++ apply (N (IFrame x false (c :: cs) ct)). left; reflexivity.
                     +++ apply N. right; exact Hin.
              ** stepped. split; [exact L|].
                 cbn [istack]. intros f [<-|Hin]; cbn [icatch].
                 --- apply (N (IFrame x false (c :: cs) ct)). left; reflexivity.
                 --- apply N. right; exact Hin.
  - destruct fail; [reflexivity|].
    destruct st as [|[x hd p ct] fs]; [reflexivity|].
    cbn [map proj_frame inode iheld ipend icatch fnode fheld fpend].
    destruct fs as [|g fs]; cbn [map].
    + stepped. split; [apply lrel_if; exact L|]. intros f [].
    + stepped. split; [apply lrel_if; exact L|]. cbn [istack]. intros f Hin. apply N. right; exact Hin.
  - destruct fail; [reflexivity|].
    destruct st as [|[x hd p ct] fs]; [reflexivity|].
    pose proof (N _ (or_introl eq_refl)) as Ec. cbn [icatch] in Ec. subst ct.
    cbn [map proj_frame inode iheld ipend icatch fnode fheld fpend].
    destruct fs as [|g fs]; cbn [map].
    + stepped. split; [apply lrel_if; exact L|]. intros f [].
    + stepped. split; [apply lrel_if; exact L|]. cbn [istack]. intros f Hin. apply N. right; exact Hin.
Qed.

Theorem inner_conservative_init s0 opss :
  sim (init data shared s0 opss) (iinit data shared s0 opss).
Proof.
  unfold sim, init, iinit. cbn [locks ilocks sh ish thr ithr].
  split; [reflexivity|]. split; [discriminate|]. split; [reflexivity|]. split.
  - rewrite map_map. reflexivity.
  - intros th f Hin Hf. apply in_map_iff in Hin. destruct Hin as (o & <- & _). destruct Hf.
Qed.

Theorem inner_conservative_sim c0 c a c' :
  sim c0 c -> iexec c a = Some c' -> exists c0', exec c0 a = Some c0' /\ sim c0' c'.
Proof.
  intros (A & B & Esh & Eth & N) H. unfold C12Inner.iexec in H.
  destruct (nth_error (ithr c) (fst a)) as [th|] eqn:En; [|discriminate].
  pose proof (step_proj (fst a) (snd a) (locks c0) (ilocks c) (ish c) th (conj A B)
                        (fun f Hf => N th f (nth_error_In _ _ En) Hf)) as P.
  destruct (C12Inner.itstep _ _ _ _ _ _ _ _ _ _ _ _) as [[[lk' s'] th']|] eqn:Et; [|discriminate].
  apply Some_inj in H. subst c'. destruct P as (lk0' & l & Pt & [A' B'] & N').
  exists (Config lk0' s' (set_nth (fst a) (proj_thread th') (thr c0))). split.
  - unfold C12Chain.exec, C12Chain.exec_l. rewrite Eth, nth_error_map', En, Esh, Pt. reflexivity.
  - unfold sim. cbn [locks ilocks sh ish thr ithr].
    split; [exact A'|]. split; [exact B'|]. split; [reflexivity|]. split.
    + rewrite Eth. apply set_nth_map.
    + intros th2 f Hin Hf. apply set_nth_in in Hin. destruct Hin as [->|Hin]; [apply N'; exact Hf|].
      eapply N; eauto.
Qed.

Theorem inner_conservative_enabled c0 c a :
  sim c0 c -> iexec c a = None -> exec c0 a = None.
Proof.
  intros (A & B & Esh & Eth & N) H. unfold C12Inner.iexec in H.
  unfold C12Chain.exec, C12Chain.exec_l. rewrite Eth, nth_error_map'.
  destruct (nth_error (ithr c) (fst a)) as [th|] eqn:En; [|reflexivity].
  pose proof (step_proj (fst a) (snd a) (locks c0) (ilocks c) (ish c) th (conj A B)
                        (fun f Hf => N th f (nth_error_In _ _ En) Hf)) as P.
  destruct (C12Inner.itstep _ _ _ _ _ _ _ _ _ _ _ _) as [[[lk' s'] th']|] eqn:Et; [discriminate|].
  rewrite Esh, P. reflexivity.
Qed.

Theorem inner_conservative_reach s0 opss c :
  ireach data shared has_lock ror nore body noh s0 opss c ->
  exists c0, reach data shared has_lock ror body s0 opss c0 /\ sim c0 c.
Proof.
  induction 1 as [|c a c' _ (c0 & R0 & S0) Hs].
  - exists (init data shared s0 opss). split; [constructor|apply inner_conservative_init].
  - destruct (inner_conservative_sim _ _ _ _ S0 Hs) as (c0' & E0 & S0').
    exists c0'. split; [econstructor; eauto|exact S0'].
Qed.

End InnerConservative.
