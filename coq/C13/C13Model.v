(* C13 — model of the SQLite key store of yowsup/axolotl/store/sqlite/*.py.
   Definitions only.

   A cell is the canonical byte image of one SQLite value (tag byte + payload, produced by
   the harness: 'n' NULL, 'i'<decimal> INTEGER, 'b'<raw> BLOB/TEXT); the model never looks
   inside a cell, it only compares cells for equality.
   A table is the list of its rows in rowid order, a row being (values of the UNIQUE key
   columns, values of the other columns).  A database maps table numbers to tables.
   A connection is (durable database, working database): statements act on the working
   database, Commit copies it to the durable one, a crash / close+reopen forgets it.      *)
From YV Require Import Common.Tac.

Definition cell := list N.
Definition key := list cell.
Definition row := list cell.
Definition table := list (key * row).
Definition db := N -> table.

Definition NULL : cell := [110%N].

Fixpoint list_eqb {A} (e : A -> A -> bool) (l m : list A) : bool :=
  match l, m with
  | [], [] => true
  | a :: l', b :: m' => e a b && list_eqb e l' m'
  | _, _ => false
  end.

Definition cell_eqb : cell -> cell -> bool := list_eqb N.eqb.
Definition key_eqb : key -> key -> bool := list_eqb cell_eqb.

(* ---------- tables ---------- *)
Fixpoint t_lookup (k : key) (tb : table) : option row :=
  match tb with
  | [] => None
  | (k', r) :: tb' => if key_eqb k k' then Some r else t_lookup k tb'
  end.

Definition t_remove (k : key) (tb : table) : table :=
  filter (fun e => negb (key_eqb k (fst e))) tb.

(* extra `AND col = v` conditions of a WHERE clause *)
Definition matches (f : list (nat * cell)) (r : row) : bool :=
  forallb (fun cv => cell_eqb (nth (fst cv) r NULL) (snd cv)) f.

Fixpoint set_nth (i : nat) (v : cell) (r : row) : row :=
  match i, r with
  | _, [] => []
  | O, _ :: r' => v :: r'
  | S i', c :: r' => c :: set_nth i' v r'
  end.

Definition set_cols (sets : list (nat * cell)) (r : row) : row :=
  fold_left (fun r cv => set_nth (fst cv) (snd cv) r) sets r.

(* DELETE FROM t WHERE key = k [AND col = v ...]   (the key columns are UNIQUE: at most one
   row has key k; the row is removed when the extra conditions hold for it) *)
Definition t_delete (k : key) (f : list (nat * cell)) (tb : table) : table :=
  match t_lookup k tb with
  | Some r => if matches f r then t_remove k tb else tb
  | None => tb
  end.

(* INSERT INTO t ...: None = sqlite3.IntegrityError (UNIQUE constraint failed) *)
Definition t_insert (k : key) (r : row) (tb : table) : option table :=
  match t_lookup k tb with
  | Some _ => None
  | None => Some (tb ++ [(k, r)])
  end.

(* INSERT OR REPLACE INTO t ...: the conflicting row is deleted, the new one gets a new rowid *)
Definition t_replace (k : key) (r : row) (tb : table) : table := t_remove k tb ++ [(k, r)].

(* UPDATE t SET col = v ... WHERE key = k *)
Definition t_update (k : key) (sets : list (nat * cell)) (tb : table) : table :=
  map (fun e => if key_eqb k (fst e) then (fst e, set_cols sets (snd e)) else e) tb.

(* ---------- concrete statements ---------- *)
Inductive cstmt :=
| CDelete (t : N) (k : key) (f : list (nat * cell))
| CInsert (orreplace : bool) (t : N) (k : key) (r : row)
| CUpdate (t : N) (k : key) (sets : list (nat * cell))
| CCommit.

Definition set_tbl (t : N) (tb : table) (d : db) : db :=
  fun t' => if (t' =? t)%N then tb else d t'.

(* effect of a non-commit statement on the working database; None = IntegrityError *)
Definition exec (s : cstmt) (d : db) : option db :=
  match s with
  | CDelete t k f => Some (set_tbl t (t_delete k f (d t)) d)
  | CInsert false t k r =>
    match t_insert k r (d t) with Some tb => Some (set_tbl t tb d) | None => None end
  | CInsert true t k r => Some (set_tbl t (t_replace k r (d t)) d)
  | CUpdate t k sets => Some (set_tbl t (t_update k sets (d t)) d)
  | CCommit => Some d
  end.

Definition writes (s : cstmt) : option N :=
  match s with
  | CDelete t _ _ | CInsert _ t _ _ | CUpdate t _ _ => Some t
  | CCommit => None
  end.

Record conn := mkConn { dur : db; cur : db }.

Definition reopen (c : conn) : conn := mkConn (dur c) (dur c).   (* crash, or close + open *)

(* one boundary step; None = the statement raised (the Python method is left there) *)
Definition step (s : cstmt) (c : conn) : option conn :=
  match s with
  | CCommit => Some (mkConn (cur c) (cur c))
  | _ => match exec s (cur c) with Some d => Some (mkConn (dur c) d) | None => None end
  end.

(* run a method body; an IntegrityError propagates: the rest of the body is skipped and the
   connection stays as it is (Python's sqlite3 leaves the implicit transaction open) *)
Fixpoint run_prog (p : list cstmt) (c : conn) : conn :=
  match p with
  | [] => c
  | s :: p' => match step s c with Some c' => run_prog p' c' | None => c end
  end.

(* every connection state the process can die in while running p: before the first statement
   and after every statement / commit actually executed *)
Fixpoint states (p : list cstmt) (c : conn) : list conn :=
  c :: match p with
       | [] => []
       | s :: p' => match step s c with Some c' => states p' c' | None => [] end
       end.

(* ---------- program templates (what the translator generates) ---------- *)
Inductive vref :=
| VArg (i : nat)          (* i-th scalar argument of the method (already a cell) *)
| VConst (c : cell)       (* literal in the SQL text or in the parameter tuple *)
| VLoop.                  (* the loop variable of `for x in <list argument>` *)

Inductive sstmt :=
| TDelete (t : N) (k : list vref) (f : list (nat * vref))
| TInsert (orreplace : bool) (t : N) (k : list vref) (cols : list (nat * vref))
| TUpdate (t : N) (k : list vref) (sets : list (nat * vref)).

Inductive tstmt :=
| TS (s : sstmt)
| TEach (s : sstmt)       (* for x in <list argument>: s *)
| TCommit.

Definition prog := list tstmt.

Record args := mkArgs { scalars : list cell; loop : list cell }.

Definition vval (a : list cell) (x : cell) (v : vref) : cell :=
  match v with VArg i => nth i a NULL | VConst c => c | VLoop => x end.

Definition vpairs (a : list cell) (x : cell) (l : list (nat * vref)) : list (nat * cell) :=
  map (fun cv => (fst cv, vval a x (snd cv))) l.

(* width t = number of non-key columns of table t (from the CREATE TABLE text) *)
Definition inst_s (width : N -> nat) (a : list cell) (x : cell) (s : sstmt) : cstmt :=
  match s with
  | TDelete t k f => CDelete t (map (vval a x) k) (vpairs a x f)
  | TInsert o t k cols =>
    CInsert o t (map (vval a x) k) (set_cols (vpairs a x cols) (repeat NULL (width t)))
  | TUpdate t k sets => CUpdate t (map (vval a x) k) (vpairs a x sets)
  end.

Definition inst_t (width : N -> nat) (ar : args) (s : tstmt) : list cstmt :=
  match s with
  | TS s => [inst_s width (scalars ar) NULL s]
  | TEach s => map (fun x => inst_s width (scalars ar) x s) (loop ar)
  | TCommit => [CCommit]
  end.

Definition inst (width : N -> nat) (p : prog) (ar : args) : list cstmt :=
  flat_map (inst_t width ar) p.

(* ---------- the store as a state machine over API calls ---------- *)
Record store_def := mkStore {
  sd_width : N -> nat;
  sd_progs : list (N * prog);            (* method number -> body *)
  sd_init_guard : N * key;               (* __init__: `if <this row is missing>:` ... *)
  sd_init_prog : prog;                   (*            ... run this (own identity is stored) *)
}.

Inductive op :=
| OCall (m : N) (a : args)               (* one public store method *)
| OOpen (a : args)                       (* close the connection and construct a new store;
                                            a = the identity that would be generated *)
.

Fixpoint prog_of (ps : list (N * prog)) (m : N) : prog :=
  match ps with
  | [] => []
  | (m', p) :: ps' => if (m' =? m)%N then p else prog_of ps' m
  end.

(* the statements op o executes, given the connection it starts from *)
Definition body (S : store_def) (c : conn) (o : op) : list cstmt :=
  match o with
  | OCall m a => inst (sd_width S) (prog_of (sd_progs S) m) a
  | OOpen a =>
    match t_lookup (snd (sd_init_guard S)) (dur c (fst (sd_init_guard S))) with
    | Some _ => []
    | None => inst (sd_width S) (sd_init_prog S) a
    end
  end.

Definition start (c : conn) (o : op) : conn :=
  match o with OCall _ _ => c | OOpen _ => reopen c end.

Definition run_op (S : store_def) (c : conn) (o : op) : conn :=
  run_prog (body S c o) (start c o).

Definition empty_db : db := fun _ => [].
Definition conn0 : conn := mkConn empty_db empty_db.

Definition run_ops (S : store_def) (ops : list op) : conn := fold_left (run_op S) ops conn0.

(* ---------- the abstract specification: plain finite maps, no transactions ---------- *)
Definition amap := N -> key -> option row.

Definition a_set (t : N) (k : key) (v : option row) (m : amap) : amap :=
  fun t' k' => if ((t' =? t)%N && key_eqb k' k)%bool then v else m t' k'.

(* None = the call raises and changes nothing *)
Definition a_exec (s : cstmt) (m : amap) : option amap :=
  match s with
  | CDelete t k f =>
    Some (match m t k with
          | Some r => if matches f r then a_set t k None m else m
          | None => m
          end)
  | CInsert false t k r => match m t k with Some _ => None | None => Some (a_set t k (Some r) m) end
  | CInsert true t k r => Some (a_set t k (Some r) m)
  | CUpdate t k sets =>
    Some (match m t k with Some r => a_set t k (Some (set_cols sets r)) m | None => m end)
  | CCommit => Some m
  end.

Fixpoint a_run (p : list cstmt) (m : amap) : amap :=
  match p with
  | [] => m
  | s :: p' => match a_exec s m with Some m' => a_run p' m' | None => m end
  end.

Definition a_body (S : store_def) (m : amap) (o : op) : list cstmt :=
  match o with
  | OCall mth a => inst (sd_width S) (prog_of (sd_progs S) mth) a
  | OOpen a =>
    match m (fst (sd_init_guard S)) (snd (sd_init_guard S)) with
    | Some _ => []
    | None => inst (sd_width S) (sd_init_prog S) a
    end
  end.

Definition spec_op (S : store_def) (m : amap) (o : op) : amap := a_run (a_body S m o) m.
Definition spec_run (S : store_def) (ops : list op) : amap :=
  fold_left (spec_op S) ops (fun _ _ => None).

(* what a reader sees of a database *)
Definition view (d : db) : amap := fun t k => t_lookup k (d t).

(* ---------- computed side conditions on templates ---------- *)
Definition twrites_s (s : sstmt) : N :=
  match s with TDelete t _ _ | TInsert _ t _ _ | TUpdate t _ _ => t end.

Definition twrites (s : tstmt) : list N :=
  match s with TS s | TEach s => [twrites_s s] | TCommit => [] end.

Definition memN (t : N) (l : list N) : bool := existsb (N.eqb t) l.

(* (1) commits separate tables: no table is written both before and after a commit *)
Fixpoint tsep (written : list N) (p : prog) : bool :=
  match p with
  | [] => true
  | TCommit :: p' =>
    forallb (fun t => negb (memN t (flat_map twrites p'))) written && tsep written p'
  | s :: p' => tsep (twrites s ++ written) p'
  end.

(* (2) the body is closed: it ends committed, and a statement that can raise (plain INSERT)
   is preceded, inside its transaction, by nothing but DELETEs of the very row it inserts *)
Inductive seg := SegClean | SegDel (t : N) (k : list vref) | SegDirty.

Definition vref_eqb (a b : vref) : bool :=
  match a, b with
  | VArg i, VArg j => Nat.eqb i j
  | VConst c, VConst d => cell_eqb c d
  | VLoop, VLoop => true
  | _, _ => false
  end.

Definition tclosed_step (sg : seg) (s : tstmt) : option seg :=
  match s with
  | TCommit => Some SegClean
  | TS (TDelete t k _) =>
    match sg with
    | SegClean => Some (SegDel t k)
    | SegDel t' k' => if ((t' =? t)%N && list_eqb vref_eqb k' k)%bool then Some sg else Some SegDirty
    | SegDirty => Some SegDirty
    end
  | TS (TInsert false t k _) =>
    match sg with
    | SegClean => Some SegDirty
    | SegDel t' k' => if ((t' =? t)%N && list_eqb vref_eqb k' k)%bool then Some SegDirty else None
    | SegDirty => None
    end
  | TS _ => Some SegDirty
  | TEach (TInsert false _ _ _) => None        (* a loop of raising statements is not accepted *)
  | TEach _ => Some SegDirty
  end.

Fixpoint tclosed (sg : seg) (p : prog) : bool :=
  match p with
  | [] => match sg with SegClean => true | _ => false end
  | s :: p' => match tclosed_step sg s with Some sg' => tclosed sg' p' | None => false end
  end.

Definition prog_ok (p : prog) : bool := tsep [] p && tclosed SegClean p.

Definition store_ok (S : store_def) : bool :=
  forallb (fun mp => prog_ok (snd mp)) (sd_progs S) && prog_ok (sd_init_prog S).
