(* Glue between the sx line format and the C13 model (unverified, trusted, tiny). *)
From YV Require Import Common.Tac Common.Sx C13.C13Model Gen.C13Programs.

Definition cells_of (s : sx) : list cell := map sx_get_b (sx_get_l s).

(* op: (N0 Nmethod (B.. scalars) (B.. loop))  |  (N1 (B.. generated identity)) *)
Definition op_of (s : sx) : op :=
  if (sx_get_n (sx_nth s 0) =? 0)%N
  then OCall (sx_get_n (sx_nth s 1)) (mkArgs (cells_of (sx_nth s 2)) (cells_of (sx_nth s 3)))
  else OOpen (mkArgs (cells_of (sx_nth s 1)) []).

Definition dump_table (tb : table) : sx :=
  SL (map (fun e => SL [SL (map SB (fst e)); SL (map SB (snd e))]) tb).

Definition dump_db (d : db) : sx :=
  SL (map (fun i => dump_table (d (N.of_nat i))) (seq 0 (N.to_nat gen_ntables))).

Fixpoint trace (c : conn) (ops : list op) : list sx :=
  match ops with
  | [] => []
  | o :: ops' =>
    SL (map (fun c' => dump_db (dur c')) (states (body gen_store c o) (start c o)))
       :: trace (run_op gen_store c o) ops'
  end.

(* arg: (op ...) -> per op, the durable database at every instant the process can die in
   (before the op, after every executed statement and commit) *)
Definition run_trace (arg : sx) : sx := SL (trace conn0 (map op_of (sx_get_l arg))).

(* arg: (op ...) -> (durable db, working db) after the whole sequence *)
Definition run_final (arg : sx) : sx :=
  let c := run_ops gen_store (map op_of (sx_get_l arg)) in SL [dump_db (dur c); dump_db (cur c)].

Definition run_store_ok (arg : sx) : sx := sx_bool (store_ok gen_store).
