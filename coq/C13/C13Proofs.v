(* C13 — proofs.  Everything here is generic in the store definition (the programs come
   from coq/Gen/C13Programs.v); the only facts used about them are the computed booleans
   [tsep] and [tclosed] of C13Model.                                                       *)
From YV Require Import Common.Tac C13.C13Model.

(* ---------------------------------------------------------------- equality tests *)
Lemma list_eqb_spec {A} (e : A -> A -> bool) :
  (forall a b, e a b = true <-> a = b) -> forall l m, list_eqb e l m = true <-> l = m.
Proof.
  intros He. induction l as [|a l IH]; destruct m as [|b m]; cbn [list_eqb]; split; intros H;
    try reflexivity; try discriminate.
  - apply andb_true_iff in H. destruct H as [H1 H2]. apply He in H1. apply IH in H2. congruence.
  - apply cons_inj in H. destruct H as [H1 H2]. apply andb_true_iff. split.
    + apply He. exact H1.
    + apply IH. exact H2.
Qed.

Lemma cell_eqb_eq a b : cell_eqb a b = true <-> a = b.
Proof. apply list_eqb_spec. intros x y. apply N.eqb_eq. Qed.

Lemma key_eqb_eq a b : key_eqb a b = true <-> a = b.
Proof. apply list_eqb_spec. exact cell_eqb_eq. Qed.

Lemma key_eqb_refl k : key_eqb k k = true.
Proof. apply key_eqb_eq. reflexivity. Qed.

Lemma key_eqb_sym a b : key_eqb a b = key_eqb b a.
Proof.
  destruct (key_eqb a b) eqn:E1, (key_eqb b a) eqn:E2; try reflexivity.
  - apply key_eqb_eq in E1. subst. rewrite key_eqb_refl in E2. discriminate.
  - apply key_eqb_eq in E2. subst. rewrite key_eqb_refl in E1. discriminate.
Qed.

Lemma vref_eqb_eq a b : vref_eqb a b = true -> a = b.
Proof.
  destruct a, b; cbn [vref_eqb]; intros H; try discriminate; try reflexivity.
  - apply Nat.eqb_eq in H. congruence.
  - apply cell_eqb_eq in H. congruence.
Qed.

Lemma vrefs_eqb_eq a b : list_eqb vref_eqb a b = true -> a = b.
Proof.
  revert b. induction a as [|x a IH]; destruct b as [|y b]; cbn [list_eqb]; intros H;
    try reflexivity; try discriminate.
  apply andb_true_iff in H. destruct H as [H1 H2]. apply vref_eqb_eq in H1. apply IH in H2.
  congruence.
Qed.

Lemma memN_In t l : memN t l = true <-> In t l.
Proof.
  unfold memN. rewrite existsb_exists. split.
  - intros [x [Hx He]]. apply N.eqb_eq in He. subst. exact Hx.
  - intros H. exists t. split; [exact H|apply N.eqb_refl].
Qed.

(* ---------------------------------------------------------------- tables as maps *)
Lemma lookup_app k a b :
  t_lookup k (a ++ b) = match t_lookup k a with Some r => Some r | None => t_lookup k b end.
Proof.
  induction a as [|[k' r] a IH]; cbn [t_lookup app]; [reflexivity|].
  destruct (key_eqb k k'); [reflexivity|exact IH].
Qed.

Lemma lookup_remove k' k tb :
  t_lookup k' (t_remove k tb) = if key_eqb k' k then None else t_lookup k' tb.
Proof.
  unfold t_remove. induction tb as [|[k2 r] tb IH]; cbn [filter t_lookup fst].
  - destruct (key_eqb k' k); reflexivity.
  - destruct (key_eqb k k2) eqn:E; cbn [negb].
    + apply key_eqb_eq in E. subst k2. rewrite IH. destruct (key_eqb k' k); reflexivity.
    + cbn [t_lookup]. rewrite IH. destruct (key_eqb k' k2) eqn:E2; [|reflexivity].
      apply key_eqb_eq in E2. subst k2. rewrite key_eqb_sym, E. reflexivity.
Qed.

Lemma lookup_delete k' k f tb :
  t_lookup k' (t_delete k f tb) =
  if key_eqb k' k then
    match t_lookup k tb with Some r => if matches f r then None else Some r | None => None end
  else t_lookup k' tb.
Proof.
  unfold t_delete. destruct (key_eqb k' k) eqn:E.
  - apply key_eqb_eq in E. subst k'. destruct (t_lookup k tb) as [r|] eqn:L; [|exact L].
    destruct (matches f r); [|exact L]. rewrite lookup_remove, key_eqb_refl. reflexivity.
  - destruct (t_lookup k tb) as [r|]; [|reflexivity].
    destruct (matches f r); [|reflexivity]. rewrite lookup_remove, E. reflexivity.
Qed.

Lemma delete_cases k f tb : t_delete k f tb = tb \/ t_lookup k (t_delete k f tb) = None.
Proof.
  unfold t_delete. destruct (t_lookup k tb) as [r|] eqn:L; [|left; reflexivity].
  destruct (matches f r); [|left; reflexivity].
  right. rewrite lookup_remove, key_eqb_refl. reflexivity.
Qed.

Lemma delete_absent k f tb : t_lookup k tb = None -> t_delete k f tb = tb.
Proof. unfold t_delete. intros ->. reflexivity. Qed.

Lemma lookup_insert k' k r tb tb' : t_insert k r tb = Some tb' ->
  t_lookup k' tb' = if key_eqb k' k then Some r else t_lookup k' tb.
Proof.
  unfold t_insert. destruct (t_lookup k tb) eqn:L; [discriminate|]. intros H.
  apply Some_inj in H. subst tb'. rewrite lookup_app. cbn [t_lookup].
  destruct (key_eqb k' k) eqn:E.
  - apply key_eqb_eq in E. subst k'. rewrite L. reflexivity.
  - destruct (t_lookup k' tb); reflexivity.
Qed.

Lemma lookup_replace k' k r tb :
  t_lookup k' (t_replace k r tb) = if key_eqb k' k then Some r else t_lookup k' tb.
Proof.
  unfold t_replace. rewrite lookup_app, lookup_remove. cbn [t_lookup].
  destruct (key_eqb k' k); [reflexivity|]. destruct (t_lookup k' tb); reflexivity.
Qed.

Lemma lookup_update k' k sets tb :
  t_lookup k' (t_update k sets tb) =
  if key_eqb k' k then match t_lookup k tb with Some r => Some (set_cols sets r) | None => None end
  else t_lookup k' tb.
Proof.
  unfold t_update. induction tb as [|[k2 r] tb IH]; cbn [map t_lookup fst snd].
  - destruct (key_eqb k' k); reflexivity.
  - destruct (key_eqb k k2) eqn:E; cbn [t_lookup fst snd].
    + apply key_eqb_eq in E. subst k2. destruct (key_eqb k' k); [reflexivity|exact IH].
    + rewrite IH. destruct (key_eqb k' k2) eqn:E2; [|reflexivity].
      destruct (key_eqb k' k) eqn:E3; [|reflexivity].
      apply key_eqb_eq in E2, E3. subst. rewrite key_eqb_refl in E. discriminate.
Qed.

(* ---------------------------------------------------------------- set_tbl *)
Lemma set_tbl_same t tb d : set_tbl t tb d t = tb.
Proof. unfold set_tbl. rewrite N.eqb_refl. reflexivity. Qed.

Lemma set_tbl_other t t' tb d : t' <> t -> set_tbl t tb d t' = d t'.
Proof. unfold set_tbl. intros H. destruct (N.eqb_spec t' t); [contradiction|reflexivity]. Qed.

Lemma set_tbl_id t d t' : set_tbl t (d t) d t' = d t'.
Proof. unfold set_tbl. destruct (N.eqb_spec t' t); [subst; reflexivity|reflexivity]. Qed.

Lemma writes_commit s : writes s = None -> s = CCommit.
Proof. destruct s; cbn [writes]; intros H; try discriminate. reflexivity. Qed.

Lemma exec_frame s d d' t : exec s d = Some d' -> writes s <> Some t -> d' t = d t.
Proof.
  destruct s as [t0 k f|o t0 k r|t0 k sets|]; cbn [exec writes]; intros H Hw.
  - apply Some_inj in H. subst d'. apply set_tbl_other. congruence.
  - destruct o.
    + apply Some_inj in H. subst d'. apply set_tbl_other. congruence.
    + destruct (t_insert k r (d t0)); [|discriminate]. apply Some_inj in H. subst d'.
      apply set_tbl_other. congruence.
  - apply Some_inj in H. subst d'. apply set_tbl_other. congruence.
  - apply Some_inj in H. subst d'. reflexivity.
Qed.

Lemma step_commit c : step CCommit c = Some (mkConn (cur c) (cur c)).
Proof. reflexivity. Qed.

Lemma step_write s c t : writes s = Some t ->
  step s c = match exec s (cur c) with Some d => Some (mkConn (dur c) d) | None => None end.
Proof. destruct s; cbn [writes]; intros H; try discriminate; reflexivity. Qed.

(* ---------------------------------------------------------------- refinement to maps *)
Definition sim (d : db) (m : amap) : Prop := forall t k, view d t k = m t k.

Lemma view_set_tbl t tb d m (v : option row) k :
  sim d m -> (forall k', t_lookup k' tb = if key_eqb k' k then v else t_lookup k' (d t)) ->
  sim (set_tbl t tb d) (a_set t k v m).
Proof.
  intros Hs Hl t' k'. unfold view, a_set, set_tbl. destruct (N.eqb_spec t' t) as [->|Hne].
  - cbn [andb]. rewrite Hl. destruct (key_eqb k' k); [reflexivity|apply Hs].
  - cbn [andb]. apply Hs.
Qed.

Lemma view_set_tbl_same t tb d m :
  sim d m -> (forall k', t_lookup k' tb = t_lookup k' (d t)) -> sim (set_tbl t tb d) m.
Proof.
  intros Hs Hl t' k'. unfold view, set_tbl. destruct (N.eqb_spec t' t) as [->|Hne].
  - rewrite Hl. apply Hs.
  - apply Hs.
Qed.

Lemma exec_sim s d m : sim d m ->
  match exec s d, a_exec s m with
  | Some d', Some m' => sim d' m'
  | None, None => True
  | _, _ => False
  end.
Proof.
  intros Hs. destruct s as [t k f|o t k r|t k sets|]; cbn [exec a_exec].
  - pose proof (Hs t k) as Hk. unfold view in Hk. rewrite <- Hk.
    destruct (t_lookup k (d t)) as [r|] eqn:L.
    + destruct (matches f r) eqn:M.
      * apply view_set_tbl; [exact Hs|]. intros k'. rewrite lookup_delete, L, M. reflexivity.
      * apply view_set_tbl_same; [exact Hs|]. intros k'. rewrite lookup_delete, L, M.
        destruct (key_eqb k' k) eqn:E; [|reflexivity]. apply key_eqb_eq in E. subst. auto.
    + apply view_set_tbl_same; [exact Hs|]. intros k'. rewrite lookup_delete, L.
      destruct (key_eqb k' k) eqn:E; [|reflexivity]. apply key_eqb_eq in E. subst. auto.
  - destruct o.
    + apply view_set_tbl; [exact Hs|]. intros k'. apply lookup_replace.
    + pose proof (Hs t k) as Hk. unfold view in Hk. rewrite <- Hk.
      destruct (t_insert k r (d t)) as [tb|] eqn:I.
      * assert (L : t_lookup k (d t) = None).
        { unfold t_insert in I. destruct (t_lookup k (d t)); [discriminate|reflexivity]. }
        rewrite L. apply view_set_tbl; [exact Hs|]. intros k'. eapply lookup_insert. exact I.
      * unfold t_insert in I. destruct (t_lookup k (d t)); [exact Logic.I|discriminate].
  - pose proof (Hs t k) as Hk. unfold view in Hk. rewrite <- Hk.
    destruct (t_lookup k (d t)) as [r|] eqn:L.
    + apply view_set_tbl; [exact Hs|]. intros k'. rewrite lookup_update, L. reflexivity.
    + apply view_set_tbl_same; [exact Hs|]. intros k'. rewrite lookup_update, L.
      destruct (key_eqb k' k) eqn:E; [|reflexivity]. apply key_eqb_eq in E. subst. auto.
  - exact Hs.
Qed.

(* a whole body: the working database follows the abstract map *)
Lemma run_sim : forall p c m, sim (cur c) m -> sim (cur (run_prog p c)) (a_run p m).
Proof.
  induction p as [|s p IH]; intros c m Hs; cbn [run_prog a_run]; [exact Hs|].
  destruct (writes s) as [t|] eqn:W.
  - rewrite (step_write _ _ _ W). pose proof (exec_sim s _ _ Hs) as He.
    destruct (exec s (cur c)) as [d'|], (a_exec s m) as [m'|]; try contradiction.
    + apply IH. exact He.
    + exact Hs.
  - apply writes_commit in W. subst s. rewrite step_commit. cbn [a_exec]. apply IH. exact Hs.
Qed.

(* ---------------------------------------------------------------- atomicity, concrete *)
Definition wl (s : cstmt) : list N := match writes s with Some t => [t] | None => [] end.
Definition cwrites_all (p : list cstmt) : list N := flat_map wl p.

Fixpoint csep (written : list N) (p : list cstmt) : bool :=
  match p with
  | [] => true
  | s :: p' =>
    match writes s with
    | None => forallb (fun t => negb (memN t (cwrites_all p'))) written && csep written p'
    | Some t => csep (t :: written) p'
    end
  end.

Lemma frame : forall p c t, ~ In t (cwrites_all p) ->
  cur (run_prog p c) t = cur c t /\
  (dur (run_prog p c) t = dur c t \/ dur (run_prog p c) t = cur c t).
Proof.
  induction p as [|s p IH]; intros c t Hn; cbn [run_prog]; [auto|].
  assert (Hn' : ~ In t (cwrites_all p)).
  { intros H. apply Hn. unfold cwrites_all. cbn [flat_map]. apply in_or_app. right. exact H. }
  destruct (writes s) as [t0|] eqn:W.
  - rewrite (step_write _ _ _ W). destruct (exec s (cur c)) as [d'|] eqn:E; [|auto].
    assert (Hd : d' t = cur c t).
    { eapply exec_frame; [exact E|]. rewrite W. intros H. apply Some_inj in H. subst t0.
      apply Hn. unfold cwrites_all. cbn [flat_map]. apply in_or_app. left. unfold wl.
      rewrite W. left. reflexivity. }
    destruct (IH (mkConn (dur c) d') t Hn') as [H1 H2]. cbn [cur dur] in H1, H2.
    rewrite H1, Hd. split; [reflexivity|]. destruct H2 as [H2|H2]; rewrite H2; auto.
  - apply writes_commit in W. subst s. rewrite step_commit.
    destruct (IH (mkConn (cur c) (cur c)) t Hn') as [H1 H2]. cbn [cur dur] in H1, H2.
    split; [exact H1|]. right. destruct H2 as [H2|H2]; exact H2.
Qed.

Lemma atomic_gen : forall p (B du cu : db) (W : list N),
  csep W p = true ->
  (forall t, du t = B t \/ (du t = cu t /\ ~ In t (cwrites_all p))) ->
  (forall t, ~ In t W -> cu t = B t) ->
  forall c', In c' (states p (mkConn du cu)) ->
  forall t, dur c' t = B t \/ dur c' t = dur (run_prog p (mkConn du cu)) t.
Proof.
  induction p as [|s p IH]; intros B du cu W Hsep Hd Hc c' Hin t.
  - cbn [states] in Hin. destruct Hin as [<-|[]]. cbn [run_prog dur]. right. reflexivity.
  - (* the state before s *)
    assert (Hhead : dur (mkConn du cu) t = B t \/
                    dur (mkConn du cu) t = dur (run_prog (s :: p) (mkConn du cu)) t).
    { cbn [dur]. destruct (Hd t) as [H|[H1 H2]]; [left; exact H|]. right.
      destruct (frame (s :: p) (mkConn du cu) t H2) as [_ [F|F]]; cbn [dur cur] in F;
        rewrite F; congruence. }
    cbn [states] in Hin. destruct Hin as [<-|Hin]; [exact Hhead|].
    cbn [run_prog]. cbn [csep] in Hsep.
    destruct (writes s) as [t0|] eqn:Wr.
    + rewrite (step_write _ _ _ Wr) in Hin |- *. cbn [cur dur] in Hin |- *.
      destruct (exec s cu) as [d'|] eqn:E; [|destruct Hin].
      apply (IH B du d' (t0 :: W) Hsep); [| |exact Hin].
      * intros t1. destruct (Hd t1) as [H|[H1 H2]]; [left; exact H|]. right.
        assert (Hne : writes s <> Some t1).
        { rewrite Wr. intros H. apply Some_inj in H. subst t0. apply H2. unfold cwrites_all.
          cbn [flat_map]. apply in_or_app. left. unfold wl. rewrite Wr. left. reflexivity. }
        split.
        -- rewrite (exec_frame _ _ _ _ E Hne). exact H1.
        -- intros H. apply H2. unfold cwrites_all. cbn [flat_map]. apply in_or_app. right. exact H.
      * intros t1 Hn. assert (Hne : writes s <> Some t1).
        { rewrite Wr. intros H. apply Some_inj in H. subst t0. apply Hn. left. reflexivity. }
        rewrite (exec_frame _ _ _ _ E Hne). apply Hc. intros H. apply Hn. right. exact H.
    + apply writes_commit in Wr. subst s. rewrite step_commit in Hin |- *.
      cbn [cur dur] in Hin |- *. apply andb_true_iff in Hsep. destruct Hsep as [Hs1 Hs2].
      apply (IH B cu cu W Hs2); [| |exact Hin].
      * intros t1. destruct (in_dec N.eq_dec t1 W) as [Hw|Hw].
        -- right. split; [reflexivity|]. rewrite forallb_forall in Hs1. specialize (Hs1 t1 Hw).
           intros H. apply memN_In in H. rewrite H in Hs1. discriminate.
        -- left. apply Hc. exact Hw.
      * exact Hc.
Qed.

(* ---------------------------------------------------------------- closedness, concrete *)
Inductive cseg := CgClean | CgDel (t : N) (k : key) | CgDirty.

Definition cclosed_step (sg : cseg) (s : cstmt) : option cseg :=
  match s with
  | CCommit => Some CgClean
  | CDelete t k _ =>
    match sg with
    | CgClean => Some (CgDel t k)
    | CgDel t' k' => if ((t' =? t)%N && key_eqb k' k)%bool then Some sg else Some CgDirty
    | CgDirty => Some CgDirty
    end
  | CInsert false t k _ =>
    match sg with
    | CgClean => Some CgDirty
    | CgDel t' k' => if ((t' =? t)%N && key_eqb k' k)%bool then Some CgDirty else None
    | CgDirty => None
    end
  | _ => Some CgDirty
  end.

Fixpoint cclosed (sg : cseg) (p : list cstmt) : bool :=
  match p with
  | [] => match sg with CgClean => true | _ => false end
  | s :: p' => match cclosed_step sg s with Some sg' => cclosed sg' p' | None => false end
  end.

Definition clean (c : conn) : Prop := forall t, cur c t = dur c t.

Definition seg_inv (sg : cseg) (c : conn) : Prop :=
  match sg with
  | CgClean => clean c
  | CgDel t k => clean c \/ t_lookup k (cur c t) = None
  | CgDirty => True
  end.

Lemma cclosed_clean : forall p sg c, seg_inv sg c -> cclosed sg p = true -> clean (run_prog p c).
Proof.
  induction p as [|s p IH]; intros sg c Hi Hc; cbn [run_prog].
  - cbn [cclosed] in Hc. destruct sg; try discriminate. exact Hi.
  - cbn [cclosed] in Hc. destruct (cclosed_step sg s) as [sg'|] eqn:St; [|discriminate].
    destruct s as [t k f|o t k r|t k sets|].
    + (* DELETE never raises *)
      cbn [step exec]. apply (IH sg'); [|exact Hc].
      set (c' := mkConn (dur c) (set_tbl t (t_delete k f (cur c t)) (cur c))).
      assert (Hsame : t_delete k f (cur c t) = cur c t -> forall t1, cur c' t1 = cur c t1).
      { intros H t1. unfold c'. cbn [cur]. rewrite H. apply set_tbl_id. }
      cbn [cclosed_step] in St. destruct sg as [|t' k'|].
      * apply Some_inj in St. subst sg'. cbn [seg_inv] in Hi |- *.
        destruct (delete_cases k f (cur c t)) as [H|H].
        -- left. intros t1. rewrite (Hsame H). apply Hi.
        -- right. unfold c'. cbn [cur]. rewrite set_tbl_same. exact H.
      * destruct ((t' =? t)%N && key_eqb k' k)%bool eqn:E;
          apply Some_inj in St; subst sg'; [|exact I].
        apply andb_true_iff in E. destruct E as [E1 E2]. apply N.eqb_eq in E1.
        apply key_eqb_eq in E2. subst t' k'. cbn [seg_inv] in Hi |- *. destruct Hi as [Hi|Hi].
        -- destruct (delete_cases k f (cur c t)) as [H|H].
           ++ left. intros t1. rewrite (Hsame H). apply Hi.
           ++ right. unfold c'. cbn [cur]. rewrite set_tbl_same. exact H.
        -- right. unfold c'. cbn [cur]. rewrite set_tbl_same.
           rewrite (delete_absent _ _ _ Hi). exact Hi.
      * apply Some_inj in St. subst sg'. exact I.
    + destruct o.
      * cbn [step exec]. cbn [cclosed_step] in St. apply Some_inj in St. subst sg'.
        apply (IH CgDirty); [exact I|exact Hc].
      * cbn [step exec]. destruct (t_insert k r (cur c t)) as [tb|] eqn:Ins.
        -- apply (IH sg'); [|exact Hc]. cbn [cclosed_step] in St.
           destruct sg as [|t' k'|]; try discriminate.
           ++ apply Some_inj in St. subst sg'. exact I.
           ++ destruct ((t' =? t)%N && key_eqb k' k)%bool; [|discriminate].
              apply Some_inj in St. subst sg'. exact I.
        -- (* IntegrityError: nothing of this transaction is pending *)
           cbn [cclosed_step] in St. destruct sg as [|t' k'|]; try discriminate.
           ++ exact Hi.
           ++ destruct ((t' =? t)%N && key_eqb k' k)%bool eqn:E; [|discriminate].
              apply andb_true_iff in E. destruct E as [E1 E2]. apply N.eqb_eq in E1.
              apply key_eqb_eq in E2. subst t' k'. cbn [seg_inv] in Hi. destruct Hi as [Hi|Hi].
              ** exact Hi.
              ** unfold t_insert in Ins. rewrite Hi in Ins. discriminate.
    + cbn [step exec]. cbn [cclosed_step] in St. apply Some_inj in St. subst sg'.
      apply (IH CgDirty); [exact I|exact Hc].
    + cbn [step]. cbn [cclosed_step] in St. apply Some_inj in St. subst sg'.
      apply (IH CgClean); [|exact Hc]. intros t. reflexivity.
Qed.

(* a statement that cannot raise and is not a commit *)
Definition quiet (s : cstmt) : Prop :=
  match s with CInsert false _ _ _ | CCommit => False | _ => True end.

Lemma cclosed_from_dirty : forall p sg, cclosed CgDirty p = true -> cclosed sg p = true.
Proof.
  induction p as [|s p IH]; intros sg H; cbn [cclosed] in H |- *; [discriminate|].
  destruct s as [t k f|o t k r|t k sets|]; cbn [cclosed_step] in H |- *.
  - destruct sg as [|t' k'|]; try (apply IH; exact H).
    destruct ((t' =? t)%N && key_eqb k' k)%bool; apply IH; exact H.
  - destruct o; [exact H|discriminate].
  - exact H.
  - exact H.
Qed.

Lemma cclosed_quiet : forall l q sg, Forall quiet l ->
  cclosed CgDirty q = true -> cclosed sg (l ++ q) = true.
Proof.
  induction l as [|s l IH]; intros q sg Hq H; cbn [app].
  - apply cclosed_from_dirty. exact H.
  - inversion Hq as [|s' l' Hs Hl]; subst. cbn [cclosed].
    destruct s as [t k f|o t k r|t k sets|]; cbn [cclosed_step quiet] in Hs |- *.
    + destruct sg as [|t' k'|]; try (apply IH; assumption).
      destruct ((t' =? t)%N && key_eqb k' k)%bool; apply IH; assumption.
    + destruct o; [apply IH; assumption|contradiction].
    + apply IH; assumption.
    + contradiction.
Qed.

(* ---------------------------------------------------------------- templates -> concrete *)
Section Inst.
Variable width : N -> nat.
Variable ar : args.

Lemma inst_s_writes x s : writes (inst_s width (scalars ar) x s) = Some (twrites_s s).
Proof. destruct s; reflexivity. Qed.

Lemma inst_t_writes s t : In t (cwrites_all (inst_t width ar s)) -> In t (twrites s).
Proof.
  destruct s as [s|s|]; cbn [inst_t twrites].
  - unfold cwrites_all. cbn [flat_map]. unfold wl. rewrite inst_s_writes. rewrite app_nil_r. auto.
  - unfold cwrites_all. intros H. apply in_flat_map in H. destruct H as [c [Hc Ht]].
    apply in_map_iff in Hc. destruct Hc as [x [<- _]]. unfold wl in Ht.
    rewrite inst_s_writes in Ht. exact Ht.
  - unfold cwrites_all. cbn. auto.
Qed.

Lemma cwrites_app a b : cwrites_all (a ++ b) = cwrites_all a ++ cwrites_all b.
Proof. unfold cwrites_all. apply flat_map_app. Qed.

Lemma inst_writes p t : In t (cwrites_all (inst width p ar)) -> In t (flat_map twrites p).
Proof.
  induction p as [|s p IH]; cbn [inst flat_map]; [auto|].
  fold (inst width p ar). rewrite cwrites_app. intros H. apply in_app_or in H.
  apply in_or_app. destruct H as [H|H]; [left; apply inst_t_writes; exact H|right; apply IH; exact H].
Qed.

Lemma csep_same_tbl : forall l rest t W,
  Forall (fun s => writes s = Some t) l ->
  (forall Wc, incl Wc (t :: W) -> csep Wc rest = true) ->
  forall Wc, incl Wc (t :: W) -> csep Wc (l ++ rest) = true.
Proof.
  induction l as [|s l IH]; intros rest t W Hl Hr Wc Hi; cbn [app]; [apply Hr; exact Hi|].
  inversion Hl as [|s' l' Hs Hl']; subst. cbn [csep]. rewrite Hs.
  apply (IH rest t W Hl' Hr). intros x [<-|Hx]; [left; reflexivity|apply Hi; exact Hx].
Qed.

Lemma tsep_csep : forall p W Wc, incl Wc W -> tsep W p = true -> csep Wc (inst width p ar) = true.
Proof.
  induction p as [|s p IH]; intros W Wc Hi H; [reflexivity|].
  cbn [inst flat_map]. fold (inst width p ar).
  destruct s as [s|s|]; cbn [tsep twrites app] in H; cbn [inst_t].
  - cbn [app csep]. rewrite inst_s_writes. apply (IH (twrites_s s :: W)); [|exact H].
    intros x [<-|Hx]; [left; reflexivity|right; apply Hi; exact Hx].
  - apply (csep_same_tbl _ _ (twrites_s s) W).
    + apply Forall_forall. intros c Hc. apply in_map_iff in Hc. destruct Hc as [x [<- _]].
      apply inst_s_writes.
    + intros Wc' Hi'. apply (IH (twrites_s s :: W)); assumption.
    + intros x Hx. right. apply Hi. exact Hx.
  - cbn [app csep writes]. apply andb_true_iff in H. destruct H as [H1 H2].
    apply andb_true_iff. split; [|apply (IH W); assumption].
    apply forallb_forall. intros t Ht. rewrite forallb_forall in H1.
    specialize (H1 t (Hi t Ht)). destruct (memN t (cwrites_all (inst width p ar))) eqn:M;
      [|reflexivity].
    apply memN_In in M. apply inst_writes in M. apply memN_In in M. rewrite M in H1. discriminate.
Qed.

Definition cmap (sg : seg) : cseg :=
  match sg with
  | SegClean => CgClean
  | SegDel t k => CgDel t (map (vval (scalars ar) NULL) k)
  | SegDirty => CgDirty
  end.

Lemma inst_s_quiet x s : (match s with TInsert false _ _ _ => False | _ => True end) ->
  quiet (inst_s width (scalars ar) x s).
Proof. destruct s as [| [|] |]; cbn [inst_s quiet]; auto. Qed.

Lemma tclosed_cclosed : forall p sg, tclosed sg p = true ->
  cclosed (cmap sg) (inst width p ar) = true.
Proof.
  induction p as [|s p IH]; intros sg H.
  - cbn [tclosed] in H. destruct sg; try discriminate. reflexivity.
  - cbn [tclosed] in H. destruct (tclosed_step sg s) as [sg'|] eqn:St; [|discriminate].
    specialize (IH sg' H). cbn [inst flat_map]. fold (inst width p ar).
    destruct s as [s|s|].
    + cbn [inst_t app cclosed]. destruct s as [t k f|o t k cols|t k sets];
        cbn [tclosed_step] in St; cbn [inst_s cclosed_step].
      * destruct sg as [|t' k'|]; cbn [cmap].
        -- apply Some_inj in St. subst sg'. exact IH.
        -- destruct ((t' =? t)%N && list_eqb vref_eqb k' k)%bool eqn:E;
             apply Some_inj in St; subst sg'.
           ++ apply andb_true_iff in E. destruct E as [E1 E2]. apply vrefs_eqb_eq in E2.
              subst k'. rewrite E1, key_eqb_refl. cbn [andb]. exact IH.
           ++ destruct ((t' =? t)%N && key_eqb _ _)%bool;
                [apply cclosed_from_dirty; exact IH|exact IH].
        -- apply Some_inj in St. subst sg'. exact IH.
      * destruct o.
        -- apply Some_inj in St. subst sg'. exact IH.
        -- destruct sg as [|t' k'|]; cbn [cmap]; try discriminate.
           ++ apply Some_inj in St. subst sg'. exact IH.
           ++ destruct ((t' =? t)%N && list_eqb vref_eqb k' k)%bool eqn:E; [|discriminate].
              apply Some_inj in St. subst sg'.
              apply andb_true_iff in E. destruct E as [E1 E2]. apply vrefs_eqb_eq in E2.
              subst k'. rewrite E1, key_eqb_refl. cbn [andb]. exact IH.
      * apply Some_inj in St. subst sg'. exact IH.
    + cbn [inst_t]. assert (Hs : match s with TInsert false _ _ _ => False | _ => True end /\
                                  sg' = SegDirty).
      { cbn [tclosed_step] in St. destruct s as [| [|] |]; try discriminate;
          apply Some_inj in St; auto. }
      destruct Hs as [Hs ->]. apply cclosed_quiet; [|exact IH].
      apply Forall_forall. intros c Hc. apply in_map_iff in Hc. destruct Hc as [x [<- _]].
      apply inst_s_quiet. exact Hs.
    + cbn [inst_t app cclosed cclosed_step]. cbn [tclosed_step] in St. apply Some_inj in St.
      subst sg'. exact IH.
Qed.

Lemma prog_ok_concrete p : prog_ok p = true ->
  csep [] (inst width p ar) = true /\ cclosed CgClean (inst width p ar) = true.
Proof.
  unfold prog_ok. intros H. apply andb_true_iff in H. destruct H as [H1 H2]. split.
  - apply (tsep_csep p [] []); [apply incl_refl|exact H1].
  - apply (tclosed_cclosed p SegClean). exact H2.
Qed.
End Inst.

(* ---------------------------------------------------------------- the store *)
Section Store.
Variable S : store_def.
Hypothesis S_ok : store_ok S = true.

Lemma prog_of_ok : forall ps m, forallb (fun mp => prog_ok (snd mp)) ps = true ->
  prog_ok (prog_of ps m) = true.
Proof.
  induction ps as [|[m' p] ps IH]; intros m H; cbn [prog_of]; [reflexivity|].
  cbn [forallb snd] in H. apply andb_true_iff in H. destruct H as [H1 H2].
  destruct (m' =? m)%N; [exact H1|apply IH; exact H2].
Qed.

Lemma body_ok c o : csep [] (body S c o) = true /\ cclosed CgClean (body S c o) = true.
Proof.
  unfold store_ok in S_ok. apply andb_true_iff in S_ok. destruct S_ok as [H1 H2].
  destruct o as [m a|a]; cbn [body].
  - apply prog_ok_concrete. apply prog_of_ok. exact H1.
  - destruct (t_lookup _ _); [split; reflexivity|]. apply prog_ok_concrete. exact H2.
Qed.

Lemma start_clean c o : clean c -> clean (start c o).
Proof. intros H. destruct o; cbn [start]; [exact H|]. intros t. reflexivity. Qed.

Lemma start_dur c o : dur (start c o) = dur c.
Proof. destruct o; reflexivity. Qed.

Lemma run_op_clean c o : clean c -> clean (run_op S c o).
Proof.
  intros H. unfold run_op. apply (cclosed_clean _ CgClean).
  - apply start_clean. exact H.
  - apply body_ok.
Qed.

Lemma run_ops_clean_from : forall ops c, clean c -> clean (fold_left (run_op S) ops c).
Proof.
  induction ops as [|o ops IH]; intros c H; cbn [fold_left]; [exact H|].
  apply IH. apply run_op_clean. exact H.
Qed.

Lemma run_ops_clean ops : clean (run_ops S ops).
Proof. apply run_ops_clean_from. intros t. reflexivity. Qed.

Lemma body_sim c o m : clean c -> sim (cur c) m -> body S c o = a_body S m o.
Proof.
  intros Hc Hs. destruct o as [mth a|a]; cbn [body a_body]; [reflexivity|].
  pose proof (Hs (fst (sd_init_guard S)) (snd (sd_init_guard S))) as H. unfold view in H.
  rewrite <- H, (Hc (fst (sd_init_guard S))). reflexivity.
Qed.

Lemma run_op_sim c o m : clean c -> sim (cur c) m -> sim (cur (run_op S c o)) (spec_op S m o).
Proof.
  intros Hc Hs. unfold run_op, spec_op. rewrite (body_sim c o m Hc Hs). apply run_sim.
  destruct o; cbn [start]; [exact Hs|]. cbn [reopen cur]. intros t k. unfold view.
  rewrite <- (Hc t). apply Hs.
Qed.

Lemma run_ops_sim_from : forall ops c m, clean c -> sim (cur c) m ->
  sim (cur (fold_left (run_op S) ops c)) (fold_left (spec_op S) ops m).
Proof.
  induction ops as [|o ops IH]; intros c m Hc Hs; cbn [fold_left]; [exact Hs|].
  apply IH; [apply run_op_clean; exact Hc|apply run_op_sim; assumption].
Qed.

(* Durability: after any sequence of API calls and restarts, nothing is pending (closing and
   reopening the store changes nothing) and what a fresh store reads is exactly the abstract
   map maintained by the specification. *)
Theorem durable_thm : forall ops t k,
  cur (run_ops S ops) t = dur (run_ops S ops) t /\
  view (cur (reopen (run_ops S ops))) t k = spec_run S ops t k.
Proof.
  intros ops t k. split; [apply run_ops_clean|].
  cbn [reopen cur]. unfold view. rewrite <- (run_ops_clean ops t).
  apply (run_ops_sim_from ops conn0 (fun _ _ => None)).
  - intros t'. reflexivity.
  - intros t' k'. reflexivity.
Qed.

(* Atomicity: whatever happened before, for every instant c' at which the process can die
   during the next call o (before it, between any two statements, before/after any commit),
   every record of the reopened store has its value from before the call or its value from
   after the completed call. *)
Theorem atomic_thm : forall ops o c',
  In c' (states (body S (run_ops S ops) o) (start (run_ops S ops) o)) ->
  forall t k,
    view (dur (reopen c')) t k = view (dur (run_ops S ops)) t k \/
    view (dur (reopen c')) t k = view (dur (run_ops S (ops ++ [o]))) t k.
Proof.
  intros ops o c' Hin t k. set (c := run_ops S ops) in *.
  assert (Hcl : clean c) by apply run_ops_clean.
  assert (Hfin : run_ops S (ops ++ [o]) = run_op S c o).
  { unfold run_ops. rewrite fold_left_app. reflexivity. }
  rewrite Hfin. unfold run_op. cbn [reopen dur]. unfold view.
  destruct (body_ok c o) as [Hsep _].
  remember (start c o) as c0 eqn:Ec0. destruct c0 as [du cu].
  assert (Hdu : du = dur c). { rewrite <- (start_dur c o), <- Ec0. reflexivity. }
  assert (Hcu : forall t1, cu t1 = du t1).
  { intros t1. pose proof (start_clean c o Hcl t1) as H. rewrite <- Ec0 in H. exact H. }
  destruct (atomic_gen _ du du cu [] Hsep) with (c' := c') (t := t) as [H|H].
  - intros t1. left. reflexivity.
  - intros t1 _. apply Hcu.
  - exact Hin.
  - left. rewrite H, Hdu. reflexivity.
  - right. rewrite H. reflexivity.
Qed.

(* in particular: a record that exists before the call and exists after it is never missing *)
Corollary never_missing_thm : forall ops o c',
  In c' (states (body S (run_ops S ops) o) (start (run_ops S ops) o)) ->
  forall t k,
    view (dur (run_ops S ops)) t k <> None ->
    view (dur (run_ops S (ops ++ [o]))) t k <> None ->
    view (dur (reopen c')) t k <> None.
Proof.
  intros ops o c' Hin t k H1 H2. destruct (atomic_thm ops o c' Hin t k) as [H|H]; rewrite H; assumption.
Qed.
End Store.

(* ---------------------------------------------------------------- the unrepaired shape *)
(* replace = DELETE; COMMIT; INSERT; COMMIT  (storeSession / saveIdentity before the fix) *)
Definition bad_replace : prog :=
  [TS (TDelete 3 [VArg 0] []); TCommit; TS (TInsert false 3 [VArg 0] [(0%nat, VArg 1)]); TCommit].

Definition bad_store : store_def :=
  mkStore (fun _ => 1%nat) [(0%N, bad_replace)] (0%N, [[105%N]]) [].

Lemma bad_store_not_ok : store_ok bad_store = false.
Proof. vm_compute. reflexivity. Qed.

Definition w_ops : list op := [OCall 0 (mkArgs [[105; 49]; [98; 1]] [])]%N.
Definition w_op : op := OCall 0 (mkArgs [[105; 49]; [98; 2]] [])%N.

Theorem atomic_refuted :
  exists ops o c' t k,
    In c' (states (body bad_store (run_ops bad_store ops) o) (start (run_ops bad_store ops) o)) /\
    view (dur (run_ops bad_store ops)) t k <> None /\
    view (dur (run_ops bad_store (ops ++ [o]))) t k <> None /\
    view (dur (reopen c')) t k = None.
Proof.
  exists w_ops, w_op.
  exists (run_prog (firstn 2 (body bad_store (run_ops bad_store w_ops) w_op))
                   (start (run_ops bad_store w_ops) w_op)).
  exists 3%N, [[105; 49]]%N.
  split; [|split; [|split]].
  - vm_compute. right. right. left. reflexivity.
  - vm_compute. discriminate.
  - vm_compute. discriminate.
  - vm_compute. reflexivity.
Qed.

Theorem refuted_thm :
  store_ok bad_store = false /\
  exists ops o c' t k,
    In c' (states (body bad_store (run_ops bad_store ops) o) (start (run_ops bad_store ops) o)) /\
    view (dur (run_ops bad_store ops)) t k <> None /\
    view (dur (run_ops bad_store (ops ++ [o]))) t k <> None /\
    view (dur (reopen c')) t k = None.
Proof. exact (conj bad_store_not_ok atomic_refuted). Qed.

(* non-vacuity: a closed, commit-separated replace exists and the theorems apply to it *)
Definition good_replace : prog :=
  [TS (TDelete 3 [VArg 0] []); TS (TInsert false 3 [VArg 0] [(0%nat, VArg 1)]); TCommit].

Example good_store_ok :
  store_ok (mkStore (fun _ => 1%nat) [(0%N, good_replace)] (0%N, [[105%N]]) []) = true.
Proof. vm_compute. reflexivity. Qed.
