(* C13 — the generic theorems of C13Proofs instantiated with the store definition that
   harness/translators/c13_store.py regenerates from the Python source on every run.  The
   only obligation is the computed side condition [store_ok gen_store = true].             *)
From YV Require Import Common.Tac C13.C13Model C13.C13Proofs Gen.C13Programs.

Lemma gen_ok_thm : store_ok gen_store = true.
Proof. vm_compute. reflexivity. Qed.

Definition gen_durable_thm := durable_thm gen_store gen_ok_thm.
Definition gen_atomic_thm := atomic_thm gen_store gen_ok_thm.
Definition gen_never_missing_thm := never_missing_thm gen_store gen_ok_thm.
