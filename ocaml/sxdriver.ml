(* Generic driver for extracted models.  Trusted glue: parsing/printing of the sx line
   format and the oracle pipe.  Protocol (one request per line on stdin):
     <entry> <sx>        -> one line  "<sx>"  (or "!<exception>")
   While an oracle entry runs it may print "?<sx>" and then reads one "<sx>" line. *)
open BinNums
open Sx

let rec pos_of_int i = if i = 1 then Coq_xH else if i land 1 = 1 then Coq_xI (pos_of_int (i lsr 1)) else Coq_xO (pos_of_int (i lsr 1))
let n_of_int i = if i = 0 then N0 else Npos (pos_of_int i)
let rec int_of_pos = function Coq_xH -> 1 | Coq_xO p -> 2 * int_of_pos p | Coq_xI p -> 2 * int_of_pos p + 1
let int_of_n = function N0 -> 0 | Npos p -> int_of_pos p

let byte_tab = Stdlib.Array.init 256 n_of_int

let hexval c = match c with
  | '0'..'9' -> Stdlib.Char.code c - 48 | 'a'..'f' -> Stdlib.Char.code c - 87 | 'A'..'F' -> Stdlib.Char.code c - 55
  | _ -> failwith "hex"

(* parser over a string with a position *)
let parse (s : string) : sx =
  let n = Stdlib.String.length s in
  let pos = ref 0 in
  let skip () = while !pos < n && s.[!pos] = ' ' do incr pos done in
  let rec item () =
    skip ();
    if !pos >= n then failwith "eof";
    match s.[!pos] with
    | 'N' ->
      incr pos; let st = !pos in
      while !pos < n && s.[!pos] >= '0' && s.[!pos] <= '9' do incr pos done;
      SN (n_of_int (int_of_string (Stdlib.String.sub s st (!pos - st))))
    | 'B' ->
      incr pos; let st = !pos in
      while !pos < n && s.[!pos] <> ' ' && s.[!pos] <> ')' do incr pos done;
      let len = (!pos - st) / 2 in
      let rec build i acc = if i < 0 then acc else
          build (i-1) (byte_tab.(hexval s.[st+2*i] * 16 + hexval s.[st+2*i+1]) :: acc) in
      SB (build (len-1) [])
    | '(' ->
      incr pos;
      let rec items acc =
        skip ();
        if !pos >= n then failwith "eof in list";
        if s.[!pos] = ')' then (incr pos; Stdlib.List.rev acc) else items (item () :: acc) in
      SL (items [])
    | c -> failwith (Stdlib.Printf.sprintf "bad char %c at %d" c !pos)
  in item ()

let rec print_sx buf = function
  | SN n -> Stdlib.Buffer.add_char buf 'N'; Stdlib.Buffer.add_string buf (string_of_int (int_of_n n))
  | SB b -> Stdlib.Buffer.add_char buf 'B';
    Stdlib.List.iter (fun x -> Stdlib.Buffer.add_string buf (Stdlib.Printf.sprintf "%02x" (int_of_n x))) b
  | SL l -> Stdlib.Buffer.add_char buf '(';
    Stdlib.List.iteri (fun i x -> if i > 0 then Stdlib.Buffer.add_char buf ' '; print_sx buf x) l;
    Stdlib.Buffer.add_char buf ')'

let to_string s = let b = Stdlib.Buffer.create 256 in print_sx b s; Stdlib.Buffer.contents b

let oracle (q : sx) : sx =
  print_string ("?" ^ to_string q ^ "\n"); flush stdout;
  parse (input_line stdin)

let () =
  try
    while true do
      let line = input_line stdin in
      let sp = Stdlib.String.index line ' ' in
      let entry = Stdlib.String.sub line 0 sp in
      let arg = Stdlib.String.sub line (sp+1) (Stdlib.String.length line - sp - 1) in
      (try
         let r = Dispatch.dispatch entry oracle (parse arg) in
         print_string (to_string r ^ "\n")
       with
       | Stack_overflow -> print_string "!stack_overflow\n"
       | e -> print_string ("!" ^ Stdlib.Printexc.to_string e ^ "\n"));
      flush stdout
    done
  with End_of_file -> ()
