(* Generic driver for extracted models.  Trusted glue: parsing/printing of the sx line
   format and the oracle pipe.  Protocol (one request per line on stdin):
     <entry> <sx>        -> one line  "<sx>"  (or "!<exception>")
   While an oracle entry runs it may print "?<sx>" and then reads one "<sx>" line. *)
open BinNums
open Sx
(* extracted Coq modules named String/List/Char would shadow the standard ones (also for the
   s.[i] sugar): rebind them *)
module String = Stdlib.String
module List = Stdlib.List
module Char = Stdlib.Char
module Buffer = Stdlib.Buffer
module Array = Stdlib.Array
module Printf = Stdlib.Printf
module Bytes = Stdlib.Bytes

let rec pos_of_int i = if i = 1 then Coq_xH else if i land 1 = 1 then Coq_xI (pos_of_int (i lsr 1)) else Coq_xO (pos_of_int (i lsr 1))
let n_of_int i = if i = 0 then N0 else Npos (pos_of_int i)
let rec int_of_pos = function Coq_xH -> 1 | Coq_xO p -> 2 * int_of_pos p | Coq_xI p -> 2 * int_of_pos p + 1
let int_of_n = function N0 -> 0 | Npos p -> int_of_pos p

(* arbitrary-size decimal text <-> N (numbers beyond 62 bits), via digit-array arithmetic *)
let n_of_decimal (str : string) : coq_N =
  if String.length str <= 17 then n_of_int (int_of_string str) else begin
    let d = Array.init (String.length str) (fun i -> Char.code str.[i] - 48) in
    let len = Array.length d in
    let start = ref 0 in
    let bits = ref [] in
    while !start < len do
      let rem = ref 0 in
      for i = !start to len - 1 do
        let cur = !rem * 10 + d.(i) in
        d.(i) <- cur / 2; rem := cur mod 2
      done;
      bits := !rem :: !bits;
      while !start < len && d.(!start) = 0 do incr start done
    done;
    let rec build acc = function
      | [] -> acc
      | b :: r -> build (match acc with
          | None -> if b = 1 then Some Coq_xH else None
          | Some p -> Some (if b = 1 then Coq_xI p else Coq_xO p)) r in
    match build None !bits with None -> N0 | Some p -> Npos p
  end

let decimal_of_n (n : coq_N) : string =
  let rec nbits p k = match p with Coq_xH -> k + 1 | Coq_xO q | Coq_xI q -> nbits q (k + 1) in
  match n with
  | N0 -> "0"
  | Npos p when nbits p 0 <= 60 -> string_of_int (int_of_pos p)
  | Npos p ->
    let rec bits p acc = match p with
      | Coq_xH -> 1 :: acc | Coq_xO q -> bits q (0 :: acc) | Coq_xI q -> bits q (1 :: acc) in
    let bl = bits p [] in
    let digits = ref [0] in
    List.iter (fun b ->
        let carry = ref b in
        digits := List.map (fun dg -> let v = dg * 2 + !carry in carry := v / 10; v mod 10) !digits;
        if !carry > 0 then digits := !digits @ [!carry]) bl;
    String.concat "" (List.rev_map string_of_int !digits)

let byte_tab = Stdlib.Array.init 256 n_of_int

let hexval c = match c with
  | '0'..'9' -> Stdlib.Char.code c - 48 | 'a'..'f' -> Stdlib.Char.code c - 87 | 'A'..'F' -> Stdlib.Char.code c - 55
  | _ -> failwith "hex"

(* parser over a string with a position *)
let parse (s : string) : sx =
  let n = Stdlib.String.length s in
  let pos = ref 0 in
  let skip () = while !pos < n && s.[!pos] = ' ' do incr pos done in
  let rec item () =
    skip ();
    if !pos >= n then failwith "eof";
    match s.[!pos] with
    | 'N' ->
      incr pos; let st = !pos in
      while !pos < n && s.[!pos] >= '0' && s.[!pos] <= '9' do incr pos done;
      SN (n_of_decimal (Stdlib.String.sub s st (!pos - st)))
    | 'B' ->
      incr pos; let st = !pos in
      while !pos < n && s.[!pos] <> ' ' && s.[!pos] <> ')' do incr pos done;
      let len = (!pos - st) / 2 in
      let rec build i acc = if i < 0 then acc else
          build (i-1) (byte_tab.(hexval s.[st+2*i] * 16 + hexval s.[st+2*i+1]) :: acc) in
      SB (build (len-1) [])
    | '(' ->
      incr pos;
      let rec items acc =
        skip ();
        if !pos >= n then failwith "eof in list";
        if s.[!pos] = ')' then (incr pos; Stdlib.List.rev acc) else items (item () :: acc) in
      SL (items [])
    | c -> failwith (Stdlib.Printf.sprintf "bad char %c at %d" c !pos)
  in item ()

let rec print_sx buf = function
  | SN n -> Stdlib.Buffer.add_char buf 'N'; Stdlib.Buffer.add_string buf (decimal_of_n n)
  | SB b -> Stdlib.Buffer.add_char buf 'B';
    Stdlib.List.iter (fun x -> Stdlib.Buffer.add_string buf (Stdlib.Printf.sprintf "%02x" (int_of_n x))) b
  | SL l -> Stdlib.Buffer.add_char buf '(';
    Stdlib.List.iteri (fun i x -> if i > 0 then Stdlib.Buffer.add_char buf ' '; print_sx buf x) l;
    Stdlib.Buffer.add_char buf ')'

let to_string s = let b = Stdlib.Buffer.create 256 in print_sx b s; Stdlib.Buffer.contents b

let oracle (q : sx) : sx =
  print_string ("?" ^ to_string q ^ "\n"); flush stdout;
  parse (input_line stdin)

let () =
  try
    while true do
      let line = input_line stdin in
      let sp = Stdlib.String.index line ' ' in
      let entry = Stdlib.String.sub line 0 sp in
      let arg = Stdlib.String.sub line (sp+1) (Stdlib.String.length line - sp - 1) in
      (try
         let r = Dispatch.dispatch entry oracle (parse arg) in
         print_string (to_string r ^ "\n")
       with
       | Stack_overflow -> print_string "!stack_overflow\n"
       | e -> print_string ("!" ^ Stdlib.Printexc.to_string e ^ "\n"));
      flush stdout
    done
  with End_of_file -> ()
