#!/bin/bash
# runall.sh [tier] [jobs]: run every claimed check on /repo, refresh evidence, print a summary (integrator helper)
tier=${1:-quick}; jobs=${2:-4}
cd "$(dirname "$0")"; mkdir -p /tmp/yv-runall
python3 -c "import json;print('\n'.join(c['property_id'] for c in json.load(open('MANIFEST.json'))['checks']))" | \
  xargs -P $jobs -I{} bash -c 'start=$(date +%s); ./check {} --tier '$tier' > /tmp/yv-runall/{}.log 2>&1; rc=$?; echo "{} exit=$rc viol=$(grep -c ^VIOLATION /tmp/yv-runall/{}.log) known=$(grep -c ^KNOWN-FINDING /tmp/yv-runall/{}.log) $(( $(date +%s)-start ))s"'
