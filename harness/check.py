"""./check Cxx [--tier quick|thorough] [--replay FILE]"""
import sys, os, argparse, importlib, json, tempfile, shutil


def main():
    ap = argparse.ArgumentParser()
    ap.add_argument("pid")
    ap.add_argument("--tier", default=os.environ.get("VERIF_TIER", "quick"))
    ap.add_argument("--replay")
    a = ap.parse_args()
    seed = int(os.environ.get("VERIF_SEED", "1"))
    scratch = tempfile.mkdtemp(prefix="yv-%s-" % a.pid)
    try:
        from . import env
        env.setup(scratch)
        from .checklib import Ctx
        mod = importlib.import_module("harness.props." + a.pid)
        ctx = Ctx(a.pid, a.tier, seed)
        ctx.scratch = scratch
        if a.replay:
            data = json.load(open(a.replay))
            rc = mod.replay(ctx, data)
        else:
            rc = mod.run(ctx)
    finally:
        shutil.rmtree(scratch, ignore_errors=True)
    sys.exit(rc)


if __name__ == "__main__":
    main()
