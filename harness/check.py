"""./check Cxx [--tier quick|thorough] [--replay FILE]"""
import sys, os, argparse, importlib, json, tempfile, shutil


def main():
    ap = argparse.ArgumentParser()
    ap.add_argument("pid")
    ap.add_argument("--tier", default=os.environ.get("VERIF_TIER", "quick"))
    ap.add_argument("--replay")
    a = ap.parse_args()
    seed = int(os.environ.get("VERIF_SEED", "1"))
    scratch = tempfile.mkdtemp(prefix="yv-%s-" % a.pid)
    try:
        from . import env
        env.setup(scratch)
        from .checklib import Ctx
        mod = importlib.import_module("harness.props." + a.pid)
        ctx = Ctx(a.pid, a.tier, seed)
        ctx.scratch = scratch
        if a.replay:
            data = json.load(open(a.replay))
            rc = mod.replay(ctx, data)
        else:
            try:
                rc = mod.run(ctx)
            except Exception as e:
                # the harness could not drive the tree under test to the end (the code raised somewhere the harness
                # does not expect, a layer lost a method the rig calls, ...): the tie between model and code is
                # broken; reported as such, never as a bare traceback
                import traceback
                tb = traceback.format_exc()
                sys.stderr.write(tb)
                frames = [l.strip() for l in tb.splitlines() if l.strip().startswith("File ")]
                ctx.tie_broken_without_input("harness:unhandled-exception",
                                             {"exception": "%s: %s" % (type(e).__name__, e),
                                              "innermost_frames": frames[-4:]})
                ctx.ties["harness"] = "broken: %s: %s" % (type(e).__name__, e)
                ctx.notes.append("the check's harness raised before finishing; coverage figures are partial")
                rc = ctx.finish(rule="incomplete run: the harness raised %s" % type(e).__name__,
                                assumptions_text=list(getattr(mod, "ASSUME", [])))
    finally:
        shutil.rmtree(scratch, ignore_errors=True)
    sys.exit(rc)


if __name__ == "__main__":
    main()
