"""C13 — MEASURED extraction of the store programs (next to the syntactic interpreter).

`measure(repo, scratch)` runs, in a subprocess with PYTHONPATH = the tree under test, the real
store classes over a tracing connection and returns everything a `prog` of coq/C13 needs:

* connection: the facade `LiteAxolotlStore(path)` is constructed with `sqlite3` in its module's
  namespace replaced by a shim; recorded: number of connects, connect keywords, `text_factory`,
  `isolation_level` / `autocommit` of the connection the stores were given;
* schema: read back from SQLite itself (PRAGMA table_info / index_list / index_info);
* facade: every public facade method is called with sentinel arguments while every public method
  of every sub-store instance is replaced by a recorder: which sub-store method is reached, with
  which of the sentinels in which order (decorator-generated delegations included);
* every public method of every store class (defined in the package; inherited package mixins
  included) is run on a fresh in-memory database in the state variants
      A  nothing stored            P  a row under the addressed key in every table (all columns =
      C  same key, other columns different (UNIQUE conflict for INSERT paths that first DELETE with
         a filter)                     what the sentinels are bound as)
      R  the same call made n times before on the SAME object, n in {1, 2} and {k-1, k} for every
         integer constant k the store modules define or compare against (state kept outside the
         database -- a cache of what was written, a counter that triggers periodic maintenance --
         shows as a different trace; the attributes those calls changed are reported)
  and, for a list parameter (found by probing: the call fails with TypeError on a scalar
  sentinel), with 0, 1 and 3 elements in variants A and P;
* every constructor: on a fresh database, again on the same connection, again after all rows were
  removed, and on a second fresh database (generated values differ, constants do not); for the
  class that initialises, the registration id / identity key pair are read back through
  getLocalRegistrationId / getIdentityKeyPair so that bound values can be recognised as
  accessor chains of the generated values.

Tracing = a `sqlite3.Connection` subclass (cursor factory recording `execute(sql, params)` with the
IDENTITY of every bound parameter: sentinel objects are tagged with parameter name, accessor chain
and loop index, and are bound as small ints only at the last moment) PLUS
`Connection.set_trace_callback`, which reports BEGIN / COMMIT / ROLLBACK and every statement SQLite
really runs, including commits issued from C (`with conn:`), `executescript`, statements run on
cursors the wrapper did not create (reported as UNATTRIBUTED).  Sentinels converted to text / bytes
carry a tag, so a parameter or SQL text *derived* from an argument by a conversion is recognised
(and refused) rather than mistaken for a constant.

The parent side only transports the observation; turning it into programs and comparing it with the
syntactic result is harness/translators/c13_store.py (`build_measured`, `compare_models`).
"""
import json, os, subprocess, sys

PKG = "yowsup.axolotl.store.sqlite"
TAGMARK = "<<C13:"
SENT, ALT = 7, 8            # what scalar sentinels are bound as / the "other" value of variant C
DML = ("INSERT", "UPDATE", "DELETE", "REPLACE")


class MeasureError(Exception):
    pass


def measure(repo, scratch, python=sys.executable, timeout=300, repeat=(1,)):
    """-> observation dict (see module docstring); MeasureError if the tracer could not run"""
    here = os.path.dirname(os.path.dirname(os.path.abspath(__file__)))
    job = os.path.join(scratch, "c13-measure-job.json")
    with open(job, "w") as f:
        json.dump({"scratch": scratch, "repeat": sorted(set(int(n) for n in repeat if n >= 1)) or [1]}, f)
    env = dict(os.environ)
    env["YV_REPO"] = repo
    env["PYTHONPATH"] = repo + os.pathsep + here
    env["PYTHONDONTWRITEBYTECODE"] = "1"
    try:
        p = subprocess.run([python, "-m", "harness.c13_tracecheck", job], cwd=here, env=env,
                           capture_output=True, text=True, timeout=timeout)
    except Exception as e:
        raise MeasureError("tracer: %r" % (e,))
    if p.returncode != 0:
        raise MeasureError("tracer exited %d: %s" % (p.returncode, p.stderr.strip()[-400:]))
    try:
        obs = json.loads(p.stdout[p.stdout.index("{"):])
    except Exception as e:
        raise MeasureError("tracer output not understood: %r" % (e,))
    if obs.get("fatal"):
        raise MeasureError(obs["fatal"])
    return obs


# ---------------------------------------------------------------- child side
def _child(jobfile):
    import sqlite3, importlib, inspect, traceback
    from . import env
    job = json.load(open(jobfile))
    env.setup(job["scratch"])
    out = {"fatal": None}

    class Sent(object):
        """sentinel argument: `x.getA().getB()` is the sentinel (root, ("getA", "getB"))"""
        __slots__ = ("_r", "_c", "_e", "_b")

        def __init__(self, root, chain=(), elem=None, bad=None):
            self._r, self._c, self._e, self._b = root, tuple(chain), elem, bad

        def __getattr__(self, name):
            if name.startswith("__") and name.endswith("__"):
                raise AttributeError(name)
            r, c, e, b = self._r, self._c, self._e, self._b

            def accessor(*a, **k):
                return Sent(r, c + (name,), e,
                            b or ("accessor %s() called with arguments" % name if (a or k) else None))
            return accessor

        def _label(self):
            return "%s%s%s" % (self._r, "" if self._e is None else "[%d]" % self._e,
                               "".join(".%s()" % x for x in self._c))

        def __repr__(self):
            return TAGMARK + self._label() + ">>"
        __str__ = __repr__

        def __bytes__(self):
            return repr(self).encode()

        # the same accessor chain of the same argument is the same value (also after a conversion to text / bytes):
        # code that remembers or compares values (caches, "unchanged since last time") must see that
        def __eq__(self, other):
            if isinstance(other, Sent):
                return (self._r, self._c, self._e) == (other._r, other._c, other._e)
            if isinstance(other, (bytes, bytearray)):
                return bytes(other) == bytes(self)
            if isinstance(other, str):
                return other == repr(self)
            return NotImplemented

        def __ne__(self, other):
            r = self.__eq__(other)
            return r if r is NotImplemented else not r

        def __hash__(self):
            return hash((self._r, self._c, self._e))

    def desc(p):
        if isinstance(p, Sent):
            if p._b:
                return ["bad", p._b]
            if p._e is not None:
                return ["bad", "accessor on a list element"] if p._c else ["loop", p._r, p._e]
            return ["arg", p._r, list(p._c)]
        if p is None or isinstance(p, (bool, int)):
            return ["const", None if p is None else int(p)]
        if isinstance(p, (bytes, bytearray, memoryview)):
            b = bytes(p)
            return ["bad", "argument converted to bytes"] if TAGMARK.encode() in b else ["const", {"b": b.hex()}]
        if isinstance(p, str):
            return ["bad", "argument converted to text"] if TAGMARK in p else ["const", {"s": p}]
        return ["bad", "value of type %s" % type(p).__name__]

    def conv(params):
        if isinstance(params, (tuple, list)):
            return tuple((SENT if p._e is None else SENT + p._e) if isinstance(p, Sent) else p for p in params)
        return params

    class TCursor(sqlite3.Cursor):
        def execute(self, sql, params=()):
            conn = self.connection
            if conn._mute:
                return super().execute(sql, params)
            if not isinstance(sql, str) or TAGMARK in sql:
                conn._log.append(["BADSQL", "SQL text computed from an argument"])
            if isinstance(sql, str) and (sql.lstrip().split(None, 1) or [""])[0].upper().rstrip(";") in (
                    "BEGIN", "COMMIT", "END", "ROLLBACK"):
                return super().execute(sql, params)        # transaction control as SQL text: the statement trace reports it
            ds = [desc(p) for p in params] if isinstance(params, (tuple, list)) else [["bad", "parameters are not a sequence"]]
            entry = ["S", sql if isinstance(sql, str) else repr(sql), ds, None]
            conn._pending, conn._pending_logged = entry, False
            try:
                return super().execute(sql, conv(params))
            except Exception as e:
                entry[3] = type(e).__name__
                raise
            finally:
                if not conn._pending_logged:
                    conn._log.append(entry)
                conn._pending = None

        def executemany(self, sql, seq):
            self.connection._log.append(["OTHER", "executemany"])
            return super().executemany(sql, [conv(p) for p in seq])

        def executescript(self, script):
            self.connection._log.append(["OTHER", "executescript"])
            return super().executescript(script)

    class TConn(sqlite3.Connection):
        def cursor(self, factory=TCursor):
            return super().cursor(factory)

        # Connection.execute* create their cursor and run the statement in C: route them through the recording cursor
        def execute(self, sql, params=()):
            return self.cursor().execute(sql, params)

        def executemany(self, sql, seq):
            return self.cursor().executemany(sql, seq)

        def executescript(self, script):
            return self.cursor().executescript(script)

    def on_sql(conn, text):
        if conn._mute:
            return
        up = text.lstrip().upper()
        if up.startswith("BEGIN"):
            conn._log.append(["BEGIN"])
        elif up.startswith("COMMIT") or up.startswith("END"):
            conn._log.append(["COMMIT"])
        elif up.startswith("ROLLBACK"):
            conn._log.append(["ROLLBACK"])
        elif up.startswith("SAVEPOINT") or up.startswith("RELEASE"):
            conn._log.append(["OTHER", up.split()[0].lower()])
        elif conn._pending is not None and not conn._pending_logged:
            conn._log.append(conn._pending)
            conn._pending_logged = True
        elif up.split(None, 1)[0:1] and up.split(None, 1)[0] in DML:
            conn._log.append(["UNATTRIBUTED", text[:200]])

    def connect(path=":memory:", **kw):
        kw.pop("factory", None)
        c = sqlite3.connect(path, factory=TConn, **kw)
        c._log, c._mute, c._pending, c._pending_logged = [], False, None, False
        c.set_trace_callback(lambda t, _c=c: on_sql(_c, t))
        return c

    def store_conn():
        c = connect(check_same_thread=False)
        c.text_factory = bytes
        return c

    def raw(conn, sql, params=()):
        conn._mute = True
        try:
            return sqlite3.Connection.cursor(conn).execute(sql, params).fetchall()
        finally:
            conn._mute = False

    def _s(x):
        return x.decode() if isinstance(x, bytes) else x

    def schema(conn):
        tabs = []
        for (name,) in raw(conn, "SELECT name FROM sqlite_master WHERE type='table' ORDER BY name"):
            name = _s(name)
            if name.startswith("sqlite_"):
                continue
            cols = [{"name": _s(r[1]), "decl": _s(r[2]) or "", "pk": int(r[5])} for r in raw(conn, "PRAGMA table_info(%s)" % name)]
            uniq = []
            for r in raw(conn, "PRAGMA index_list(%s)" % name):
                if int(r[2]):
                    uniq.append([_s(x[2]) for x in raw(conn, "PRAGMA index_info(%s)" % _s(r[1]))])
            tabs.append({"name": name, "cols": cols, "unique": uniq})
        return tabs

    def prepopulate(conn, variant):
        if variant == "A":
            return
        for t in schema(conn):
            keys = set(c for u in t["unique"] for c in u)
            cols = [c["name"] for c in t["cols"] if not c["pk"]]
            vals = [SENT if (c in keys or variant == "P") else ALT for c in cols]
            raw(conn, "INSERT INTO %s (%s) VALUES (%s)" % (t["name"], ", ".join(cols), ", ".join("?" * len(cols))), vals)
        conn._mute = True
        try:
            sqlite3.Connection.commit(conn)
        finally:
            conn._mute = False

    def wipe(conn):
        for t in schema(conn):
            raw(conn, "DELETE FROM %s" % t["name"])
        conn._mute = True
        try:
            sqlite3.Connection.commit(conn)
        finally:
            conn._mute = False

    def snap(o):
        """what an object keeps outside the database (its attributes other than the connection)"""
        try:
            return dict((k, repr(v)[:4000]) for k, v in vars(o).items() if not isinstance(v, sqlite3.Connection))
        except Exception:
            return {}

    def call(f, args):
        try:
            f(*args)
            return None
        except Exception as e:
            return [type(e).__name__, str(e)[:200]]

    def in_pkg(obj):
        return (getattr(obj, "__module__", "") or "").startswith(PKG)

    def is_private(name):
        return name.startswith("_") and not (name.startswith("__") and name.endswith("__"))

    def describe_methods(cls):
        """name -> {params, static, public, error}: methods defined in the package along the MRO"""
        res = {}
        for name in dir(cls):
            if name == "__init__":
                continue
            owner = next((k for k in cls.__mro__ if name in vars(k)), None)
            if owner is None or not in_pkg(owner):
                continue
            rawattr = vars(owner)[name]
            static = isinstance(rawattr, staticmethod)
            f = getattr(cls, name)
            if not callable(f) or isinstance(rawattr, (property, type)):
                continue
            d = {"static": static, "public": not is_private(name), "params": None, "error": None,
                 "special": name.startswith("__")}
            try:
                ps = list(inspect.signature(f).parameters.values())
                if not static and not isinstance(rawattr, classmethod):
                    ps = ps[1:]
                if any(p.kind not in (p.POSITIONAL_ONLY, p.POSITIONAL_OR_KEYWORD) for p in ps):
                    d["error"] = "signature with *args / **kwargs / keyword-only parameters"
                d["params"] = [p.name for p in ps]
            except Exception as e:
                d["error"] = "signature: %r" % (e,)
            res[name] = d
        return res

    def measure_all():
        # ---------------- facade, connection, schema
        fmod = importlib.import_module(PKG + ".liteaxolotlstore")
        real = fmod.sqlite3 if hasattr(fmod, "sqlite3") else None
        connects = []

        class Shim(object):
            def connect(self, path, *a, **kw):
                c = connect(":memory:", **{k: v for k, v in kw.items()})
                connects.append({"path": str(path), "args": len(a), "kw": sorted(kw), "conn": c})
                return c

            def __getattr__(self, name):
                return getattr(sqlite3, name)
        if real is None:
            raise MeasureError("liteaxolotlstore does not use the module sqlite3")
        fmod.sqlite3 = Shim()
        dbpath = os.path.join(job["scratch"], "c13-measure-facade.db")
        try:
            store = fmod.LiteAxolotlStore(dbpath)
        finally:
            fmod.sqlite3 = real
        if os.path.exists(dbpath):
            raise MeasureError("the facade opened its database behind the back of its module's sqlite3.connect")
        if len(connects) != 1:
            raise MeasureError("the facade opened %d connections" % len(connects))
        conn = connects[0]["conn"]
        out["conn"] = {"connects": len(connects), "kw": connects[0]["kw"],
                       "text_factory_bytes": conn.text_factory is bytes,
                       "isolation_level": conn.isolation_level,
                       "autocommit": getattr(conn, "autocommit", -1),
                       "in_transaction_after_init": bool(conn.in_transaction)}
        out["schema"] = schema(conn)
        interposed = out["conn"]["interposed"] = []
        if "factory" in connects[0]["kw"]:
            interposed.append("sqlite3.connect(factory=...) asks for a Connection subclass")
        extra = sorted(k for k in vars(conn) if k not in ("_log", "_mute", "_pending", "_pending_logged"))
        if extra:
            interposed.append("attribute(s) set on the connection object: %s (monkey-patched)" % ", ".join(extra))
        attrs, classes = {}, {}
        for a, v in sorted(vars(store).items()):
            if in_pkg(type(v)) and any(n in vars(type(v)) for n in ("commit", "execute", "cursor", "rollback")):
                continue            # a connection wrapper kept on the facade, not a table store (reported below)
            if in_pkg(type(v)):
                attrs[a] = type(v).__name__
                classes[type(v).__name__] = type(v)
                held = [k for k, x in vars(v).items() if x is conn]
                if len(held) != 1:
                    # something stands between the store and the connection: say what
                    found = False
                    for k, x in vars(v).items():
                        inner = [kk for kk, xx in getattr(x, "__dict__", {}).items() if xx is conn]
                        if inner or (isinstance(x, sqlite3.Connection) and x is not conn):
                            found = True
                            own = sorted(n for n in ("commit", "rollback", "execute", "cursor", "executemany", "executescript",
                                                     "__enter__", "__exit__", "__getattr__") if n in vars(type(x)))
                            d = "%s.%s is a %s %s (defines %s)" % (
                                type(v).__name__, k, type(x).__name__,
                                "wrapping the connection in its attribute %s" % inner[0] if inner else "that is another connection",
                                ", ".join(own) or "nothing of the connection interface")
                            if d not in interposed:
                                interposed.append(d)
                    if not found:
                        raise MeasureError("sub-store %s does not keep the facade's connection in exactly one attribute" % a)
        out["facade"] = {"attrs": attrs, "class": type(store).__name__, "methods": {}}
        # recorders on the sub-store instances
        calls = []

        def recorder(attr, name):
            def rec(*a, **k):
                calls.append([attr, name, [desc(x) for x in a], sorted(k)])
            return rec
        for a in attrs:
            sub = getattr(store, a)
            for n in dir(sub):
                if not n.startswith("_") and callable(getattr(sub, n)):
                    setattr(sub, n, recorder(a, n))
        fcls = type(store)
        for name, d in sorted(describe_methods(fcls).items()):
            if not d["public"] or d["special"]:
                continue
            if d["error"]:
                out["facade"]["methods"][name] = {"error": d["error"]}
                continue
            del calls[:]
            del conn._log[:]
            exc = call(getattr(store, name), [Sent(p) for p in d["params"]])
            out["facade"]["methods"][name] = {"params": d["params"], "calls": list(calls), "exc": exc,
                                              "events": list(conn._log), "error": None}
        conn.close()
        # ---------------- the store classes
        out["classes"] = {}
        for cname, cls in sorted(classes.items()):
            info = {"module": cls.__module__, "methods": {}, "init": []}
            out["classes"][cname] = info
            # constructor: fresh / again / after all rows were removed / second fresh database
            c = store_conn()
            obj = None
            for variant in ("fresh", "again", "wiped"):
                if variant == "wiped":
                    wipe(c)
                del c._log[:]
                exc = None
                try:
                    obj = cls(c)
                except Exception as e:
                    exc = [type(e).__name__, str(e)[:200]]
                info["init"].append({"variant": variant, "events": list(c._log), "exc": exc, "gen": readback(obj)
                                     if variant != "again" else None})
            c.close()
            c = store_conn()
            exc, obj = None, None
            try:
                obj = cls(c)
            except Exception as e:
                exc = [type(e).__name__, str(e)[:200]]
            info["init"].append({"variant": "fresh2", "events": list(c._log), "exc": exc, "gen": readback(obj)})
            c.close()
            # methods
            for mname, d in sorted(describe_methods(cls).items()):
                m = {"params": d["params"], "static": d["static"], "public": d["public"], "special": d["special"],
                     "error": d["error"], "loop": None, "runs": []}
                info["methods"][mname] = m
                if not d["public"] or d["special"] or d["error"]:
                    continue

                def one(variant, loopp, k, n=1):
                    c = store_conn()
                    try:
                        o = cls(c)
                        prepopulate(c, "A" if variant == "R" else variant)
                        args = [[Sent(p, (), i) for i in range(k)] if p == loopp else Sent(p) for p in d["params"]]
                        changed = None
                        if variant == "R":
                            # the same call made before on the SAME object: whatever the object remembers
                            # outside the database shows as a difference to the other variants
                            before = snap(o)
                            for _ in range(n):
                                call(getattr(o, mname), args)
                            after = snap(o)
                            changed = sorted(a for a in set(before) | set(after) if before.get(a) != after.get(a))
                        del c._log[:]
                        exc = call(getattr(o, mname), args)
                        return {"variant": variant, "k": k if loopp else None, "events": list(c._log), "exc": exc,
                                "state_changed": changed, "n": n if variant == "R" else None}
                    finally:
                        c.close()
                first = one("A", None, 0)
                loopp = None
                if first["exc"] and first["exc"][0] == "TypeError" and "Sent" in first["exc"][1]:
                    for p in d["params"]:
                        r = one("A", p, 1)
                        if not (r["exc"] and r["exc"][0] == "TypeError" and "Sent" in r["exc"][1]):
                            loopp = p
                            break
                    if loopp is None:
                        m["error"] = "cannot be called with sentinel arguments: %s" % first["exc"][1]
                        m["runs"].append(first)
                        continue
                m["loop"] = loopp
                if loopp is None:
                    m["runs"] = [first, one("P", None, 0), one("C", None, 0)] + [one("R", None, 0, n) for n in job["repeat"]]
                else:
                    m["runs"] = [one(v, loopp, k) for k in (0, 1, 3) for v in ("A", "P")] + \
                        [one("R", loopp, 1, n) for n in job["repeat"]]

    def readback(obj):
        """generated values of the initialising store, as the public API reports them"""
        if obj is None:
            return None
        g = {}
        try:
            if hasattr(obj, "getLocalRegistrationId") and hasattr(obj, "getIdentityKeyPair"):
                conn = [x for x in vars(obj).values() if isinstance(x, sqlite3.Connection)][0]
                conn._mute = True
                try:
                    g["regid"] = obj.getLocalRegistrationId()
                    kp = obj.getIdentityKeyPair()
                finally:
                    conn._mute = False
                for chain in (("getPublicKey", "getPublicKey", "serialize"), ("getPublicKey", "serialize"),
                              ("getPrivateKey", "serialize"), ("getPublicKey", "getPublicKey", "getPublicKey"),
                              ("getPrivateKey", "getPrivateKey")):
                    try:
                        v = kp
                        for x in chain:
                            v = getattr(v, x)()
                        if isinstance(v, (bytes, bytearray)):
                            g[".".join(chain)] = bytes(v).hex()
                    except Exception:
                        pass
        except Exception:
            return None
        return g or None

    try:
        measure_all()
    except MeasureError as e:
        out["fatal"] = str(e)
    except Exception as e:
        out["fatal"] = "%s: %s | %s" % (type(e).__name__, e, traceback.format_exc()[-600:].replace("\n", " / "))
    sys.stdout.write("\n" + json.dumps(out))


if __name__ == "__main__":
    _child(sys.argv[1])
