"""C13 — cross-check of the translated programs against one traced run of the real classes.

The translator (harness/translators/c13_store.py) is a symbolic interpreter: it follows helper
calls, tuples, early returns ...  To guard that liberal interpreter against mis-translation, every
translated PUBLIC method (and the constructor of every store class) is run once per variant on
the real class in a subprocess (PYTHONPATH=$YV_REPO), over a tracing connection on a fresh
in-memory database, with sentinel arguments, in two variants:
  absent   nothing stored under the addressed key
  present  every table holds a row whose key (and every other column) is the value the sentinels
           are bound as
and the observed sequence of (write statement verb, table) / COMMIT is compared with what the
translated program does on the same little database (`simulate`, a direct transcription of the
statement semantics of coq/C13/C13Model.v: DELETE by key + filters, INSERT raises on an existing
key unless OR REPLACE, UPDATE, the run stops at the raising statement).  SELECTs and DDL are not
part of the programs and are ignored.  A disagreement = the tie is broken.

Parent side: `run(meta, repo, scratch)` -> report dict.  Child side: `python -m
harness.c13_tracecheck <job.json>` prints the observations as JSON.
"""
import json, os, re, subprocess, sys

SENT, SENT2 = 7, 8          # what sentinel arguments are bound as (second loop element: SENT2)
WRITE = ("INSERT", "UPDATE", "DELETE", "REPLACE")


# ---------------------------------------------------------------- expected (parent side)
def _cell_value(c):
    """canonical cell (bytes or its hex form in the JSON side file) -> comparable python value"""
    if isinstance(c, str):
        c = bytes.fromhex(c)
    if c == b"n":
        return None
    if c[:1] == b"i":
        return int(c[1:])
    return bytes(c[1:])


def _v(ref, loopv):
    ref = list(ref)
    if ref[0] == "arg":
        return SENT
    if ref[0] == "loop":
        return loopv
    return _cell_value(ref[1])


def simulate(prog, tables, present):
    """-> (trace, raised): what the translated program does on the sentinel database"""
    tabs = {t["id"]: t for t in tables}
    rows = {t["id"]: ({tuple([SENT] * len(t["key"])): {i: SENT for i in range(len(t["nonkey"]))}} if present else {})
            for t in tables}
    trace = []

    def one(s, loopv):
        s = list(s)
        if s[0] == "insert":
            _, orrep, tid, key, assign = s
            trace.append(["INSERT", tabs[tid]["name"]])
            k = tuple(_v(x, loopv) for x in key)
            if k in rows[tid] and not orrep:
                return False
            rows[tid][k] = {ci: _v(x, loopv) for ci, x in assign}
            return True
        _, tid, key, rest = s
        k = tuple(_v(x, loopv) for x in key)
        if s[0] == "delete":
            trace.append(["DELETE", tabs[tid]["name"]])
            r = rows[tid].get(k)
            if r is not None and all(r.get(ci) == _v(x, loopv) for ci, x in rest):
                del rows[tid][k]
        else:
            trace.append(["UPDATE", tabs[tid]["name"]])
            if k in rows[tid]:
                rows[tid][k].update({ci: _v(x, loopv) for ci, x in rest})
        return True

    for item in prog:
        item = list(item)
        if item[0] == "commit":
            trace.append(["COMMIT"])
        elif item[0] == "s":
            if not one(item[1], None):
                return trace, True
        else:
            for lv in (SENT, SENT2):
                if not one(item[1], lv):
                    return trace, True
    return trace, False


def run(meta, repo, scratch, python=sys.executable, timeout=120):
    """-> {"runs", "agree", "inconclusive", "disagreements": [...], "error": None|str}"""
    meta = json.loads(json.dumps(meta, default=lambda b: b.hex() if isinstance(b, bytes) else str(b)))
    job = os.path.join(scratch, "c13-tracecheck-job.json")
    with open(job, "w") as f:
        json.dump(meta, f)
    here = os.path.dirname(os.path.dirname(os.path.abspath(__file__)))
    env = dict(os.environ)
    env["YV_REPO"] = repo
    env["PYTHONPATH"] = repo + os.pathsep + here
    env["PYTHONDONTWRITEBYTECODE"] = "1"
    rep = {"runs": 0, "agree": 0, "inconclusive": 0, "disagreements": [], "error": None}
    try:
        p = subprocess.run([python, "-m", "harness.c13_tracecheck", job], cwd=here, env=env,
                           capture_output=True, text=True, timeout=timeout)
        if p.returncode != 0:
            rep["error"] = "tracer exited %d: %s" % (p.returncode, p.stderr.strip()[-400:])
            return rep
        obs = json.loads(p.stdout)
    except Exception as e:
        rep["error"] = "tracer: %r" % (e,)
        return rep
    progs = {(m["class"], m["name"]): m["prog"] for m in meta["methods"]}
    for o in obs:
        rep["runs"] += 1
        got = o["trace"]
        if o["kind"] == "init":
            want, raised = (simulate(meta["init"]["prog"], meta["tables"], False)
                            if (o["class"] == meta["init"]["class"] and o["variant"] == "fresh") else ([], False))
        else:
            want, raised = simulate(progs[(o["class"], o["name"])], meta["tables"], o["variant"] == "present")
        if got == want and ((o["exc"] == "IntegrityError") == raised):
            rep["agree"] += 1
        elif not raised and o["exc"] not in (None, "IntegrityError") and got != want and got == want[:len(got)]:
            # the sentinel made the real code raise something unrelated before the end: nothing learnt
            rep["inconclusive"] += 1
        else:
            rep["disagreements"].append({"class": o["class"], "method": o.get("name", "__init__"),
                                         "variant": o["variant"], "observed": got, "observed_exception": o["exc"],
                                         "translated": want, "translated_raises": raised})
    return rep


# ---------------------------------------------------------------- observed (child side)
def _child(jobfile):
    import sqlite3, importlib
    from . import env
    env.setup()
    meta = json.load(open(jobfile))

    class S(object):
        """sentinel argument: every attribute is a method returning another sentinel"""

        def __init__(self, v=SENT):
            self.__dict__["_v"] = v

        def __getattr__(self, name):
            if name.startswith("__"):
                raise AttributeError(name)
            v = self._v
            return lambda *a, **k: S(v)

        def __repr__(self):
            return "<sentinel %d>" % self._v

    def conv(params):
        if isinstance(params, (tuple, list)):
            return tuple(p._v if isinstance(p, S) else p for p in params)
        return params

    def classify(sql):
        s = sql.lstrip()
        verb = s.split(None, 1)[0].upper() if s else ""
        if verb not in WRITE:
            return None
        m = re.match(r"(?is)(?:INSERT(?:\s+OR\s+\w+)?\s+INTO|REPLACE\s+INTO|DELETE\s+FROM|UPDATE)\s+(\w+)", s)
        return ["INSERT" if verb == "REPLACE" else verb, m.group(1) if m else "?"]

    class TCursor(sqlite3.Cursor):
        def execute(self, sql, params=()):
            c = classify(sql)
            if c:
                self.connection._log.append(c)
            return super().execute(sql, conv(params))

        def executemany(self, sql, seq):
            self.connection._log.append(["EXECUTEMANY", "?"])
            return super().executemany(sql, [conv(p) for p in seq])

        def executescript(self, script):
            self.connection._log.append(["EXECUTESCRIPT", "?"])
            return super().executescript(script)

    class TConn(sqlite3.Connection):
        def cursor(self, factory=TCursor):
            return super().cursor(factory)

        def commit(self):
            self._log.append(["COMMIT"])
            return super().commit()

        def rollback(self):
            self._log.append(["ROLLBACK"])
            return super().rollback()

    def connect():
        c = sqlite3.connect(":memory:", factory=TConn)
        c._log = []
        c.text_factory = bytes
        return c

    def prepopulate(conn):
        raw = sqlite3.Connection.cursor(conn)
        have = set(r[0].decode() if isinstance(r[0], bytes) else r[0]
                   for r in raw.execute("SELECT name FROM sqlite_master WHERE type='table'"))
        for t in meta["tables"]:
            if t["name"] in have:
                cols = t["key"] + t["nonkey"]
                raw.execute("INSERT INTO %s (%s) VALUES (%s)" % (t["name"], ", ".join(cols), ", ".join("?" * len(cols))),
                            tuple([SENT] * len(cols)))
        sqlite3.Connection.commit(conn)

    pkg = "yowsup.axolotl.store.sqlite."
    modname = {c: pkg + c.lower() for c in set(m["class"] for m in meta["methods"]) | {meta["init"]["class"]}}
    for v in meta["facade"]["attrs"].values():
        modname.setdefault(v, pkg + v.lower())
    out = []
    for cname in sorted(modname):
        cls = getattr(importlib.import_module(modname[cname]), cname)
        # the constructor: on a fresh database, and again on the same connection
        conn = connect()
        for variant in ("fresh", "again"):
            del conn._log[:]
            exc = None
            try:
                cls(conn)
            except Exception as e:
                exc = type(e).__name__
            out.append({"kind": "init", "class": cname, "variant": variant, "trace": list(conn._log), "exc": exc})
        conn.close()
        for m in meta["methods"]:
            if m["class"] != cname or not m["public"]:
                continue
            for variant in ("absent", "present"):
                conn = connect()
                obj = cls(conn)
                if variant == "present":
                    prepopulate(conn)
                del conn._log[:]
                args = [[S(SENT), S(SENT2)] if p == m["loop"] else S(SENT) for p in m["params"]]
                exc = None
                try:
                    getattr(obj, m["name"])(*args)
                except sqlite3.IntegrityError:
                    exc = "IntegrityError"
                except Exception as e:
                    exc = type(e).__name__
                out.append({"kind": "method", "class": cname, "name": m["name"], "variant": variant,
                            "trace": list(conn._log), "exc": exc})
                conn.close()
    sys.stdout.write(json.dumps(out))


if __name__ == "__main__":
    _child(sys.argv[1])
