"""C09 helper — message payloads for the entity <-> stanza check.

* a PINNED, reviewed table of the protobuf fields the library's message model carries (per
  sub-message kind); field TYPES are read from the real descriptors (e2e_pb2) on every run;
* pools of generated payloads per kind: every optional field present/absent, every field alone,
  every field x boundary values ("" / unicode / NUL / 300 chars, b"" / NUL / 260-byte binary,
  0 / 1 / max, False / True, 0.0 / -0.0 / denormal / huge doubles, float32-exact floats, enum
  numbers, [] / lists with "" for repeated strings, context info minimal/full, quoted messages
  one and two deep);
* payload_diff(out, inp): the payload equivalence C09 uses on <proto> data = equality of the
  PARSED protobuf messages, field-wise: every field SET in the received payload must be set in
  the re-serialised one with the same value (doubles/floats compared bit-wise, so -0.0 != 0.0;
  sub-messages recursively; repeated fields element-wise) and every field the re-serialised
  payload sets in addition must hold its proto default (an unset scalar that the library reads
  as the default and writes back is value-preserving; a DROPPED field, e.g. a 0.0 latitude,
  is not)."""
import struct

# field names the converter maps in both directions (reviewed against converter.py; a field
# that is not listed is outside the library's message model and is never generated)
DOWNLOADABLE = ["mimetype", "file_length", "file_sha256", "url", "media_key", "context_info"]
KINDS = {
    "conversation": None,
    "image_message": DOWNLOADABLE + ["width", "height", "caption", "jpeg_thumbnail"],
    "contact_message": ["display_name", "vcard", "context_info"],
    "location_message": ["degrees_latitude", "degrees_longitude", "name", "address", "url", "duration",
                         "accuracy_in_meters", "speed_in_mps", "degrees_clockwise_from_magnetic_north",
                         "axolotl_sender_key_distribution_message", "jpeg_thumbnail"],
    "extended_text_message": ["text", "matched_text", "canonical_url", "description", "title",
                              "jpeg_thumbnail", "context_info"],
    "document_message": DOWNLOADABLE + ["file_name", "title", "page_count", "jpeg_thumbnail"],
    "audio_message": DOWNLOADABLE + ["seconds", "ptt", "streaming_sidecar"],
    "video_message": DOWNLOADABLE + ["width", "height", "seconds", "gif_playback", "jpeg_thumbnail",
                                     "gif_attribution", "caption", "streaming_sidecar"],
    "sticker_message": DOWNLOADABLE + ["width", "height", "png_thumbnail"],
}
CONTEXT_INFO = ["stanza_id", "participant", "quoted_message", "remote_jid", "mentioned_jid", "edit_version",
                "revoke_message"]
# which payload kinds a class is documented to carry
CLASS_KINDS = {
    "TextMessageProtocolEntity": ["conversation"],
    "BroadcastTextMessage": ["conversation"],
    "ExtendedTextMessageProtocolEntity": ["extended_text_message"],
    "ImageDownloadableMediaMessageProtocolEntity": ["image_message"],
    "VideoDownloadableMediaMessageProtocolEntity": ["video_message"],
    "AudioDownloadableMediaMessageProtocolEntity": ["audio_message"],
    "DocumentDownloadableMediaMessageProtocolEntity": ["document_message"],
    "StickerDownloadableMediaMessageProtocolEntity": ["sticker_message"],
    "LocationMediaMessageProtocolEntity": ["location_message"],
    "ContactMediaMessageProtocolEntity": ["contact_message"],
    "ExtendedTextMediaMessageProtocolEntity": ["extended_text_message"],
}
MEDIATYPE = {"image_message": "image", "video_message": "video", "audio_message": "audio",
             "document_message": "document", "sticker_message": "sticker", "location_message": "location",
             "contact_message": "contact", "extended_text_message": "url"}

STRS = ["", "h\xe9llo w\xf6rld ✓ 日本語 \U0001f600", "x" * 300, "a\x00b", "0"]
BYTESS = [b"", b"\x00", b"\xff\xd8\xff\xe0" + bytes(range(256)), b"0"]
DOUBLES = [0.0, -0.0, 1.5, -122.084095, 5e-324, 1e300, -90.0]
FLOATS = [0.0, -0.0, 0.5, -2.25, 65504.0]
LISTS = [[], ["a@s.whatsapp.net"], ["a@s.whatsapp.net", "", "\xfc@g.us"]]


def _pb():
    from yowsup.layers.protocol_messages.proto.e2e_pb2 import Message
    return Message


def _fd():
    from google.protobuf.descriptor import FieldDescriptor
    return FieldDescriptor


def typical(f):
    FD = _fd()
    t = f.type
    if t == FD.TYPE_STRING:
        return {"url": "https://mmg.whatsapp.net/d/f/abc.enc", "mimetype": "image/jpeg"}.get(f.name, f.name + "-v")
    if t == FD.TYPE_BYTES:
        return (f.name.encode() + b"\x00\x01\xfe\xff") * 3
    if t == FD.TYPE_BOOL:
        return True
    if t == FD.TYPE_DOUBLE:
        return 30.089037 if "lat" in f.name else 31.319488
    if t == FD.TYPE_FLOAT:
        return 2.5
    if t == FD.TYPE_ENUM:
        return f.enum_type.values[-1].number
    return {"file_length": 123456, "width": 640, "height": 480}.get(f.name, 7)


def boundaries(f):
    FD = _fd()
    t = f.type
    if t == FD.TYPE_STRING:
        return STRS
    if t == FD.TYPE_BYTES:
        return BYTESS
    if t == FD.TYPE_BOOL:
        return [False, True]
    if t == FD.TYPE_DOUBLE:
        return DOUBLES
    if t == FD.TYPE_FLOAT:
        return FLOATS
    if t == FD.TYPE_ENUM:
        return [v.number for v in f.enum_type.values]
    if t in (FD.TYPE_UINT64, FD.TYPE_FIXED64):
        return [0, 1, 2 ** 64 - 1]
    if t in (FD.TYPE_UINT32, FD.TYPE_FIXED32):
        return [0, 1, 2 ** 32 - 1]
    if t in (FD.TYPE_INT32, FD.TYPE_SINT32, FD.TYPE_SFIXED32):
        return [0, 1, 2 ** 31 - 1]
    return [0, 1, 2 ** 63 - 1]


def _fields(desc, names):
    out = []
    for n in names:
        f = desc.fields_by_name.get(n)
        if f is None:
            raise KeyError("pinned payload field %s.%s no longer exists" % (desc.full_name, n))
        out.append(f)
    return out


def ctx_info(sub, level):
    """fill a ContextInfo: level 0 minimal, 1 full, 2 full with a quoted message that itself quotes"""
    sub.stanza_id = "3EB0" if level else ""
    if level:
        sub.participant = "4915212345678@s.whatsapp.net"
        sub.remote_jid = "4915212345678-1431204051@g.us"
        sub.mentioned_jid.extend(["a@s.whatsapp.net", "\xfc@g.us"])
        sub.edit_version = 0
        sub.revoke_message = False
        sub.quoted_message.conversation = "quoted ✓"
        if level > 1:
            q = sub.quoted_message
            q.ClearField("conversation")
            q.extended_text_message.text = "inner"
            ctx_info(q.extended_text_message.context_info, 1)


def set_field(sub, f, value):
    FD = _fd()
    if f.type == FD.TYPE_MESSAGE:
        ctx_info(getattr(sub, f.name), value)
    elif f.label == FD.LABEL_REPEATED:
        del getattr(sub, f.name)[:]
        getattr(sub, f.name).extend(value)
    else:
        setattr(sub, f.name, value)


def kind_pool(kind):
    """[(label, bytes)]: index 0 is the full typical payload"""
    Message = _pb()
    FD = _fd()
    out = []

    def emit(label, fill):
        m = Message()
        fill(m)
        b = m.SerializeToString()
        if b:
            out.append((label, b))

    if kind == "conversation":
        for i, s in enumerate(["hello", "", "h\xe9llo ✓ 日本語 \U0001f600", "x" * 300, "a\x00b", "0", " "]):
            emit("conversation#%d" % i, lambda m, s=s: setattr(m, "conversation", s))
        return out
    desc = Message.DESCRIPTOR.fields_by_name[kind].message_type
    fs = _fields(desc, KINDS[kind])

    def full(sub, skip=None, only=None):
        for f in fs:
            if f.name == skip or (only is not None and f.name != only):
                continue
            set_field(sub, f, 1 if f.type == FD.TYPE_MESSAGE else typical(f))

    emit(kind + ":full", lambda m: full(getattr(m, kind)))
    for f in fs:
        emit(kind + ":without-" + f.name, lambda m, f=f: full(getattr(m, kind), skip=f.name))
        emit(kind + ":only-" + f.name, lambda m, f=f: full(getattr(m, kind), only=f.name))
        vals = [0, 2] if f.type == FD.TYPE_MESSAGE else boundaries(f)
        for i, v in enumerate(vals):
            def fill(m, f=f, v=v):
                full(getattr(m, kind))
                set_field(getattr(m, kind), f, v)
            emit("%s:%s=%s" % (kind, f.name, ("#%d" % i) if isinstance(v, (str, bytes, list)) else repr(v)), fill)
    # content together with a sender-key distribution message (first message to a group)
    def with_skdm(m):
        full(getattr(m, kind))
        m.sender_key_distribution_message.group_id = "4915212345678-1431204051@g.us"
        m.sender_key_distribution_message.axolotl_sender_key_distribution_message = b"\x33\x08\x01\x00\xff"
    emit(kind + ":full+skdm", with_skdm)
    return out


def mixed_pool():
    """one full payload of every kind (base classes: any payload)"""
    out = []
    for kind in KINDS:
        out.append(kind_pool(kind)[0])
    Message = _pb()
    m = Message()
    m.protocol_message.key.remote_jid = "4915212345678@s.whatsapp.net"
    m.protocol_message.key.from_me = True
    m.protocol_message.key.id = "3EB0ABCDEF"
    m.protocol_message.key.participant = ""
    m.protocol_message.type = 0
    out.append(("protocol_message:revoke", m.SerializeToString()))
    return out


_POOLS = {}


def pool_for(cls_name):
    if cls_name not in _POOLS:
        kinds = CLASS_KINDS.get(cls_name)
        if kinds is None:
            _POOLS[cls_name] = mixed_pool()
        else:
            p = []
            for k in kinds:
                p.extend(kind_pool(k))
            _POOLS[cls_name] = p
    return _POOLS[cls_name]


def random_payload(cls_name, rng):
    """random subset of the kind's fields x random boundary/typical values"""
    Message = _pb()
    FD = _fd()
    kinds = CLASS_KINDS.get(cls_name) or [k for k in KINDS]
    kind = kinds[rng.randrange(len(kinds))]
    m = Message()
    if kind == "conversation":
        m.conversation = STRS[rng.randrange(len(STRS))] + rng.choice(["", "tail", "✓"])
    else:
        desc = Message.DESCRIPTOR.fields_by_name[kind].message_type
        sub = getattr(m, kind)
        for f in _fields(desc, KINDS[kind]):
            if rng.random() < 0.35:
                continue
            if f.type == FD.TYPE_MESSAGE:
                set_field(sub, f, rng.randrange(3))
            elif rng.random() < 0.5:
                set_field(sub, f, typical(f))
            else:
                b = boundaries(f)
                set_field(sub, f, b[rng.randrange(len(b))])
        if rng.random() < 0.1:
            m.sender_key_distribution_message.group_id = "g@g.us"
            m.sender_key_distribution_message.axolotl_sender_key_distribution_message = b"\x00\x01"
    b = m.SerializeToString()
    return b if b else b"\x0a\x00"          # an empty conversation


# ----------------------------------------------------------------------------- equivalence
def _scalar_eq(f, a, b):
    FD = _fd()
    if f.type == FD.TYPE_DOUBLE:
        return struct.pack(">d", a) == struct.pack(">d", b)
    if f.type == FD.TYPE_FLOAT:
        return struct.pack(">f", a) == struct.pack(">f", b)
    return a == b and type(a) is type(b)


def _is_default(f, v):
    FD = _fd()
    if f.label == FD.LABEL_REPEATED:
        return len(v) == 0
    if f.type == FD.TYPE_MESSAGE:
        return all(_is_default(g, w) for g, w in v.ListFields())
    return _scalar_eq(f, v, f.default_value)


def msg_diff(out, inp, path=""):
    """None, or the path of the first field of inp that out lost / altered / or that out invented"""
    FD = _fd()
    got = {f.name: (f, v) for f, v in out.ListFields()}
    for f, v in inp.ListFields():
        p = path + f.name
        if f.name not in got:
            return p + " (set in the received payload, missing after re-serialisation)"
        w = got[f.name][1]
        if f.label == FD.LABEL_REPEATED:
            if len(v) != len(w):
                return p + " (length)"
            for i, (x, y) in enumerate(zip(v, w)):
                if f.type == FD.TYPE_MESSAGE:
                    d = msg_diff(y, x, "%s[%d]." % (p, i))
                    if d:
                        return d
                elif not _scalar_eq(f, x, y):
                    return "%s[%d]" % (p, i)
        elif f.type == FD.TYPE_MESSAGE:
            d = msg_diff(w, v, p + ".")
            if d:
                return d
        elif not _scalar_eq(f, v, w):
            return p + " (%r became %r)" % (v, w)
    have = {f.name for f, _ in inp.ListFields()}
    for name, (f, w) in got.items():
        if name not in have and not _is_default(f, w):
            return path + name + " (not in the received payload, re-serialised with a non-default value)"
    return None


def payload_diff(out_bytes, in_bytes):
    Message = _pb()
    if type(out_bytes) is not bytes:
        return "payload is not bytes: %r" % (out_bytes,)
    a, b = Message(), Message()
    try:
        b.ParseFromString(in_bytes)
    except Exception as ex:                    # generator bug, not a finding
        return "received payload does not parse: %s" % ex
    try:
        a.ParseFromString(out_bytes)
    except Exception as ex:
        return "re-serialised payload does not parse: %s" % type(ex).__name__
    return msg_diff(a, b)


def describe(b):
    """short text form of a payload for replay output"""
    Message = _pb()
    m = Message()
    try:
        m.ParseFromString(b)
    except Exception as ex:
        return "unparsable (%s)" % type(ex).__name__
    from google.protobuf import text_format
    s = text_format.MessageToString(m, as_one_line=True)
    return s if len(s) < 600 else s[:600] + " ..."
