"""Engine shared by harness/props/C06.py and C07.py: translators, kind-table check, exhaustive
kind x module-selection x with/without-encryption-layers sweep through the real layer set, model
correspondence and the property oracles."""
import os, random, itertools, json
from . import c06rig as R
from . import sx as SX

FLAGSETS = list(itertools.product((0, 1), repeat=4))
REPAIRED = [1, 1, 1, 1, 1]
UNREPAIRED = [0, 0, 0, 0, 0]

KEY_ENCRYPT_ACK = "encrypt notification with participant attribute"
KEY_ACCOUNT_IB = "ib account stanza delivered to the application as None"
KEY_UNREGISTER = "UnregisterIqProtocolEntity is sent by no layer"
KEY_SKDM_UNSUPPORTED = "message payload carrying sender-key distribution together with content the library cannot present"


def regenerate(ctx):
    """coq/Gen/C06Layers.v + C06HandleMaps.v from the tree under test: syntactic extraction cross-checked against
    the evaluated helpers / handleMaps, evaluated table when the source shape is not recognised (see
    harness/translators/c06tables.py).  Reports helpers whose value depends on the call history (concrete call
    sequence) and disagreements between the two extractions; None when neither extraction is usable."""
    from .env import REPO, VERIF
    from .translators import c06tables
    try:
        out = c06tables.regenerate(REPO, os.path.join(VERIF, "coq", "Gen"), scratch=getattr(ctx, "scratch", None))
    except c06tables.TranslateError as e:
        ctx.ties["translator:c06tables"] = "broken: %s" % e
        return None
    except Exception as e:  # unparsable source etc.
        ctx.ties["translator:c06tables"] = "broken: %r" % (e,)
        return None
    ctx.ties["translator:c06tables"] = "ok" if not out["tie_problems"] else \
        "broken: %s / %s" % (out["layers_path"], out["handlemaps_path"])
    ctx.coverage["translator_path"] = {"C06Layers.v": out["layers_path"], "C06HandleMaps.v": out["handlemaps_path"]}
    ctx.coverage["helper_evaluation"] = out["eval"]
    ctx.notes.append("coq/Gen/C06Layers.v produced by: %s; coq/Gen/C06HandleMaps.v produced by: %s"
                     % (out["layers_path"], out["handlemaps_path"]))
    for f in out["history_findings"][:3]:
        ctx.violation("oracle:helper-call-history", f)
    for name, case in out["tie_problems"][:3]:
        ctx.violation(name, case, found_input=False)
    return out


def replay_translator_case(ctx, data):
    """replay of the records written by regenerate(); None when the record is of another kind"""
    from .env import REPO
    from .translators import c06tables, stack_eval
    case = data["case"]
    if "helper_calls" in case:
        return stack_eval.replay_history(REPO, case, ctx.pid, getattr(ctx, "scratch", None))
    if "syntactic" in case and "evaluated" in case:
        try:
            rep = c06tables.analyse(REPO, getattr(ctx, "scratch", None))
        except c06tables.TranslateError as e:
            print("translator fails now:", e)
            return 1
        print("produced now by:", rep["layers_path"], "/", rep["handlemaps_path"])
        for name, c in rep["tie_problems"]:
            print("still differs:", json.dumps(c)[:600])
        return 1 if rep["tie_problems"] else 0
    return None


def kinds():
    from . import c06kinds
    return c06kinds


# ------------------------------------------------------------------ table rows <-> real features
def check_row(row, feats):
    """row = put_kind record from the model; feats = features of a real stanza/entity."""
    name, send, mod, tag, xmlns, typ, tfree, mro, kids, cfree, hasproto, mt, conv, ext, skdm, more, up, ans = row
    probs = []
    if feats[0] != tag:
        probs.append("tag %r != %r" % (feats[0], tag))
    if feats[1] != xmlns:
        probs.append("xmlns %r != %r" % (feats[1], xmlns))
    if not tfree and feats[2] != typ:
        probs.append("type %r != %r" % (feats[2], typ))
    if feats[7] != mro:
        probs.append("class chain %r != %r" % (feats[7], mro))
    if not cfree and [c[0] for c in feats[8]] != kids:
        probs.append("children %r != %r" % ([c[0] for c in feats[8]], kids))
    if [feats[9], feats[10], feats[11], feats[12], feats[13], feats[14]] != [hasproto, mt, conv, ext, skdm, more]:
        probs.append("proto/payload features %r != %r" % (feats[9:15], [hasproto, mt, conv, ext, skdm, more]))
    return probs


# ------------------------------------------------------------------ one case on the implementation
class Case(object):
    __slots__ = ("kind", "flags", "ax", "seed", "obj", "feats", "obs", "raw", "ops", "reply", "exc")


def gen_obj(k, seed):
    return k["gen"](random.Random(seed))


def run_impl(k, flags, ax, seed, profile, obj=None):
    """returns (features, normalised abstract observation, raw dict for oracles/replay)"""
    obj = gen_obj(k, seed) if obj is None else obj
    rig = R.Rig(flags, ax, profile)
    if k["dir"] == "recv":
        feats = R.node_features(obj)
        ups, downs, exc = rig.recv(obj)
        obs = R.norm_actions(R.abstract_obs(ups, downs, exc))
        raw = {"ups": ups, "downs": downs, "exc": exc, "node": obj}
        return feats, obs, None, raw
    feats = R.entity_features(obj)
    ser = R.canon(obj.toProtocolTreeNode())
    ups, outs, bottom, exc = rig.send(obj)
    obs = R.norm_actions(R.abstract_obs(ups, outs, exc, ser))
    obs_bottom = R.norm_actions(R.abstract_obs([], bottom, None, ser))
    raw = {"ups": ups, "outs": outs, "bottom": bottom, "exc": exc, "ser": ser, "entity": obj}
    return feats, obs, obs_bottom, raw


def model_arg(flags, ax, ops, variant=REPAIRED):
    return [variant, list(flags), ax, ops]


def norm_model(res):
    """model result of one op -> (normalised actions, normalised bottom actions)"""
    return R.norm_actions(res[0]), R.norm_actions(res[1])


# ------------------------------------------------------------------ property oracles (no model involved)
def _attr(node, k):
    return node.attributes.get(k)


def entity_reproduces(entity, node):
    """the delivered entity carries the stanza's identifying fields (full field fidelity is C09)"""
    probs = []
    for getter, attr in (("getId", "id"), ("getFrom", "from"), ("getType", "type"), ("getParticipant", "participant")):
        g = getattr(entity, getter, None)
        if g is None or _attr(node, attr) is None:
            continue
        if node.tag == "call" and getter == "getType":
            continue                      # a call's type is its child tag, not an attribute
        try:
            v = g()
        except Exception as e:
            probs.append("%s() raised %r" % (getter, e))
            continue
        if v != _attr(node, attr):
            probs.append("%s()=%r but stanza %s=%r" % (getter, v, attr, _attr(node, attr)))
    return probs


def oracle_recv(k, flags, raw):
    """-> list of (name, message, known-finding key or None)"""
    fl = dict(zip(R.FLAGS, flags))
    sup = k["module"] is None or fl[k["module"]]
    node = raw["node"]
    out = []
    if raw["exc"] is not None:
        out.append(("oracle:no-error", "raised %r" % (raw["exc"],), None))
    exp_up = [k["up"]] if (sup and k["up"]) else []
    got_up = [type(u).__name__ if u is not None else "<None>" for u in raw["ups"]]
    if got_up != exp_up:
        key = KEY_ACCOUNT_IB if (k["name"] == "recv.ib.account" and got_up == ["<None>"]) else None
        out.append(("oracle:recv_once", "entities at the application %r, expected %r" % (got_up, exp_up), key))
    else:
        for u in raw["ups"]:
            pr = entity_reproduces(u, node)
            if pr:
                out.append(("oracle:recv_fields", "; ".join(pr), None))
    exp_ans = [a(node) for a in k["answers"]]
    if not sup and k["c07"] != "notification":
        exp_ans = []
    got_ans = [a[1] for a in R.norm_actions(R.abstract_obs([], raw["downs"], None))]
    if sorted(got_ans, key=repr) != sorted(exp_ans, key=repr):
        key = k.get("key")
        if k["c07"] == "notification" and _attr(node, "type") == "encrypt" and _attr(node, "participant") \
                and len(got_ans) == 1 and len(exp_ans) == 1 and got_ans[0][:5] == exp_ans[0][:5] and got_ans[0][5] == []:
            key = KEY_ENCRYPT_ACK
        if key == KEY_SKDM_UNSUPPORTED and got_ans != []:
            key = None
        out.append(("oracle:answers", "answers sent down %r, expected %r" % (got_ans, exp_ans), key))
    return out


def oracle_send(k, flags, ax, raw):
    fl = dict(zip(R.FLAGS, flags))
    sup = (k["module"] is None or fl[k["module"]]) and "unknown-xmlns" not in k["name"]
    out = []
    if raw["exc"] is not None:
        out.append(("oracle:no-error", "raised %r" % (raw["exc"],), None))
    if raw["ups"]:
        out.append(("oracle:send_once", "something went up on a send: %r" % (raw["ups"],), None))
    outs = [R.canon(o) for o in raw["outs"]]
    exp = [raw["ser"]] if sup else []
    if outs != exp:
        key = KEY_UNREGISTER if (k["name"] == "send.iq.unregister" and outs == []) else None
        out.append(("oracle:send_once", "%d stanza(s) left the protocol layers (%s), expected %s" % (
            len(outs), ["equal to the serialisation" if o == raw["ser"] else "different: %r" % (o[:2],) for o in outs],
            "exactly the serialisation" if sup else "nothing"), key))
    if raw["entity"].getTag() != "message" or not ax:
        bot = [R.canon(o) for o in raw["bottom"]]
        if bot != exp:
            out.append(("oracle:send_once_bottom", "%d stanza(s) reached the bottom, expected %d" % (len(bot), len(exp)),
                        KEY_UNREGISTER if (k["name"] == "send.iq.unregister" and bot == []) else None))
    return out


def describe(k, flags, ax, seed, raw, extra=None):
    d = {"kind": k["name"], "flags": dict(zip(R.FLAGS, flags)), "axolotl": ax, "gen_seed": seed}
    if k["dir"] == "recv":
        d["stanza"] = R.show(raw["node"])
        d["observed_up"] = [type(u).__name__ for u in raw["ups"]]
        d["observed_down"] = [R.show(x) for x in raw["downs"]]
    else:
        d["entity_class"] = type(raw["entity"]).__name__
        d["serialisation"] = R.show(raw["ser"])
        d["observed_out"] = [R.show(x) for x in raw["outs"]]
    if raw["exc"] is not None:
        d["exception"] = repr(raw["exc"])
    if extra:
        d.update(extra)
    return d


def jsonable(x):
    if isinstance(x, bytes):
        return x.decode("utf-8", "replace")
    if isinstance(x, (list, tuple)):
        return [jsonable(y) for y in x]
    return x


# ------------------------------------------------------------------ the sweep
def sweep(ctx, model, table, select, nvec, profile, stats, judge_answers=True):
    """every selected kind x 16 module selections x with/without encryption layers x nvec vectors.
    Correspondence against the model (variant = repaired) and the property oracle on every case."""
    K = kinds()
    rows = dict((r[0].decode(), r) for r in table[0]) if table else {}
    for k in K.KINDS:
        if not select(k):
            continue
        if len(ctx.violations) >= 8:
            stats["stopped_early"] = "8 violations recorded"      # the check has failed; more cases add nothing
            break
        cases, model_args = [], []
        stats["profiles"] = stats.get("profiles", 0) + 1
        profile = R.make_profile(ctx.scratch, stats["profiles"])
        for ax in (0, 1):
            for flags in FLAGSETS:
                for _ in range(nvec):
                    seed = ctx.rng.getrandbits(48)
                    feats, obs, obs_bottom, raw = run_impl(k, flags, ax, seed, profile)
                    stats["evaluations"] += 1
                    stats["per_kind"][k["name"]] = stats["per_kind"].get(k["name"], 0) + 1
                    stats["distinct"].add((k["name"], flags, ax, json.dumps(jsonable(feats), sort_keys=True)))
                    # 1. property oracle
                    if k["domain"]:
                        res = oracle_recv(k, flags, raw) if k["dir"] == "recv" else oracle_send(k, flags, ax, raw)
                        for name, msg, key in res:
                            if name == "oracle:answers" and not judge_answers:
                                continue          # mandatory answers are C07's subject
                            ctx.violation(name, describe(k, flags, ax, seed, raw, {"problem": msg}), key=key)
                            stats["oracle_failures"] += 1
                    # 2. the kind-table row describes this real stanza / entity
                    row = rows.get(k["name"])
                    if row is not None:
                        stats["table_kinds_seen"].add(k["name"])
                        pr = check_row(row, feats)
                        if pr:
                            ctx.violation("correspondence:kind-table", describe(
                                k, flags, ax, seed, raw, {"problem": "; ".join(pr)}), found_input=False)
                    cases.append((k, flags, ax, seed, obs, obs_bottom, raw))
                    model_args.append(model_arg(flags, ax, [[1 if k["dir"] == "send" else 0, feats]]))
        if model is None:
            continue
        _compare(ctx, model, cases, model_args, stats, judge_answers)


def _compare(ctx, model, cases, model_args, stats, judge_answers):
    results = model.call_many("run_trace", model_args)
    for (k, flags, ax, seed, obs, obs_bottom, raw), arg, res in zip(cases, model_args, results):
        bad = isinstance(res, tuple)
        if not bad:
            m, mb = norm_model(res[0])
            bad = (m != obs) or (k["dir"] == "send" and raw["entity"].getTag() != "message" and mb != obs_bottom)
        if bad:
            stats["mismatches"] += 1
            extra = {"model": jsonable(res if isinstance(res, tuple) else res[0]), "impl": jsonable([obs, obs_bottom])}
            alt = model.call("run_trace", [UNREPAIRED] + arg[1:])
            if not isinstance(alt, tuple) and norm_model(alt[0])[0] == obs:
                extra["note"] = "the implementation behaves like the UNREPAIRED model variant: a fix under /verif/fixes is not applied to this tree"
            orc = (oracle_recv(k, flags, raw) if k["dir"] == "recv" else oracle_send(k, flags, ax, raw)) \
                if k["domain"] else []
            failing = bool([o for o in orc if judge_answers or o[0] != "oracle:answers"])
            ctx.violation("correspondence:C06.dispatch", describe(k, flags, ax, seed, raw, extra), found_input=failing)


def reply_sweep(ctx, model, nvec, profile, stats):
    """request that registers a callback, then the reply for its id: exactly one entity of the documented class"""
    K = kinds()
    for rq in K.REQS:
        if len(ctx.violations) >= 8:
            break
        for ax in (0, 1):
            for flags in FLAGSETS:
                fl = dict(zip(R.FLAGS, flags))
                sup = rq["module"] is None or fl[rq["module"]]
                for rtype in ("result", "error"):
                    for _ in range(nvec):
                        seed = ctx.rng.getrandbits(48)
                        entity, mkreply = rq["gen"](random.Random(seed))
                        rig = R.Rig(flags, ax, profile)
                        ser = R.canon(entity.toProtocolTreeNode())
                        ups, outs, bottom, exc = rig.send(entity)
                        reply = mkreply(entity.getId()) if rtype == "result" else K._err(entity.getId(), K.SRV)
                        rups, rdowns, rexc = rig.recv(reply)
                        stats["evaluations"] += 1
                        stats["reply_cases"] += 1
                        exp_cls = rq[rtype] if sup else None
                        got = [type(u).__name__ for u in rups]
                        case = {"request": rq["name"], "reply_type": rtype, "flags": fl, "axolotl": ax, "gen_seed": seed,
                                "request_stanza": R.show(ser), "reply": R.show(reply), "observed_up": got,
                                "expected_up": [exp_cls] if exp_cls else []}
                        if rexc is not None or exc is not None:
                            case["exception"] = repr(rexc or exc)
                            ctx.violation("oracle:no-error", case)
                        if rtype == "result" or exp_cls is not None:
                            # error replies without an error callback are C08's subject, not judged here
                            if got != ([exp_cls] if exp_cls else []):
                                ctx.violation("oracle:reply_once", case)
                        if rdowns:
                            case["observed_down"] = [R.show(x) for x in rdowns]
                            ctx.violation("oracle:reply_once", case)
                        if model is not None:
                            ops = [[1, R.entity_features(entity)], [0, R.node_features(reply)]]
                            res = model.call("run_trace", model_arg(flags, ax, ops))
                            ok = not isinstance(res, tuple)
                            if ok:
                                o1 = R.norm_actions(R.abstract_obs(ups, outs, exc, ser))
                                o2 = R.norm_actions(R.abstract_obs(rups, rdowns, rexc))
                                ok = norm_model(res[0])[0] == o1 and norm_model(res[1])[0] == o2
                            if not ok:
                                stats["mismatches"] += 1
                                case["model"] = jsonable(res)
                                ctx.violation("correspondence:C06.reply", case, found_input=False)


def inside_sweep(ctx, model, nvec, profile, stats):
    """the answer to a request arrives while the request is still being handed down (read by the reader thread, or a
    transport that answers synchronously): still exactly one entity of the documented class, and exactly one stanza
    out.  Nothing in C06's statement orders the sender's return before the answer's arrival."""
    K = kinds()
    for rq in K.REQS:
        if len(ctx.violations) >= 8:
            break
        for ax in (0, 1):
            for flags in (FLAGSETS[0], FLAGSETS[-1]):
                fl = dict(zip(R.FLAGS, flags))
                if not (rq["module"] is None or fl[rq["module"]]):
                    continue
                for rtype in ("result", "error"):
                    for _ in range(nvec):
                        seed = ctx.rng.getrandbits(48)
                        entity, mkreply = rq["gen"](random.Random(seed))
                        rig = R.Rig(flags, ax, profile)
                        ser = R.canon(entity.toProtocolTreeNode())
                        reply = mkreply(entity.getId()) if rtype == "result" else K._err(entity.getId(), K.SRV)
                        ups, outs, exc, delivered = rig.send_answered_inside(entity, reply)
                        stats["evaluations"] += 1
                        stats["reply_cases"] += 1
                        stats["inside_cases"] = stats.get("inside_cases", 0) + 1
                        exp_cls = rq[rtype]
                        got = [type(u).__name__ for u in ups]
                        case = {"request": rq["name"], "reply_type": rtype, "flags": fl, "axolotl": ax,
                                "gen_seed": seed, "answer": "delivered from inside the bottom layer's send() of the request",
                                "request_stanza": R.show(ser), "reply": R.show(reply), "observed_up": got,
                                "expected_up": [exp_cls] if exp_cls else [],
                                "stanzas_out": [R.show(R.canon(o)) for o in outs]}
                        if not delivered:
                            continue                  # the request never reached the bottom: judged by reply_sweep
                        if exc is not None:
                            case["exception"] = repr(exc)
                            ctx.violation("oracle:no-error", case)
                        if (rtype == "result" or exp_cls is not None) and got != ([exp_cls] if exp_cls else []):
                            ctx.violation("oracle:reply_once", case)
                        if [R.canon(o) for o in outs] != [ser]:
                            ctx.violation("oracle:send_once", case)
                        if model is not None:
                            ops = [[1, R.entity_features(entity)], [0, R.node_features(reply)]]
                            res = model.call("run_trace", model_arg(flags, ax, ops))
                            ok = not isinstance(res, tuple)
                            if ok:
                                o1 = R.norm_actions(R.abstract_obs([], outs, exc, ser))
                                o2 = R.norm_actions(R.abstract_obs(ups, [], None))
                                ok = norm_model(res[0])[0] == o1 and norm_model(res[1])[0] == o2
                            if not ok:
                                stats["mismatches"] += 1
                                case["model"] = jsonable(res)
                                ctx.violation("correspondence:C06.reply-inside-send", case, found_input=False)


def traffic_sweep(ctx, model, nvec, profile, stats, judge_answers=False):
    """request that registers a callback; then traffic that is NOT its reply -- a server ping (type get) carrying the
    very id of the pending request, a get/set iq with that id, a reply for another id, a message -- then the reply:
    still exactly one entity of the documented class (theorem C06_reply_once_after_traffic)"""
    K = kinds()
    from yowsup.structs import ProtocolTreeNode as N

    def traffic(kind, rid_, r):
        if kind == "ping-same-id":
            return [N("iq", {"id": rid_, "type": "get", "from": K.SRV, "xmlns": "urn:xmpp:ping"},
                      [N("ping")] if r.random() < .5 else None)]
        if kind == "set-same-id":
            return [N("iq", {"id": rid_, "type": "set", "from": K.SRV, "xmlns": r.choice(["w:x", "encrypt", "w:p"])})]
        if kind == "reply-other-id":
            return [N("iq", {"id": rid_ + "9", "type": r.choice(["result", "error"]), "from": K.SRV})]
        if kind == "ping-twice":
            return [N("iq", {"id": rid_, "type": "get", "from": K.SRV, "xmlns": "urn:xmpp:ping"}) for _ in (0, 1)]
        raise ValueError(kind)

    for rq in K.REQS:
        if len(ctx.violations) >= 8:
            break
        for ax in (0, 1):
            for flags in (FLAGSETS[0], FLAGSETS[-1]):
                fl = dict(zip(R.FLAGS, flags))
                sup = rq["module"] is None or fl[rq["module"]]
                if not sup:
                    continue
                for tk in ("ping-same-id", "set-same-id", "reply-other-id", "ping-twice"):
                    for rtype in ("result", "error"):
                        for _ in range(nvec):
                            seed = ctx.rng.getrandbits(48)
                            r = random.Random(seed)
                            entity, mkreply = rq["gen"](r)
                            rig = R.Rig(flags, ax, profile)
                            ser = R.canon(entity.toProtocolTreeNode())
                            ups, outs, bottom, exc = rig.send(entity)
                            mids = traffic(tk, entity.getId(), r)
                            mobs = [rig.recv(m) for m in mids]
                            reply = mkreply(entity.getId()) if rtype == "result" else K._err(entity.getId(), K.SRV)
                            rups, rdowns, rexc = rig.recv(reply)
                            stats["evaluations"] += 1
                            stats["reply_cases"] += 1
                            stats["traffic_cases"] = stats.get("traffic_cases", 0) + 1
                            exp_cls = rq[rtype]
                            got = [type(u).__name__ for u in rups]
                            case = {"request": rq["name"], "reply_type": rtype, "flags": fl, "axolotl": ax,
                                    "gen_seed": seed, "traffic": tk, "request_stanza": R.show(ser),
                                    "between": [R.show(m) for m in mids], "reply": R.show(reply), "observed_up": got,
                                    "expected_up": [exp_cls] if exp_cls else [],
                                    "theorem": "C06_reply_once_after_traffic"}
                            if rexc is not None or exc is not None or any(o[2] is not None for o in mobs):
                                case["exception"] = repr(rexc or exc or [o[2] for o in mobs])
                                ctx.violation("oracle:no-error", case)
                            if tk.startswith("ping"):
                                # C07: a server ping is answered with exactly one pong carrying its id, whatever
                                # request happens to be pending under that id
                                kping = K.by_name()["recv.iq.ping"]
                                for m, o in zip(mids, mobs):
                                    orc = oracle_recv(kping, flags, {"ups": o[0], "downs": o[1], "exc": o[2], "node": m})
                                    orc = [x for x in orc if x[2] is None and (judge_answers or x[0] != "oracle:answers")]
                                    if orc:
                                        case["ping_observed_down"] = [R.show(x) for x in o[1]]
                                        case["problem"] = "; ".join(x[1] for x in orc)
                                        ctx.violation(orc[0][0], case)
                                        break
                            if rtype == "result" or exp_cls is not None:
                                if got != ([exp_cls] if exp_cls else []):
                                    ctx.violation("oracle:reply_once", case)
                            if rdowns:
                                case["observed_down"] = [R.show(x) for x in rdowns]
                                ctx.violation("oracle:reply_once", case)
                            if model is not None:
                                ops = [[1, R.entity_features(entity)]] + [[0, R.node_features(m)] for m in mids] + \
                                      [[0, R.node_features(reply)]]
                                res = model.call("run_trace", model_arg(flags, ax, ops))
                                ok = not isinstance(res, tuple)
                                if ok:
                                    obs = [R.norm_actions(R.abstract_obs(ups, outs, exc, ser))] + \
                                          [R.norm_actions(R.abstract_obs(*o)) for o in mobs] + \
                                          [R.norm_actions(R.abstract_obs(rups, rdowns, rexc))]
                                    ok = len(res) == len(obs) and all(norm_model(m)[0] == o for m, o in zip(res, obs))
                                if not ok:
                                    stats["mismatches"] += 1
                                    case["model"] = jsonable(res)
                                    ctx.violation("correspondence:C06.reply-after-traffic", case, found_input=False)


def _handler_retry_run(K, rq, flags, ax, seed, a1, a2, mode, profile):
    """one case of handler_retry_sweep on a fresh stack -> (case record, list of (oracle name, message))"""
    fl = dict(zip(R.FLAGS, flags))
    entity, mkreply = rq["gen"](random.Random(seed))
    rig = R.Rig(flags, ax, profile)
    ser = R.canon(entity.toProtocolTreeNode())

    def answer(t):
        return mkreply(entity.getId()) if t == "result" else K._err(entity.getId(), K.SRV)
    names = lambda us: [type(u).__name__ if u is not None else "<None>" for u in us]
    probs = []
    ups0, outs0, bottom0, exc0 = rig.send(entity)
    reply1 = answer(a1)
    if mode == "inside":
        ups1, outs1, downs1, exc1, retried = rig.recv_retrying(reply1, entity)
    else:
        ups1, downs1, exc1 = rig.recv(reply1)
        _u, outs1, _b, exc1b = rig.send(entity)
        exc1, retried = exc1 or exc1b, True
        ups1 = ups1 + _u
    reply2 = answer(a2)
    ups2, downs2, exc2 = rig.recv(reply2)
    ups3, downs3, exc3 = rig.recv(reply2)
    # the duplicate answers no pending request: it is handled like the same stanza on a stack that never sent anything
    # (nothing, except for the few answer stanzas that are a supported incoming kind of their own, e.g. a sync result)
    base_ups, _bd, _be = R.Rig(flags, ax, profile).recv(reply2)
    exp1 = [rq[a1]] if rq[a1] else []
    exp2 = [rq[a2]] if rq[a2] else []
    case = {"handler_retry": mode, "request": rq["name"], "first_answer": a1, "retry_answer": a2, "flags": fl,
            "axolotl": ax, "gen_seed": seed, "request_stanza": R.show(ser),
            "steps": ["application sends the request", "server answers with %s" % a1,
                      "application sends the SAME entity again (same id) %s" % (
                          "from inside its receive() of that answer" if mode == "inside" else "after its receive() returned"),
                      "server answers the retried request with %s" % a2, "the same answer stanza is delivered once more"],
            "first_reply": R.show(reply1), "retry_reply": R.show(reply2),
            "observed_up": [names(ups0), names(ups1), names(ups2), names(ups3)],
            "expected_up": [[], exp1, exp2, names(base_ups)],
            "retried_request_out": [R.show(R.canon(o)) for o in outs1], "retried": retried}
    excs = [e for e in (exc0, exc1, exc2, exc3) if e is not None]
    if excs:
        case["exception"] = repr(excs[0])
        probs.append(("oracle:no-error", "raised %r" % (excs[0],)))
    if [R.canon(o) for o in outs0] != [ser]:
        probs.append(("oracle:send_once", "the request left the protocol layers %d times" % len(outs0)))
    if names(ups1) != exp1:
        probs.append(("oracle:reply_once", "first answer: entities at the application %r, expected %r" % (names(ups1), exp1)))
    if retried and [R.canon(o) for o in outs1] != [ser]:
        probs.append(("oracle:send_once", "the retried request left the protocol layers %d times, expected exactly "
                      "its serialisation once" % len(outs1)))
    if retried and (a2 == "result" or rq[a2] is not None) and names(ups2) != exp2:
        probs.append(("oracle:reply_once", "answer to the retried request: entities at the application %r, expected %r"
                      % (names(ups2), exp2)))
    if downs2 or downs3:
        case["observed_down"] = [R.show(x) for x in downs2 + downs3]
        probs.append(("oracle:reply_once", "an answer stanza made the stack send something"))
    if retried and names(ups3) != names(base_ups):
        probs.append(("oracle:reply_once", "the duplicate of an already consumed answer produced %r, the same stanza on "
                      "a stack without pending requests %r" % (names(ups3), names(base_ups))))
    if probs:
        case["problem"] = "; ".join(p[1] for p in probs)
    obs = None
    if mode == "after":
        obs = [R.norm_actions(R.abstract_obs(ups0, outs0, exc0, ser)),
               R.norm_actions(R.abstract_obs(ups1, [], None)),
               R.norm_actions(R.abstract_obs([], outs1, None, ser)),
               R.norm_actions(R.abstract_obs(ups2, downs2, exc2)),
               R.norm_actions(R.abstract_obs(ups3, downs3, exc3))]
        ops = [[1, R.entity_features(entity)], [0, R.node_features(reply1)], [1, R.entity_features(entity)],
               [0, R.node_features(reply2)], [0, R.node_features(reply2)]]
        obs = (ops, obs)
    return case, probs, obs, retried


def handler_retry_sweep(ctx, model, nvec, profile, stats):
    """the application re-sends the SAME request entity (same id) from inside its handler for the answer (result or
    error) of a tracked request -- the usual `retry the request I still hold` pattern; the answer to the retried
    request is an incoming stanza of a supported kind like any other: exactly one entity of the documented class,
    its duplicate nothing.  Control: the same retry after the handler has returned (compared with the model's
    run_trace, which has no re-entrancy)."""
    K = kinds()
    stats.setdefault("handler_retry_cases", {"inside": 0, "after": 0, "retried_inside": 0})
    for rq in K.REQS:
        if len(ctx.violations) >= 8:
            break
        for ax in (0, 1):
            for flags in (FLAGSETS[0], FLAGSETS[-1]):
                fl = dict(zip(R.FLAGS, flags))
                if not (rq["module"] is None or fl[rq["module"]]):
                    continue
                for a1 in ("result", "error"):
                    if rq[a1] is None:
                        continue          # nothing reaches the application: no handler to retry from (C08's subject)
                    for a2 in ("result", "error"):
                        for mode in ("inside", "after"):
                            for _ in range(nvec):
                                seed = ctx.rng.getrandbits(48)
                                case, probs, obs, retried = _handler_retry_run(K, rq, flags, ax, seed, a1, a2, mode, profile)
                                stats["evaluations"] += 1
                                stats["reply_cases"] += 1
                                stats["handler_retry_cases"][mode] += 1
                                if mode == "inside" and retried:
                                    stats["handler_retry_cases"]["retried_inside"] += 1
                                for name in sorted(set(p[0] for p in probs)):
                                    ctx.violation(name, case)
                                    stats["oracle_failures"] += 1
                                if model is not None and obs is not None:
                                    res = model.call("run_trace", model_arg(flags, ax, obs[0]))
                                    ok = not isinstance(res, tuple) and len(res) == len(obs[1]) and \
                                        all(norm_model(m)[0] == o for m, o in zip(res, obs[1]))
                                    if not ok:
                                        stats["mismatches"] += 1
                                        case = dict(case, model=jsonable(res), impl=jsonable(obs[1]))
                                        ctx.violation("correspondence:C06.retry-after-handler", case,
                                                      found_input=bool(probs))


def replay_handler_retry(ctx, data, profile):
    case = data["case"]
    K = kinds()
    rq = [q for q in K.REQS if q["name"] == case["request"]][0]
    flags = tuple(case["flags"][f] for f in R.FLAGS)
    c2, probs, _obs, _r = _handler_retry_run(K, rq, flags, case["axolotl"], case["gen_seed"], case["first_answer"],
                                             case["retry_answer"], case["handler_retry"], profile)
    print("request:", case["request"], "flags:", case["flags"], "axolotl:", case["axolotl"])
    for i, st in enumerate(c2["steps"]):
        print("step %d: %s" % (i, st))
    print("observed at the application per step [send, first answer, retry answer, duplicate]:", c2["observed_up"])
    print("expected:", c2["expected_up"])
    if probs:
        print("problem:", c2["problem"])
        print("VIOLATION property=%s replay=(replayed)" % ctx.pid)
        return 1
    print("property holds on this input now")
    return 0


# ------------------------------------------------------------------ lifecycle events, then stanzas that need an answer
LIFECYCLE_PROBES = ("recv.iq.ping", "recv.notification.status")


def lifecycle_events():
    from yowsup.layers.network import YowNetworkLayer
    from yowsup.layers.auth import YowAuthenticationProtocolLayer
    return {"AUTHED": YowAuthenticationProtocolLayer.EVENT_AUTHED,
            "DISCONNECT": YowNetworkLayer.EVENT_STATE_DISCONNECT,
            "DISCONNECTED": YowNetworkLayer.EVENT_STATE_DISCONNECTED,
            "CONNECTED": YowNetworkLayer.EVENT_STATE_CONNECTED}


def _ping_threads():
    import threading
    return [t for t in threading.enumerate() if t.name.startswith("YowPing")]


def _lifecycle_run(K, events, interval, flags, seed, profile, started):
    """events delivered to ONE real stack (no encryption layers: their CONNECTED/DISCONNECTED handling is C14's/C16's
    subject); after every event each probe kind is delivered once.  `started` collects the keep-alive threads the
    case made the library start; they are stopped before returning.  -> (case, problems)"""
    EV = lifecycle_events()
    by = K.by_name()
    r = random.Random(seed)
    before = set(_ping_threads())
    rig = R.Rig(flags, 0, profile, ping_interval=R.Rig.UNSET if interval is None else interval)
    trace, probs = [], []
    try:
        def probe(after):
            for pk in LIFECYCLE_PROBES:
                k = by[pk]
                node = k["gen"](random.Random(r.getrandbits(48)))
                ups, downs, exc = rig.recv(node)
                raw = {"ups": ups, "downs": downs, "exc": exc, "node": node}
                orc = [o for o in oracle_recv(k, flags, raw) if o[2] is None]
                trace.append({"after": after, "stanza": R.show(node), "up": [type(u).__name__ for u in ups],
                              "down": [R.show(x) for x in downs], "exception": repr(exc) if exc else None})
                for name, msg, _key in orc:
                    probs.append((name, "after events %r, %s: %s" % (after, pk, msg)))
        probe([])
        for i, e in enumerate(events):
            ups, downs, exc = rig.event(EV[e], **({"passive": False} if e == "AUTHED" else {"reason": "test"}
                                                   if e.startswith("DISCONNECT") else {}))
            if exc is not None:
                probs.append(("oracle:no-error", "event %s raised %r" % (e, exc)))
            probe(list(events[:i + 1]))
    finally:
        # stop the keep-alive threads this case started (they tick once a second; joined at the end of the sweep)
        try:
            rig.event(EV["DISCONNECT"], reason="end of case")
        except Exception:
            pass
        for t in _ping_threads():
            if t not in before:
                t.stop()
                started.append(t)
    case = {"lifecycle": list(events), "ping_interval": interval, "flags": dict(zip(R.FLAGS, flags)), "axolotl": 0,
            "gen_seed": seed, "probes": list(LIFECYCLE_PROBES), "trace": trace,
            "expected": "every server ping: exactly one pong with its id going down, nothing for the application; "
                        "every notification: exactly one ack; whatever connection events the stack saw before"}
    if probs:
        case["problem"] = "; ".join(p[1] for p in probs[:6])
        # keep the trace short: up to the first bad probe
    return case, probs


def _join_ping_threads(started, stats):
    import time

    def alive(t):
        # YowPingThread keeps its stop flag in `_stop`, which hides threading.Thread's private method of that name on
        # python 3: join()/is_alive() of a FINISHED ping thread raise TypeError when they try to call it
        try:
            return t.is_alive()
        except TypeError:
            return False
    leaked = 0
    deadline = time.time() + 4
    for t in started:
        while alive(t) and time.time() < deadline:
            time.sleep(0.05)
        leaked += 1 if alive(t) else 0
    stats["lifecycle_threads"] = {"started_by_the_library": len(started), "alive_after_stop_and_join": leaked}
    return leaked


def lifecycle_sweep(ctx, maxlen, profile, stats):
    """C07 per stanza, whatever connection events came before: sequences over {AUTHED, DISCONNECT, DISCONNECTED,
    CONNECTED} up to maxlen, keep-alive interval property unset / 0 / 50, a server ping and a notification after every
    prefix.  Interval 50 (and unset = 50) makes AUTHED start the library's real keep-alive thread; it never fires
    within a case (first ping after 50 s) and is stopped at the end of the case."""
    K = kinds()
    names = sorted(lifecycle_events())
    started = []
    st = stats.setdefault("lifecycle", {"cases": 0, "events": 0, "probes": 0, "intervals": ["unset", 0, 50],
                                        "max_length": maxlen})
    try:
        # order: keep-alive switched off first, and within a length the sequences that end in a completed login first,
        # so that the first records of a failing run show stanzas left unanswered on a connection that is up again
        for interval in (0, None, 50):
            for n in range(1, maxlen + 1):
                for events in sorted(itertools.product(names, repeat=n), key=lambda e: e[-1] != "AUTHED"):
                    if len([v for v in ctx.violations if v["found_input"]]) >= 4:
                        return
                    flags = FLAGSETS[-1] if (st["cases"] % 4) else FLAGSETS[0]
                    seed = ctx.rng.getrandbits(48)
                    case, probs = _lifecycle_run(K, events, interval, flags, seed, profile, started)
                    st["cases"] += 1
                    st["events"] += n
                    st["probes"] += len(case["trace"])
                    stats["evaluations"] += len(case["trace"])
                    if probs:
                        stats["oracle_failures"] += 1
                        ctx.violation(probs[0][0], case)
    finally:
        if _join_ping_threads(started, stats):
            ctx.violation("harness:ping-thread-still-running", dict(stats["lifecycle_threads"]), found_input=False)


def replay_lifecycle(ctx, data, profile):
    case = data["case"]
    K = kinds()
    flags = tuple(case["flags"][f] for f in R.FLAGS)
    started = []
    c2, probs = _lifecycle_run(K, case["lifecycle"], case["ping_interval"], flags, case["gen_seed"], profile, started)
    _join_ping_threads(started, {})
    print("events:", case["lifecycle"], "ping interval property:", case["ping_interval"], "flags:", case["flags"])
    for t in c2["trace"]:
        print("after %r: %s -> up %s down %s exc %s" % (t["after"], json.dumps(t["stanza"]["attrs"]), t["up"],
                                                        [(d["tag"], d["attrs"]) for d in t["down"]], t["exception"]))
    print("expected:", c2["expected"])
    if probs:
        print("problem:", c2["problem"])
        print("VIOLATION property=%s replay=(replayed)" % ctx.pid)
        return 1
    print("property holds on this history now")
    return 0


def retry_sweep(ctx, model, nvec, profile, stats):
    """receipts for a message the send layer still holds (state set up through the layer's own enqueueSent)"""
    K = kinds()
    from yowsup.structs import ProtocolTreeNode as N
    for flags in (FLAGSETS[0], FLAGSETS[-1]):
        for rtype in ("retry", None, "read"):
            for _ in range(nvec):
                r = random.Random(ctx.rng.getrandbits(48))
                mid = K.rid(r)
                rig = R.Rig(flags, 1, profile)
                rig.enqueue_sent(N("message", {"id": mid, "to": K.rjid(r), "type": "text"},
                                   [N("proto", {}, None, K.pl_conversation(r).SerializeToString())]))
                grp = r.random() < .4
                node = N("receipt", K.attrs(id=mid, t=K.rts(r), from_=K.rgjid(r) if grp else K.rjid(r),
                                            participant=K.rjid(r) if grp else None, type=rtype),
                         [N("retry", {"count": "1", "id": mid, "v": "1", "t": K.rts(r)}),
                          N("registration", {}, None, r.randbytes(4))] if rtype == "retry" else None)
                ups, downs, exc = rig.recv(node)
                stats["evaluations"] += 1
                obs = R.norm_actions(R.abstract_obs(ups, downs, exc))
                if model is not None:
                    res = model.call("run_trace", model_arg(flags, 1, [[0, R.node_features(node, enqueued=True)]]))
                    if isinstance(res, tuple) or norm_model(res[0])[0] != obs:
                        stats["mismatches"] += 1
                        ctx.violation("correspondence:C06.retry-receipt",
                                      {"stanza": R.show(node), "flags": dict(zip(R.FLAGS, flags)), "impl": jsonable(obs),
                                       "model": jsonable(res)}, found_input=False)
                exp_up = [] if rtype == "retry" else ["IncomingReceiptProtocolEntity"]
                if [type(u).__name__ for u in ups] != exp_up or exc is not None:
                    ctx.violation("oracle:axolotl_split", {"stanza": R.show(node), "observed_up": [type(u).__name__ for u in ups],
                                                           "expected_up": exp_up, "exception": repr(exc)})


# ------------------------------------------------------------------ histories on ONE stack instance
def _hist_run(K, hist, flags, ax, profile):
    """hist = [(kind name, gen seed, id override or None)]; returns per step (kind, node, feats, obs, raw)"""
    rig = R.Rig(flags, ax, profile)
    by = K.by_name()
    out = []
    for name, seed, idov in hist:
        k = by[name]
        node = gen_obj(k, seed)
        if idov is not None and k["dir"] == "recv" and node.attributes.get("id") is not None:
            node.attributes["id"] = idov
        if k["dir"] == "send":
            # an entity pushed at the top of the SAME stack (mixed histories): node here is the entity
            entity = node
            ser = R.canon(entity.toProtocolTreeNode())
            feats = R.entity_features(entity)
            ups, outs, bottom, exc = rig.send(entity)
            obs = R.norm_actions(R.abstract_obs(ups, outs, exc, ser))
            out.append((k, entity.toProtocolTreeNode(), feats, obs,
                        {"ups": ups, "outs": outs, "downs": outs, "bottom": bottom, "exc": exc, "ser": ser,
                         "entity": entity}))
            continue
        feats = R.node_features(node)
        ups, downs, exc = rig.recv(node)
        obs = R.norm_actions(R.abstract_obs(ups, downs, exc))
        out.append((k, node, feats, obs, {"ups": ups, "downs": downs, "exc": exc, "node": node}))
    return out


def _hist_problems(model, steps, flags, ax, judge_answers):
    """-> (index of first bad step, kind of problem, details) or None"""
    res = None
    if model is not None:
        res = model.call("run_trace", model_arg(flags, ax, [[1 if st[0]["dir"] == "send" else 0, st[2]]
                                                            for st in steps]))
    for i, (k, node, feats, obs, raw) in enumerate(steps):
        if k["domain"]:
            orc = oracle_send(k, flags, ax, raw) if k["dir"] == "send" else oracle_recv(k, flags, raw)
            orc = [o for o in orc if judge_answers or o[0] != "oracle:answers"]
            orc = [o for o in orc if o[2] is None]
            if orc:
                return i, orc[0][0], "; ".join(o[1] for o in orc)
        if res is not None:
            if isinstance(res, tuple):
                return i, "correspondence:C06.history", "model run failed %r" % (res,)
            if norm_model(res[i])[0] != obs:
                return i, "correspondence:C06.history", "model %r impl %r" % (jsonable(res[i][0]), jsonable(obs))
    return None


def history_sweep(ctx, model, select, nhist, stats, judge_answers, length=(6, 16), mixed=False):
    """sequences of incoming stanzas through ONE stack instance, with ids reused and whole stanzas repeated: the
    duties are per stanza whatever was received before (C07_*_history); compared step by step with run_trace.
    mixed: entities sent from the top are interleaved with the incoming stanzas on the same stack, in both orders
    (a tag first seen incoming and then sent, first sent and then incoming): routing of a stanza never depends on
    what travelled in the other direction before"""
    K = kinds()
    names = [k["name"] for k in K.KINDS if select(k) and k["dir"] == "recv" and k["domain"]
             and not k["name"].startswith("recv.auth") and "stream" not in k["name"]]
    send_names = [k["name"] for k in K.KINDS if select(k) and k["dir"] == "send" and k["domain"]] if mixed else []
    by_name = K.by_name()

    def tag_of(name):
        return name.split(".")[1]
    recv_by_tag, send_by_tag = {}, {}
    for nm in names:
        recv_by_tag.setdefault(tag_of(nm), []).append(nm)
    for nm in send_names:
        send_by_tag.setdefault(tag_of(nm), []).append(nm)
    both_tags = sorted(set(recv_by_tag) & set(send_by_tag))
    stats.setdefault("histories", 0)
    stats.setdefault("history_steps", 0)
    stats.setdefault("history_id_reuses", 0)
    for h in range(nhist):
        if len(ctx.violations) >= 8:
            stats["stopped_early"] = "8 violations recorded"
            break
        r = random.Random(ctx.rng.getrandbits(48))
        flags = r.choice(FLAGSETS) if h % 3 else FLAGSETS[-1]
        ax = r.randint(0, 1)
        n = r.randint(*length)
        hist, ids = [], []
        for _ in range(n):
            x = r.random()
            if hist and x < 0.2:
                hist.append(r.choice(hist))                         # the very same stanza again
                stats["history_id_reuses"] += 1
            elif mixed and both_tags and x < 0.6:
                # the same tag in both directions, first direction chosen at random
                t = r.choice(both_tags)
                pair = [(r.choice(recv_by_tag[t]), r.getrandbits(48), None),
                        (r.choice(send_by_tag[t]), r.getrandbits(48), None)]
                if r.random() < .5:
                    pair.reverse()
                hist.extend(pair)
                stats["history_direction_pairs"] = stats.get("history_direction_pairs", 0) + 1
            elif mixed and x < 0.8:
                hist.append((r.choice(send_names), r.getrandbits(48), None))
            else:
                name = r.choice(names)
                idov = r.choice(ids) if (ids and x < 0.55 and not mixed) else None   # another stanza carrying an id seen before
                if idov is not None:
                    stats["history_id_reuses"] += 1
                hist.append((name, r.getrandbits(48), idov))
            k0 = by_name[hist[-1][0]]
            if k0["dir"] == "recv":
                node = gen_obj(k0, hist[-1][1])
                ids.append(hist[-1][2] or node.attributes.get("id") or "x")
        stats["profiles"] = stats.get("profiles", 0) + 1
        profile = R.make_profile(ctx.scratch, stats["profiles"])
        try:
            steps = _hist_run(K, hist, flags, ax, profile)
        except Exception as e:
            ctx.violation("harness:history_rig_failed", {"history": hist, "error": repr(e)}, found_input=False)
            continue
        stats["histories"] += 1
        stats["history_steps"] += len(steps)
        stats["evaluations"] += len(steps)
        bad = _hist_problems(model, steps, flags, ax, judge_answers)
        if bad is None:
            continue
        # shrink: cut after the failing step, then drop earlier stanzas one at a time while it still fails
        i = bad[0]
        cur = hist[:i + 1]
        changed = True
        while changed and len(cur) > 1:
            changed = False
            for j in range(len(cur) - 1):
                cand = cur[:j] + cur[j + 1:]
                stats["profiles"] += 1
                try:
                    st2 = _hist_run(K, cand, flags, ax, R.make_profile(ctx.scratch, stats["profiles"]))
                except Exception:
                    continue
                b2 = _hist_problems(model, st2, flags, ax, judge_answers)
                if b2 is not None and b2[0] == len(cand) - 1 and b2[1] == bad[1]:
                    cur, bad, changed = cand, b2, True
                    break
        stats["profiles"] += 1
        st3 = _hist_run(K, cur, flags, ax, R.make_profile(ctx.scratch, stats["profiles"]))
        case = {"history": [list(x) for x in cur], "flags": dict(zip(R.FLAGS, flags)), "axolotl": ax,
                "failing_step": len(cur) - 1, "problem": bad[2],
                "stanzas": [R.show(x[1]) for x in st3],
                "observed_last": {"up": [type(u).__name__ for u in st3[-1][4]["ups"]],
                                  "down": [R.show(x) for x in st3[-1][4]["downs"]],
                                  "exception": repr(st3[-1][4]["exc"])}}
        ctx.violation(bad[1] if bad[1].startswith("oracle") else "correspondence:C06.history", case,
                      found_input=bad[1].startswith("oracle"))
        stats["mismatches"] += 0 if bad[1].startswith("oracle") else 1
        stats["oracle_failures"] += 1 if bad[1].startswith("oracle") else 0


def replay_history(ctx, data, profile, judge_answers):
    case = data["case"]
    K = kinds()
    flags = tuple(case["flags"][f] for f in R.FLAGS)
    hist = [tuple(x) for x in case["history"]]
    steps = _hist_run(K, hist, flags, case["axolotl"], profile)
    bad = _hist_problems(None, steps, flags, case["axolotl"], judge_answers)
    for i, st in enumerate(steps):
        print("step %d: %s -> up %s down %s exc %r" % (i, R.show(st[1]), [type(u).__name__ for u in st[4]["ups"]],
                                                       [R.show(x) for x in st[4]["downs"]], st[4]["exc"]))
    print("expected: every stanza is delivered / answered exactly as if it were the first one the stack ever saw")
    if bad is not None:
        print("problem at step %d: %s" % (bad[0], bad[2]))
        print("VIOLATION property=%s replay=(replayed)" % ctx.pid)
        return 1
    print("property holds on this history now")
    return 0


def new_stats():
    return {"evaluations": 0, "per_kind": {}, "distinct": set(), "oracle_failures": 0, "mismatches": 0,
            "table_kinds_seen": set(), "reply_cases": 0}


def _two_pending_run(K, n1, n2, profile, limit=300):
    """two requests of different kinds (registered by different layers / answered by different classes) outstanding
    together, their ids as the library itself hands them out.  Entities of both kinds are generated alternately (up to
    `limit` each) and the first two of different kinds that were given the SAME id are used; when the library never
    repeats an id - as it must not - the last pair generated is used.  -> (case, problems)"""
    rq1 = [q for q in K.REQS if q["name"] == n1][0]
    rq2 = [q for q in K.REQS if q["name"] == n2][0]
    flags = tuple(True for _ in R.FLAGS)
    rng = random.Random(7)
    seen1, seen2, pair, gens = {}, {}, None, 0
    for _ in range(limit):
        e1, mk1 = rq1["gen"](rng)
        e2, mk2 = rq2["gen"](rng)
        gens += 2
        seen1[e1.getId()] = (e1, mk1)
        seen2[e2.getId()] = (e2, mk2)
        hit = e1.getId() if e1.getId() in seen2 else e2.getId() if e2.getId() in seen1 else None
        if hit is not None:
            pair = (seen1[hit], seen2[hit])
            break
        if type(e1) is type(e2):
            break
    (e1, mk1), (e2, mk2) = pair or ((e1, mk1), (e2, mk2))
    rig = R.Rig(flags, False, profile)
    names = lambda us: [type(u).__name__ if u is not None else "<None>" for u in us]
    probs = []
    rig.send(e1)
    rig.send(e2)
    ups1, d1, x1 = rig.recv(mk1(e1.getId()))
    ups2, d2, x2 = rig.recv(mk2(e2.getId()))
    case = {"two_pending": [n1, n2], "ids": [e1.getId(), e2.getId()], "entities_generated": gens,
            "steps": ["the library numbers the entities it creates; entities of both kinds are created alternately",
                      "application sends request 1", "application sends request 2", "server answers request 1",
                      "server answers request 2"],
            "observed_up": [names(ups1), names(ups2)], "expected_up": [[rq1["result"]], [rq2["result"]]]}
    if e1.getId() == e2.getId():
        probs.append(("oracle:reply_once", "two different requests outstanding together were given the same id %r"
                      % e1.getId()))
    if names(ups1) != [rq1["result"]] or names(ups2) != [rq2["result"]] or d1 or d2 or x1 or x2:
        probs.append(("oracle:reply_once", "answers to two outstanding requests: entities at the application %r / %r, "
                      "expected %r / %r" % (names(ups1), names(ups2), [rq1["result"]], [rq2["result"]])))
    if probs:
        case["problem"] = "; ".join(p[1] for p in probs)
    return case, probs


def two_pending_sweep(ctx, profile, stats):
    """every pair of request kinds answered by different classes or registered by different layers, both outstanding,
    with the ids the library generates (see _two_pending_run)"""
    K = kinds()
    regs = [q for q in K.REQS if q["result"]]
    n = 0
    for i, q1 in enumerate(regs):
        for q2 in regs[i + 1:]:
            if q1["module"] == q2["module"] and q1["result"] == q2["result"]:
                continue
            case, probs = _two_pending_run(K, q1["name"], q2["name"], profile)
            n += 1
            if probs:
                ctx.violation(probs[0][0], case, key="two_pending:%s" % probs[0][0])
                stats["two_pending_cases"] = n
                return
    stats["two_pending_cases"] = n


def replay_two_pending(ctx, data, profile):
    case = data["case"]
    c2, probs = _two_pending_run(kinds(), case["two_pending"][0], case["two_pending"][1], profile)
    print("ids:", c2["ids"], "observed:", c2["observed_up"], "expected:", c2["expected_up"])
    if probs:
        print("VIOLATION property=%s replay=(replayed)" % ctx.pid)
        return 1
    print("property holds on this input now")
    return 0


def replay_case(ctx, data, profile):
    """re-run a recorded case on the implementation; 1 if the property oracle still fails"""
    case = data["case"]
    K = kinds()
    if "history" in case:
        return replay_history(ctx, data, profile, ctx.pid == "C07")
    if "handler_retry" in case:
        return replay_handler_retry(ctx, data, profile)
    if "two_pending" in case:
        return replay_two_pending(ctx, data, profile)
    if "lifecycle" in case:
        return replay_lifecycle(ctx, data, profile)
    if "request" in case and "gen_seed" in case:
        rq = [q for q in K.REQS if q["name"] == case["request"]][0]
        flags = tuple(case["flags"][f] for f in R.FLAGS)
        entity, mkreply = rq["gen"](random.Random(case["gen_seed"]))
        rig = R.Rig(flags, case["axolotl"], profile)
        rig.send(entity)
        reply = mkreply(entity.getId()) if case["reply_type"] == "result" else K._err(entity.getId(), K.SRV)
        rups, rdowns, rexc = rig.recv(reply)
        got = [type(u).__name__ for u in rups]
        print("request:", case["request"], "reply:", case["reply_type"], "flags:", case["flags"])
        print("observed:", got, [R.show(x) for x in rdowns], repr(rexc))
        print("expected:", case.get("expected_up"), [], None)
        if got != case.get("expected_up") or rdowns or rexc is not None:
            print("VIOLATION property=%s replay=(replayed)" % ctx.pid)
            return 1
        print("property holds on this input now")
        return 0
    if "kind" not in case:
        print("replay: this record names a broken tie without a concrete input:", json.dumps(case)[:600])
        return 1
    k = K.by_name()[case["kind"]]
    flags = tuple(case["flags"][f] for f in R.FLAGS)
    obj = R.node_from_show(case["stanza"]) if k["dir"] == "recv" else None
    feats, obs, obs_bottom, raw = run_impl(k, flags, case["axolotl"], case["gen_seed"], profile, obj)
    res = oracle_recv(k, flags, raw) if k["dir"] == "recv" else oracle_send(k, flags, case["axolotl"], raw)
    print("kind:", k["name"], "flags:", case["flags"], "axolotl:", case["axolotl"])
    print("observed:", json.dumps(jsonable([obs, obs_bottom])))
    for name, msg, key in res:
        print("expected: %s -- %s" % (name, msg))
    if res and k["domain"]:
        print("VIOLATION property=%s replay=(replayed)" % ctx.pid)
        return 1
    print("property holds on this input now")
    return 0
