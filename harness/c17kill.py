"""C17 - "the process is KILLED at a write boundary of the key store" for accounts of the world simulator.

A Killer is armed on one account for the duration of one world operation.  It listens to SQLite's own statement
trace on the connection the library opened on the account's store (harness/worldsim.py registers those
connections).  While the account handles an input ABOUT A CONTACT IT HAS ALREADY PINNED (application send to it,
key answer for it, message stanza from it), every statement that writes (INSERT/UPDATE/DELETE/REPLACE) and every
COMMIT is a boundary; the trace callback runs BEFORE the statement executes, so at the callback the database file
(+ its rollback journal) is exactly what a process killed before that statement leaves behind.  At the j-th
boundary the killer

  * copies database + journal (the image),
  * declares the account dead: whatever the still running interpreter (the "zombie") would send down, hand up or
    report from now on is dropped - a killed process says nothing any more,

and when the input returns it plays the new process: the stack is dropped, the store connection closed, the
database file REPLACED BY THE IMAGE (a hot journal is rolled back by opening it once, as any new process would),
a fresh stack started over it.  In-memory state is gone, the store is the durable state of the boundary.

The recorder's event of the killed input gets  ev["killed"] = number of commits on identities/sessions completed in
this input before the boundary  and the committed tables of the image as ids_after / sess_after.

Why only inputs about pinned contacts: python-axolotl's processPreKeyBundle stores the session first and saves the
identity last, in two transactions; killed between them at FIRST contact the store holds a session for an identity
that is not remembered.  No pin exists yet that could be lost; that window is outside what C17's kill theorems claim
(coq/C17: no_encrypt_to_stranger_with_kill_refuted) and is left to C13's subject, cross-store atomicity.
"""
import os, shutil, sqlite3

from . import worldsim as ws

WRITE_VERBS = ("INSERT", "UPDATE", "DELETE", "REPLACE")


class Killer(object):
    def __init__(self, world, acct, j, scratch):
        self.w, self.acct, self.j = world, acct, int(j)
        self.image = os.path.join(scratch, "c17kill-%d-%d.db" % (acct.idx, world.serial))
        self.count = 0            # boundaries seen so far in live inputs
        self.live = False         # inside an input about pinned contacts
        self.dead = False
        self.commits = 0          # commits on identities/sessions completed in the current input
        self.dirty = False        # the open transaction wrote to identities/sessions
        self.killed_commits = None
        self.armed = False
        self.fired = False
        self._conn = None
        self._undo = []

    # ---- arming ---------------------------------------------------------------------------------------------
    def db_path(self):
        return os.path.join(self.acct.profile_dir(), "axolotl.db")

    def arm(self):
        acct = self
        a = self.acct
        if a.stack is None:
            return False
        conns = ws._STORE_CONNS.get(os.path.realpath(self.db_path()), [])
        if not conns:
            return False
        self._conn = conns[-1]
        self._conn.set_trace_callback(self._on_sql)

        def wrap(obj, name, fn):
            had = name in getattr(obj, "__dict__", {})
            old = getattr(obj, name)
            setattr(obj, name, fn(old))
            self._undo.append((obj, name, had, old))

        # a dead process sends nothing down, hands nothing up, reports nothing
        wrap(a.bottom, "send", lambda old: (lambda node: None if acct.dead else old(node)))
        wrap(a.top, "receive", lambda old: (lambda ent: None if acct.dead else old(ent)))
        sl = a.find_layer("AxolotlSendLayer")
        if sl is not None and hasattr(sl, "on_get_keys_process_errors"):
            wrap(sl, "on_get_keys_process_errors", lambda old: (lambda errors: None if acct.dead else old(errors)))

        def inject(old):
            def f(node, record=True):
                acct._begin(record and acct._about_pinned_node(node))
                try:
                    old(node, record)
                finally:
                    acct._end()
            return f

        def app_send(old):
            def f(entity):
                acct._begin(acct._pinned_jids([entity.getTo()]))
                try:
                    old(entity)
                finally:
                    acct._end()
            return f
        wrap(a, "inject", inject)
        wrap(a, "app_send", app_send)
        self.armed = True
        return True

    def disarm(self):
        if not self.armed:
            return
        self.armed = False
        try:
            if self._conn is not None:
                self._conn.set_trace_callback(None)
        except Exception:
            pass
        for obj, name, had, old in reversed(self._undo):
            try:
                if had:
                    setattr(obj, name, old)
                else:
                    delattr(obj, name)
            except Exception:
                pass
        self._undo = []

    # ---- domain: inputs about contacts that are already pinned ------------------------------------------------
    def _pinned_jids(self, jids):
        try:
            tab = self.acct.identities_table()
        except Exception:
            return False
        return bool(jids) and all(j is not None and j.split("@")[0] in tab for j in jids)

    def _about_pinned_node(self, node):
        if node.tag == "message" and node.getChild("enc") is not None and node["participant"] is None:
            return self._pinned_jids([node["from"]])
        if node.tag == "iq" and node.getChild("list") is not None:
            users = node.getChild("list").getAllChildren("user")
            return self._pinned_jids([u["jid"] for u in users])
        return False

    # ---- one input ------------------------------------------------------------------------------------------
    def _begin(self, live):
        self.live = bool(live) and not self.dead and not self.fired
        self.commits = 0
        self.dirty = False

    def _end(self):
        self.live = False
        if self.dead and not self.fired:
            self.fired = True
            self._rebirth()

    def _on_sql(self, text):
        if not self.live or self.dead:
            return
        up = text.lstrip().upper()
        verb = up.split(None, 1)[0].rstrip(";") if up else ""
        if verb in WRITE_VERBS:
            self._boundary()
            if not self.dead and ("IDENTITIES" in up or "SESSIONS" in up):
                self.dirty = True
        elif verb in ("COMMIT", "END"):
            self._boundary()
            if not self.dead and self.dirty:
                self.commits += 1
                self.dirty = False

    def _boundary(self):
        if self.count == self.j:
            db = self.db_path()
            for suf in ("", "-journal", "-wal", "-shm"):
                if os.path.exists(self.image + suf):
                    os.remove(self.image + suf)
                if os.path.exists(db + suf):
                    shutil.copyfile(db + suf, self.image + suf)
            self.killed_commits = self.commits
            self.dead = True
        self.count += 1

    # ---- the new process ------------------------------------------------------------------------------------
    def _rebirth(self):
        a, obs = self.acct, self.w.observer
        ev = obs._cur if obs is not None else None
        self.disarm()
        a.stop()                                   # the zombie's connection is closed, whatever it wrote is discarded
        db = self.db_path()
        for suf in ("", "-journal", "-wal", "-shm"):
            if os.path.exists(db + suf):
                os.remove(db + suf)
            if os.path.exists(self.image + suf):
                shutil.move(self.image + suf, db + suf)
        c = sqlite3.connect(db)                    # what opening the store does first: a hot journal is rolled back
        try:
            c.execute("SELECT count(*) FROM sqlite_master").fetchall()
        finally:
            c.close()
        a.trace.append(("mark", ("kill", self.j)))
        if ev is not None:
            ev["killed"] = self.killed_commits
            ev["kill_boundary"] = self.j
            ev["ids_after"] = obs.ids_table(a)
            ev["sess_after"] = obs.sessions_table(a)
        a.start()
