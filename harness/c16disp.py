"""C16: the shipped connection dispatchers under the real YowNetworkLayer, over real loopback sockets.

The C16 rig drives the stack over a FAKE dispatcher whose contract is written down in c16rig.FakeDispatcher (every
close - of an established connection or of an attempt that never got that far - is reported to the network layer
synchronously).  That contract is an assumption of the model about code of the repository (yowsup/layers/network/
dispatcher/*), so it is checked here against that code: the real network layer is given each real dispatcher and
taken through the histories in which a connection attempt ENDS WITHOUT EVER BEING ESTABLISHED, then asked to
connect again.  Judged on the property's own clause: after any end of a connection (attempt) the transport state is
reset so that a later connect request starts afresh.

  refused        connect request to a loopback port nobody listens on; then a connect request to a port whose server
                 accepts and closes at once
  abandoned      (asyncore dispatcher; its connect() returns to the caller only when asyncore's loop ends, so the loop
                 is replaced by a no-op for this history) connect request, disconnect request while CONNECTING, then
                 a connect request
  established    connect request to the accept-and-close server twice in a row (the control: peer close of an
                 established connection, then a fresh one)

Everything is loopback on 127.0.0.1 and single threaded apart from the accept-and-close server thread.
"""
import socket, threading


def _stack_cls():
    class FakeStack(object):
        def __init__(self):
            self.props = {}

        def getProp(self, key, default=None):
            return self.props.get(key, default)

        def setProp(self, key, val):
            self.props[key] = val

        def execDetached(self, fn):
            fn()
    return FakeStack


def _mk(dispatcher_kind):
    from yowsup.layers import YowLayer
    from yowsup.layers.network.layer import YowNetworkLayer

    class Rec(YowLayer):
        def __init__(self):
            YowLayer.__init__(self)
            self.events, self.data = [], []

        def receive(self, d):
            self.data.append(bytes(d))

        def send(self, d):
            pass

        def onEvent(self, ev):
            self.events.append(ev.getName().rsplit(".", 1)[-1])
            return False
    net, up = YowNetworkLayer(), Rec()
    net.setLayers(up, None)
    up.setLayers(None, net)
    st = _stack_cls()()
    st.props[YowNetworkLayer.PROP_DISPATCHER] = dispatcher_kind
    for x in (net, up):
        x.setStack(st)
    return net, up, st


class _Server(object):
    """accepts connections and closes each at once"""

    def __init__(self):
        self.sock = socket.socket()
        self.sock.setsockopt(socket.SOL_SOCKET, socket.SO_REUSEADDR, 1)
        self.sock.bind(("127.0.0.1", 0))
        self.sock.listen(8)
        self.port = self.sock.getsockname()[1]
        self.accepted = 0
        self.t = threading.Thread(target=self._loop, daemon=True)
        self.t.start()

    def _loop(self):
        while True:
            try:
                c, _ = self.sock.accept()
            except OSError:
                return
            self.accepted += 1
            c.close()

    def close(self):
        try:
            self.sock.close()
        except OSError:
            pass


def _closed_port():
    s = socket.socket()
    s.bind(("127.0.0.1", 0))
    p = s.getsockname()[1]
    s.close()
    return p


def _snap(net, up, disp_before):
    names = {0: "DISCONNECTED", 1: "CONNECTING", 2: "CONNECTED", 3: "DISCONNECTING"}
    return {"state": names.get(net.state, net.state), "connected": bool(net.connected),
            "events_up": list(up.events), "new_dispatcher": net._dispatcher is not disp_before}


def _bounded(fn, seconds=8.0):
    """run fn on a thread; ('done', None) / ('raise', class name) / ('blocked', None)"""
    box = {}

    def body():
        try:
            fn()
            box["r"] = ("done", None)
        except Exception as e:            # noqa
            box["r"] = ("raise", e.__class__.__name__)
    t = threading.Thread(target=body, daemon=True)
    t.start()
    t.join(seconds)
    return box.get("r", ("blocked", None))


def run_history(name, dispatcher_kind):
    """-> (steps, failure or None); steps = [[label, outcome, snapshot]]"""
    from yowsup.layers.network.layer import YowNetworkLayer
    import yowsup.layers.network.dispatcher.dispatcher_asyncore as DA
    net, up, st = _mk(dispatcher_kind)
    srv = _Server()
    steps, fail = [], None
    real_loop = DA.asyncore.loop

    def step(label, fn):
        d0 = net._dispatcher
        n0 = len(up.events)
        out = _bounded(fn)
        s = _snap(net, up, d0)
        s["events_up"] = s["events_up"][n0:]
        steps.append([label, list(out), s])
        return out, s
    try:
        if name == "refused":
            st.props[YowNetworkLayer.PROP_ENDPOINT] = ("127.0.0.1", _closed_port())
            out, s = step("connect request (nobody listens)", net.createConnection)
            if out[0] == "blocked":
                fail = "the connect request to a refused port did not return"
            elif s["state"] != "DISCONNECTED" or s["connected"]:
                fail = "after a refused connection attempt the network layer is left %s" % s["state"]
        elif name == "abandoned":
            DA.asyncore.loop = lambda *a, **k: None
            st.props[YowNetworkLayer.PROP_ENDPOINT] = ("127.0.0.1", srv.port)
            out, s = step("connect request (loop not run: still CONNECTING)", net.createConnection)
            out, s = step("disconnect request", lambda: net.destroyConnection("bye"))
            DA.asyncore.loop = real_loop
            if s["state"] != "DISCONNECTED" or s["connected"]:
                fail = "after a disconnect request while CONNECTING the network layer is left %s" % s["state"]
        elif name == "established":
            st.props[YowNetworkLayer.PROP_ENDPOINT] = ("127.0.0.1", srv.port)
            out, s = step("connect request (server accepts and closes)", net.createConnection)
            if out[0] == "blocked":
                fail = "the connection the server closed never ended on the client side"
            elif s["events_up"] != ["connected", "disconnected"] or s["state"] != "DISCONNECTED":
                fail = "a connection the peer closed was announced as %r and left the layer %s" % (
                    s["events_up"], s["state"])
        else:
            raise ValueError(name)
        if fail is None:
            # the later connect request must start afresh: a new dispatcher, the connection established (announced
            # upward), and - the server closes it - ended again
            st.props[YowNetworkLayer.PROP_ENDPOINT] = ("127.0.0.1", srv.port)
            acc0 = srv.accepted
            out, s = step("later connect request (server accepts and closes)", net.createConnection)
            if out[0] == "blocked":
                fail = "the later connection never ended on the client side"
            elif not s["new_dispatcher"] or "connected" not in s["events_up"] or srv.accepted == acc0:
                fail = "the later connect request did not open a connection (state %s, events %r)" % (
                    s["state"], s["events_up"])
            elif s["events_up"] != ["connected", "disconnected"] or s["state"] != "DISCONNECTED":
                fail = "the later connection was announced as %r and left the layer %s" % (s["events_up"], s["state"])
    finally:
        DA.asyncore.loop = real_loop
        srv.close()
        try:
            if net._dispatcher is not None and getattr(net._dispatcher, "socket", None) is not None:
                net._dispatcher.socket.close()
        except Exception:                 # noqa
            pass
        try:
            DA.asyncore.socket_map.clear()
        except Exception:                 # noqa
            pass
    return steps, fail


def histories():
    from yowsup.layers.network.layer import YowNetworkLayer as N
    out = []
    for kind, kname in ((N.DISPATCHER_ASYNCORE, "asyncore"), (N.DISPATCHER_SOCKET, "socket")):
        for h in ("established", "refused") + (("abandoned",) if kind == N.DISPATCHER_ASYNCORE else ()):
            out.append((h, kind, kname))
    return out


def _loopback_unusable():
    """None when 127.0.0.1 behaves as the histories need (a listening port accepts, a closed one refuses at once)"""
    try:
        srv = _Server()
    except OSError as e:
        return "bind: " + e.__class__.__name__
    try:
        c = socket.socket()
        c.settimeout(3)
        try:
            c.connect(("127.0.0.1", srv.port))
            if c.recv(1) != b"":
                return "accept-and-close server did not close"
        except OSError as e:
            return "connect: " + e.__class__.__name__
        finally:
            c.close()
        c = socket.socket()
        c.settimeout(3)
        try:
            c.connect(("127.0.0.1", _closed_port()))
            return "a closed port accepted"
        except ConnectionRefusedError:
            return None
        except OSError as e:
            return "closed port: " + e.__class__.__name__
        finally:
            c.close()
    finally:
        srv.close()


def check(ctx):
    n = 0
    why = _loopback_unusable()
    if why:                               # no (ordinary) loopback interface in this environment: nothing can be driven
        ctx.coverage["real_dispatcher_histories"] = "not run: loopback sockets unusable (%s)" % why
        return 0
    for h, kind, kname in histories():
        steps, fail = run_history(h, kind)
        n += 1
        if fail:
            ctx.violation("oracle:C16.dispatcher-contract", {"kind": "dispatcher", "dispatcher": kname, "history": h,
                          "steps": steps, "oracle": fail}, key="dispatcher:%s:%s" % (kname, h))
    ctx.coverage["real_dispatcher_histories"] = ["%s/%s" % (k, h) for h, _, k in histories()]
    return n


def replay(case):
    from yowsup.layers.network.layer import YowNetworkLayer as N
    kind = N.DISPATCHER_ASYNCORE if case["dispatcher"] == "asyncore" else N.DISPATCHER_SOCKET
    steps, fail = run_history(case["history"], kind)
    for s in steps:
        print(s)
    print("oracle on the implementation:", fail)
    return 1 if fail else 0
