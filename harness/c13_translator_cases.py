"""C13 translator unit cases: small edits of the store sources and what harness/translators/c13_store.py must say
about them (Unrecognised / translated with identical programs / translated with different programs).  Not part of
`./check`; run by hand after touching the translator:

    cd /verif && YV_REPO=/repo /venv/bin/python -m harness.c13_translator_cases

Works on copies of $YV_REPO/yowsup/axolotl/store/sqlite in a temporary directory; exit status 1 if a case fails.
"""
import sys, os, shutil, tempfile, json
from .translators import c13_store as tr

S = "yowsup/axolotl/store/sqlite"
REPO = tr.REPO
TMP = tempfile.mkdtemp(prefix="c13-cases-")
FAILED = []


def _progs(meta):
    d = {(m["class"], m["name"]): m["prog"] for m in meta["methods"] if m["public"]}
    d["init"] = (meta["init"]["prog"], meta["init"]["guard_table"], meta["init"]["guard_key"])
    return d


def case(name, f, pairs, expect):
    d = os.path.join(TMP, name)
    os.makedirs(os.path.join(d, S))
    for x in os.listdir(os.path.join(REPO, S)):
        if x.endswith(".py"):
            shutil.copy(os.path.join(REPO, S, x), os.path.join(d, S))
    p = os.path.join(d, S, f)
    s = open(p).read()
    for a, b in pairs:
        assert a in s, (name, a)
        s = s.replace(a, b)
    open(p, "w").write(s)
    try:
        _, meta = tr.translate(d)
        _, base = tr.translate(REPO)
        got = "OK same" if _progs(meta) == _progs(base) else "OK different"
    except tr.Unrecognised as e:
        got = "UNREC: " + str(e)
    ok = got.startswith(expect)
    if not ok:
        FAILED.append(name)
    print("%-30s %s -> %s" % (name, "pass" if ok else "**** FAIL (expected %s)" % expect, got[:170]))

NCASES = 0
RM = ('''        q = "DELETE FROM prekeys WHERE prekey_id = ?"
        cursor = self.dbConn.cursor()
        cursor.execute(q, (preKeyId,))
        self.dbConn.commit()''')
P="liteprekeystore.py"
NCASES += 1; case("dynamic-sql-format", P, [(RM, '''        q = "DELETE FROM %s WHERE prekey_id = ?" % "prekeys"
        cursor = self.dbConn.cursor()
        cursor.execute(q, (preKeyId,))
        self.dbConn.commit()''')], "UNREC")
NCASES += 1; case("dynamic-sql-concat", P, [(RM, '''        q = "DELETE FROM prekeys"
        q += " WHERE prekey_id = ?"
        cursor = self.dbConn.cursor()
        cursor.execute(q, (preKeyId,))
        self.dbConn.commit()''')], "UNREC")
NCASES += 1; case("executemany", P, [('''        for prekeyId in prekeyIds:
            q = "UPDATE prekeys SET sent_to_server = ? WHERE prekey_id = ?"
            cursor = self.dbConn.cursor()
            cursor.execute(q, (1, prekeyId))
''','''        q = "UPDATE prekeys SET sent_to_server = ? WHERE prekey_id = ?"
        self.dbConn.cursor().executemany(q, [(1, i) for i in prekeyIds])
''')], "UNREC")
NCASES += 1; case("executescript", P, [(RM, '''        self.dbConn.executescript("DELETE FROM prekeys WHERE prekey_id = %d; COMMIT;" % preKeyId)''')], "UNREC")
NCASES += 1; case("rollback", P, [(RM, RM+"\n        self.dbConn.rollback()")], "UNREC")
NCASES += 1; case("conn-to-function", P, [(RM, '''        _remove(self.dbConn, preKeyId)''')], "UNREC")
NCASES += 1; case("cursor-to-function", P, [(RM, '''        _remove(self.dbConn.cursor(), preKeyId)
        self.dbConn.commit()''')], "UNREC")
NCASES += 1; case("self-to-function", P, [(RM, '''        _remove(self, preKeyId)''')], "UNREC")
NCASES += 1; case("helper-on-noncursor", P, [(RM, '''        self._rm(preKeyId, preKeyId)
        self.dbConn.commit()

    def _rm(self, cursor, preKeyId):
        cursor.execute("DELETE FROM prekeys WHERE prekey_id = ?", (preKeyId,))''')], "UNREC")
NCASES += 1; case("recursive-helper", P, [(RM, '''        self._rm(preKeyId)
        self.dbConn.commit()

    def _rm(self, preKeyId):
        self.dbConn.cursor().execute("DELETE FROM prekeys WHERE prekey_id = ?", (preKeyId,))
        self._rm(preKeyId)''')], "UNREC")
NCASES += 1; case("decorated-public", P, [("    def removePreKey(self, preKeyId):", "    @synchronized\n    def removePreKey(self, preKeyId):")], "UNREC")
NCASES += 1; case("decorated-private-called", P, [(RM, '''        self._rm(preKeyId)
        self.dbConn.commit()

    @synchronized
    def _rm(self, preKeyId):
        self.dbConn.cursor().execute("DELETE FROM prekeys WHERE prekey_id = ?", (preKeyId,))''')], "UNREC")
NCASES += 1; case("decorated-private-unused", P, [(RM, RM + '''

    @synchronized
    def _rm(self, preKeyId):
        self.dbConn.cursor().execute("DELETE FROM prekeys WHERE prekey_id = ?", (preKeyId,))''')], "OK same")
NCASES += 1; case("early-exit-before-write", P, [(RM, "        if preKeyId is None:\n            return\n"+RM)], "UNREC")
NCASES += 1; case("raise-in-helper-before-write", P, [(RM, '''        self._check(preKeyId)
'''+RM+'''

    def _check(self, preKeyId):
        if preKeyId < 0:
            raise ValueError(preKeyId)''')], "UNREC")
NCASES += 1; case("helper-early-return-reads", P, [(RM, '''        known = self._known(preKeyId)
'''+RM+'''

    def _known(self, preKeyId):
        if preKeyId is None:
            return False
        return self.containsPreKey(preKeyId)''')], "OK same")
NCASES += 1; case("exit-after-last-commit", P, [(RM, RM+"\n        if preKeyId > 100:\n            raise ValueError()")], "OK same")
NCASES += 1; case("commit-under-condition", P, [(RM, RM.replace("        self.dbConn.commit()", "        if cursor.rowcount:\n            self.dbConn.commit()"))], "UNREC")
NCASES += 1; case("write-under-and", P, [(RM, '''        cursor = self.dbConn.cursor()
        preKeyId and cursor.execute("DELETE FROM prekeys WHERE prekey_id = ?", (preKeyId,))
        self.dbConn.commit()''')], "UNREC")
NCASES += 1; case("write-in-ifexp", P, [(RM, '''        cursor = self.dbConn.cursor()
        x = cursor.execute("DELETE FROM prekeys WHERE prekey_id = ?", (preKeyId,)) if preKeyId else None
        self.dbConn.commit()''')], "UNREC")
NCASES += 1; case("write-in-comprehension", P, [('''        for prekeyId in prekeyIds:
            q = "UPDATE prekeys SET sent_to_server = ? WHERE prekey_id = ?"
            cursor = self.dbConn.cursor()
            cursor.execute(q, (1, prekeyId))
''','''        q = "UPDATE prekeys SET sent_to_server = ? WHERE prekey_id = ?"
        [self.dbConn.cursor().execute(q, (1, i)) for i in prekeyIds]
''')], "UNREC")
NCASES += 1; case("loop-two-writes", P, [('''            cursor.execute(q, (1, prekeyId))
''','''            cursor.execute(q, (1, prekeyId))
            cursor.execute(q, (1, prekeyId))
''')], "UNREC")
NCASES += 1; case("loop-commit-inside", P, [('''            cursor.execute(q, (1, prekeyId))
        self.dbConn.commit()''','''            cursor.execute(q, (1, prekeyId))
            self.dbConn.commit()''')], "UNREC")
NCASES += 1; case("loop-write-in-helper", P, [('''            q = "UPDATE prekeys SET sent_to_server = ? WHERE prekey_id = ?"
            cursor = self.dbConn.cursor()
            cursor.execute(q, (1, prekeyId))
''','''            self._flag(self.dbConn.cursor(), prekeyId)
'''),("    def loadPendingPreKeys(self):", '''    def _flag(self, cursor, prekeyId, sent=1):
        cursor.execute("UPDATE prekeys SET sent_to_server = ? WHERE prekey_id = ?", (sent, prekeyId))

    def loadPendingPreKeys(self):''')], "OK same")
NCASES += 1; case("with-conn", P, [(RM, '''        with self.dbConn:
            self.dbConn.execute("DELETE FROM prekeys WHERE prekey_id = ?", (preKeyId,))''')], "UNREC")
NCASES += 1; case("conn-execute-direct", P, [(RM, '''        self.dbConn.execute("DELETE FROM prekeys WHERE prekey_id = ?", (preKeyId,))
        self.dbConn.commit()''')], "OK same")
NCASES += 1; case("params-list-var", P, [(RM, '''        params = [preKeyId]
        self.dbConn.execute("DELETE FROM prekeys WHERE prekey_id = ?", params)
        self.dbConn.commit()''')], "OK same")
NCASES += 1; case("reassign-conn", P, [(RM, "        self.dbConn = other\n"+RM)], "UNREC")
NCASES += 1; case("unknown-sql", P, [(RM, RM.replace("DELETE FROM prekeys WHERE prekey_id = ?", "DELETE FROM prekeys WHERE prekey_id <= ?"))], "UNREC")
NCASES += 1; case("public-returns-cursor", P, [("    def loadMaxPreKeyId(self):", '''    def rawCursor(self):
        return self.dbConn.cursor()

    def loadMaxPreKeyId(self):''')], "UNREC")
NCASES += 1; case("private-dead-bad-helper", P, [("    def loadMaxPreKeyId(self):", '''    def _wipe(self):
        self.dbConn.executescript("DELETE FROM prekeys;")

    def loadMaxPreKeyId(self):''')], "OK same")
I="liteidentitykeystore.py"
G='''        if self.getLocalRegistrationId() is None or self.getIdentityKeyPair() is None:'''
NCASES += 1; case("guard-and", I, [(G, "        if self.getLocalRegistrationId() is None and self.getIdentityKeyPair() is None:")], "OK same")
NCASES += 1; case("guard-not-truthy", I, [(G, "        if not (self.getLocalRegistrationId() and self.getIdentityKeyPair()):")], "OK same")
NCASES += 1; case("guard-inverted", I, [(G, "        if self.getLocalRegistrationId() is not None:")], "UNREC")
NCASES += 1; case("guard-always", I, [(G, "        if self.getLocalRegistrationId() is None or True:")], "UNREC")
NCASES += 1; case("guard-other-row", I, [(G, "        if self.isTrustedIdentity(1, None):")], "UNREC")
NCASES += 1; case("guard-writes", I, [(G, "        if self.saveIdentity(1, None) is None:")], "UNREC")
NCASES += 1; case("init-extra-commit", I, [("            self._storeLocalData(registration_id, identity)", "            self._storeLocalData(registration_id, identity)\n            self.dbConn.commit()")], "OK different")
NCASES += 1; case("init-unconditional-write", I, [(G, "        self.dbConn.commit()\n"+G)], "UNREC")
NCASES += 1; case("dynamic-sql-augassign2", P, [(RM, '''        q = "DELETE FROM prekeys WHERE prekey_id = ?"
        q += " AND sent_to_server = 1"
        cursor = self.dbConn.cursor()
        cursor.execute(q, (preKeyId,))
        self.dbConn.commit()''')], "UNREC")
NCASES += 1; case("tuple-unpack-mismatch", P, [(RM, '''        q, p = "DELETE FROM prekeys WHERE prekey_id = ?", (preKeyId,)
        cursor = self.dbConn.cursor()
        cursor.execute(q, p)
        self.dbConn.commit()''')], "OK same")
NCASES += 1; case("sql-rebound-in-pure-loop", P, [(RM, '''        q = "DELETE FROM prekeys WHERE prekey_id = ?"
        for x in (1, 2):
            q = "DELETE FROM prekeys WHERE prekey_id = ? AND sent_to_server = 1"
        cursor = self.dbConn.cursor()
        cursor.execute(q, (preKeyId,))
        self.dbConn.commit()''')], "UNREC")
NCASES += 1; case("sql-rebound-in-if", P, [(RM, '''        q = "DELETE FROM prekeys WHERE prekey_id = ?"
        if preKeyId > 5:
            q = "DELETE FROM prekeys WHERE prekey_id = ? AND sent_to_server = 1"
        cursor = self.dbConn.cursor()
        cursor.execute(q, (preKeyId,))
        self.dbConn.commit()''')], "UNREC")

shutil.rmtree(TMP, ignore_errors=True)
print("%d cases, %d failed" % (NCASES, len(FAILED)))
sys.exit(1 if FAILED else 0)
