"""C13 translator unit cases: small edits of the store sources and what harness/translators/c13_store.py must say
about them (Unrecognised / translated with identical programs / translated with different programs).  Not part of
`./check`; run by hand after touching the translator:

    cd /verif && YV_REPO=/repo /venv/bin/python -m harness.c13_translator_cases

Works on copies of $YV_REPO/yowsup in a temporary directory; exit status 1 if a case fails.  The `case` entries exercise the
syntactic interpreter alone (tr.translate), the `mcase` entries both extractions and the decision between them (tr.extract).
"""
import sys, os, shutil, tempfile, json
from .translators import c13_store as tr

S = "yowsup/axolotl/store/sqlite"
REPO = tr.REPO
TMP = tempfile.mkdtemp(prefix="c13-cases-")
FAILED = []


def _progs(meta):
    d = {(m["class"], m["name"]): m["prog"] for m in meta["methods"] if m["public"]}
    d["init"] = (meta["init"]["prog"], meta["init"]["guard_table"], meta["init"]["guard_key"])
    return d


def case(name, f, pairs, expect):
    d = os.path.join(TMP, name)
    os.makedirs(os.path.join(d, S))
    for x in os.listdir(os.path.join(REPO, S)):
        if x.endswith(".py"):
            shutil.copy(os.path.join(REPO, S, x), os.path.join(d, S))
    p = os.path.join(d, S, f)
    s = open(p).read()
    for a, b in pairs:
        assert a in s, (name, a)
        s = s.replace(a, b)
    open(p, "w").write(s)
    try:
        _, meta = tr.translate(d)
        _, base = tr.translate(REPO)
        got = "OK same" if _progs(meta) == _progs(base) else "OK different"
    except tr.Unrecognised as e:
        got = "UNREC: " + str(e)
    ok = got.startswith(expect)
    if not ok:
        FAILED.append(name)
    print("%-30s %s -> %s" % (name, "pass" if ok else "**** FAIL (expected %s)" % expect, got[:170]))

NCASES = 0
RM = ('''        q = "DELETE FROM prekeys WHERE prekey_id = ?"
        cursor = self.dbConn.cursor()
        cursor.execute(q, (preKeyId,))
        self.dbConn.commit()''')
P="liteprekeystore.py"
NCASES += 1; case("dynamic-sql-format", P, [(RM, '''        q = "DELETE FROM %s WHERE prekey_id = ?" % "prekeys"
        cursor = self.dbConn.cursor()
        cursor.execute(q, (preKeyId,))
        self.dbConn.commit()''')], "UNREC")
NCASES += 1; case("dynamic-sql-concat", P, [(RM, '''        q = "DELETE FROM prekeys"
        q += " WHERE prekey_id = ?"
        cursor = self.dbConn.cursor()
        cursor.execute(q, (preKeyId,))
        self.dbConn.commit()''')], "UNREC")
NCASES += 1; case("executemany", P, [('''        for prekeyId in prekeyIds:
            q = "UPDATE prekeys SET sent_to_server = ? WHERE prekey_id = ?"
            cursor = self.dbConn.cursor()
            cursor.execute(q, (1, prekeyId))
''','''        q = "UPDATE prekeys SET sent_to_server = ? WHERE prekey_id = ?"
        self.dbConn.cursor().executemany(q, [(1, i) for i in prekeyIds])
''')], "UNREC")
NCASES += 1; case("executescript", P, [(RM, '''        self.dbConn.executescript("DELETE FROM prekeys WHERE prekey_id = %d; COMMIT;" % preKeyId)''')], "UNREC")
NCASES += 1; case("rollback", P, [(RM, RM+"\n        self.dbConn.rollback()")], "UNREC")
NCASES += 1; case("conn-to-function", P, [(RM, '''        _remove(self.dbConn, preKeyId)''')], "UNREC")
NCASES += 1; case("cursor-to-function", P, [(RM, '''        _remove(self.dbConn.cursor(), preKeyId)
        self.dbConn.commit()''')], "UNREC")
NCASES += 1; case("self-to-function", P, [(RM, '''        _remove(self, preKeyId)''')], "UNREC")
NCASES += 1; case("helper-on-noncursor", P, [(RM, '''        self._rm(preKeyId, preKeyId)
        self.dbConn.commit()

    def _rm(self, cursor, preKeyId):
        cursor.execute("DELETE FROM prekeys WHERE prekey_id = ?", (preKeyId,))''')], "UNREC")
NCASES += 1; case("recursive-helper", P, [(RM, '''        self._rm(preKeyId)
        self.dbConn.commit()

    def _rm(self, preKeyId):
        self.dbConn.cursor().execute("DELETE FROM prekeys WHERE prekey_id = ?", (preKeyId,))
        self._rm(preKeyId)''')], "UNREC")
NCASES += 1; case("decorated-public", P, [("    def removePreKey(self, preKeyId):", "    @synchronized\n    def removePreKey(self, preKeyId):")], "UNREC")
NCASES += 1; case("decorated-private-called", P, [(RM, '''        self._rm(preKeyId)
        self.dbConn.commit()

    @synchronized
    def _rm(self, preKeyId):
        self.dbConn.cursor().execute("DELETE FROM prekeys WHERE prekey_id = ?", (preKeyId,))''')], "UNREC")
NCASES += 1; case("decorated-private-unused", P, [(RM, RM + '''

    @synchronized
    def _rm(self, preKeyId):
        self.dbConn.cursor().execute("DELETE FROM prekeys WHERE prekey_id = ?", (preKeyId,))''')], "OK same")
NCASES += 1; case("early-exit-before-write", P, [(RM, "        if preKeyId is None:\n            return\n"+RM)], "UNREC")
NCASES += 1; case("raise-in-helper-before-write", P, [(RM, '''        self._check(preKeyId)
'''+RM+'''

    def _check(self, preKeyId):
        if preKeyId < 0:
            raise ValueError(preKeyId)''')], "UNREC")
NCASES += 1; case("helper-early-return-reads", P, [(RM, '''        known = self._known(preKeyId)
'''+RM+'''

    def _known(self, preKeyId):
        if preKeyId is None:
            return False
        return self.containsPreKey(preKeyId)''')], "OK same")
NCASES += 1; case("exit-after-last-commit", P, [(RM, RM+"\n        if preKeyId > 100:\n            raise ValueError()")], "OK same")
NCASES += 1; case("commit-under-condition", P, [(RM, RM.replace("        self.dbConn.commit()", "        if cursor.rowcount:\n            self.dbConn.commit()"))], "UNREC")
NCASES += 1; case("write-under-and", P, [(RM, '''        cursor = self.dbConn.cursor()
        preKeyId and cursor.execute("DELETE FROM prekeys WHERE prekey_id = ?", (preKeyId,))
        self.dbConn.commit()''')], "UNREC")
NCASES += 1; case("write-in-ifexp", P, [(RM, '''        cursor = self.dbConn.cursor()
        x = cursor.execute("DELETE FROM prekeys WHERE prekey_id = ?", (preKeyId,)) if preKeyId else None
        self.dbConn.commit()''')], "UNREC")
NCASES += 1; case("write-in-comprehension", P, [('''        for prekeyId in prekeyIds:
            q = "UPDATE prekeys SET sent_to_server = ? WHERE prekey_id = ?"
            cursor = self.dbConn.cursor()
            cursor.execute(q, (1, prekeyId))
''','''        q = "UPDATE prekeys SET sent_to_server = ? WHERE prekey_id = ?"
        [self.dbConn.cursor().execute(q, (1, i)) for i in prekeyIds]
''')], "UNREC")
NCASES += 1; case("loop-two-writes", P, [('''            cursor.execute(q, (1, prekeyId))
''','''            cursor.execute(q, (1, prekeyId))
            cursor.execute(q, (1, prekeyId))
''')], "UNREC")
NCASES += 1; case("loop-commit-inside", P, [('''            cursor.execute(q, (1, prekeyId))
        self.dbConn.commit()''','''            cursor.execute(q, (1, prekeyId))
            self.dbConn.commit()''')], "UNREC")
NCASES += 1; case("loop-write-in-helper", P, [('''            q = "UPDATE prekeys SET sent_to_server = ? WHERE prekey_id = ?"
            cursor = self.dbConn.cursor()
            cursor.execute(q, (1, prekeyId))
''','''            self._flag(self.dbConn.cursor(), prekeyId)
'''),("    def loadPendingPreKeys(self):", '''    def _flag(self, cursor, prekeyId, sent=1):
        cursor.execute("UPDATE prekeys SET sent_to_server = ? WHERE prekey_id = ?", (sent, prekeyId))

    def loadPendingPreKeys(self):''')], "OK same")
NCASES += 1; case("with-conn", P, [(RM, '''        with self.dbConn:
            self.dbConn.execute("DELETE FROM prekeys WHERE prekey_id = ?", (preKeyId,))''')], "UNREC")
NCASES += 1; case("conn-execute-direct", P, [(RM, '''        self.dbConn.execute("DELETE FROM prekeys WHERE prekey_id = ?", (preKeyId,))
        self.dbConn.commit()''')], "OK same")
NCASES += 1; case("params-list-var", P, [(RM, '''        params = [preKeyId]
        self.dbConn.execute("DELETE FROM prekeys WHERE prekey_id = ?", params)
        self.dbConn.commit()''')], "OK same")
NCASES += 1; case("reassign-conn", P, [(RM, "        self.dbConn = other\n"+RM)], "UNREC")
NCASES += 1; case("unknown-sql", P, [(RM, RM.replace("DELETE FROM prekeys WHERE prekey_id = ?", "DELETE FROM prekeys WHERE prekey_id <= ?"))], "UNREC")
NCASES += 1; case("public-returns-cursor", P, [("    def loadMaxPreKeyId(self):", '''    def rawCursor(self):
        return self.dbConn.cursor()

    def loadMaxPreKeyId(self):''')], "UNREC")
NCASES += 1; case("private-dead-bad-helper", P, [("    def loadMaxPreKeyId(self):", '''    def _wipe(self):
        self.dbConn.executescript("DELETE FROM prekeys;")

    def loadMaxPreKeyId(self):''')], "OK same")
I="liteidentitykeystore.py"
G='''        if self.getLocalRegistrationId() is None or self.getIdentityKeyPair() is None:'''
NCASES += 1; case("guard-and", I, [(G, "        if self.getLocalRegistrationId() is None and self.getIdentityKeyPair() is None:")], "OK same")
NCASES += 1; case("guard-not-truthy", I, [(G, "        if not (self.getLocalRegistrationId() and self.getIdentityKeyPair()):")], "OK same")
NCASES += 1; case("guard-inverted", I, [(G, "        if self.getLocalRegistrationId() is not None:")], "UNREC")
NCASES += 1; case("guard-always", I, [(G, "        if self.getLocalRegistrationId() is None or True:")], "UNREC")
NCASES += 1; case("guard-other-row", I, [(G, "        if self.isTrustedIdentity(1, None):")], "UNREC")
NCASES += 1; case("guard-writes", I, [(G, "        if self.saveIdentity(1, None) is None:")], "UNREC")
NCASES += 1; case("init-extra-commit", I, [("            self._storeLocalData(registration_id, identity)", "            self._storeLocalData(registration_id, identity)\n            self.dbConn.commit()")], "OK different")
NCASES += 1; case("init-unconditional-write", I, [(G, "        self.dbConn.commit()\n"+G)], "UNREC")
NCASES += 1; case("dynamic-sql-augassign2", P, [(RM, '''        q = "DELETE FROM prekeys WHERE prekey_id = ?"
        q += " AND sent_to_server = 1"
        cursor = self.dbConn.cursor()
        cursor.execute(q, (preKeyId,))
        self.dbConn.commit()''')], "UNREC")
NCASES += 1; case("tuple-unpack-mismatch", P, [(RM, '''        q, p = "DELETE FROM prekeys WHERE prekey_id = ?", (preKeyId,)
        cursor = self.dbConn.cursor()
        cursor.execute(q, p)
        self.dbConn.commit()''')], "OK same")
NCASES += 1; case("sql-rebound-in-pure-loop", P, [(RM, '''        q = "DELETE FROM prekeys WHERE prekey_id = ?"
        for x in (1, 2):
            q = "DELETE FROM prekeys WHERE prekey_id = ? AND sent_to_server = 1"
        cursor = self.dbConn.cursor()
        cursor.execute(q, (preKeyId,))
        self.dbConn.commit()''')], "UNREC")
NCASES += 1; case("sql-rebound-in-if", P, [(RM, '''        q = "DELETE FROM prekeys WHERE prekey_id = ?"
        if preKeyId > 5:
            q = "DELETE FROM prekeys WHERE prekey_id = ? AND sent_to_server = 1"
        cursor = self.dbConn.cursor()
        cursor.execute(q, (preKeyId,))
        self.dbConn.commit()''')], "UNREC")


# ---------------------------------------------------------------- both extractions (tr.extract): needs an importable tree
def mcase(name, edits, expect):
    """expect: prefix of '<path> | same' / '<path> | different' / 'none'"""
    global NCASES
    NCASES += 1
    d = os.path.join(TMP, "m-" + name)
    shutil.copytree(os.path.join(REPO, "yowsup"), os.path.join(d, "yowsup"))
    for f, pairs in edits.items():
        p = os.path.join(d, S, f)
        s = open(p).read()
        for a, b in pairs:
            assert a in s, (name, a)
            s = s.replace(a, b)
        open(p, "w").write(s)
    detail = ""
    try:
        _, meta = tr.extract(d, TMP)
        _, base = tr.translate(REPO)
        cp = lambda m: {k: (tr._canon_prog(v) if k != "init" else (tr._canon_prog(v[0]), v[1], v[2])) for k, v in _progs(m).items()}
        path = meta["extraction"]["path"]
        got = "%s | %s" % (path.split(" (")[0] + (" (agree)" if "(agree)" in path else " (DISAGREE)" if "DISAGREE" in path else ""),
                           "same" if cp(meta) == cp(base) else "different")
        if meta["extraction"]["disagreements"]:
            detail = json.dumps(meta["extraction"]["disagreements"][:1])[:200]
    except tr.Unrecognised as e:
        got, detail = "none", str(e)[max(0, str(e).find("measured")):][:230]
    ok = got.startswith(expect)
    if not ok:
        FAILED.append(name)
    print("%-30s %s -> %s  %s" % (name, "pass" if ok else "**** FAIL (expected %s)" % expect, got, detail))


LOOP = '''        for prekeyId in prekeyIds:
            q = "UPDATE prekeys SET sent_to_server = ? WHERE prekey_id = ?"
            cursor = self.dbConn.cursor()
            cursor.execute(q, (1, prekeyId))
'''
mcase("m-unchanged", {}, "syntactic+measured (agree) | same")
mcase("m-with-conn", {P: [(RM, '''        with self.dbConn:
            self.dbConn.execute("DELETE FROM prekeys WHERE prekey_id = ?", (preKeyId,))''')]}, "measured only | same")
mcase("m-conditional-delete", {P: [(RM, '''        if self.containsPreKey(preKeyId):
            self.dbConn.execute("DELETE FROM prekeys WHERE prekey_id = ?", (preKeyId,))
            self.dbConn.commit()''')]}, "none")
mcase("m-executemany", {P: [(LOOP, '''        q = "UPDATE prekeys SET sent_to_server = ? WHERE prekey_id = ?"
        self.dbConn.cursor().executemany(q, [(1, i) for i in prekeyIds])
''')]}, "none")
mcase("m-module-function", {P: [(RM, "        _remove(self.dbConn, preKeyId)"),
                                ("class LitePreKeyStore(PreKeyStore):", '''def _remove(conn, preKeyId):
    conn.cursor().execute("DELETE FROM prekeys WHERE prekey_id = ?", (preKeyId,))
    conn.commit()


class LitePreKeyStore(PreKeyStore):''')]}, "measured only | same")
mcase("m-raw-cursor", {P: [(RM, '''        import sqlite3
        sqlite3.Cursor(self.dbConn).execute("DELETE FROM prekeys WHERE prekey_id = ?", (7,))
        self.dbConn.commit()''')]}, "none")
mcase("m-argument-converted", {P: [(RM, RM.replace("(preKeyId,)", "(str(preKeyId),)"))]}, "none")
mcase("m-sql-from-constant", {P: [(RM, RM.replace('"DELETE FROM prekeys WHERE prekey_id = ?"',
                                                  '"DELETE FROM %s WHERE prekey_id = ?" % "prekeys"'))]}, "measured only | same")
mcase("m-sql-from-argument", {P: [(RM, RM.replace('"DELETE FROM prekeys WHERE prekey_id = ?"',
                                                  '"DELETE FROM prekeys WHERE prekey_id = %s" % preKeyId').replace("(preKeyId,)", "()"))]}, "none")
mcase("m-logging-decorator", {P: [("    def removePreKey(self, preKeyId):", "    @_logged\n    def removePreKey(self, preKeyId):"),
                                  ("class LitePreKeyStore(PreKeyStore):", '''import functools


def _logged(f):
    @functools.wraps(f)
    def g(*a, **k):
        return f(*a, **k)
    return g


class LitePreKeyStore(PreKeyStore):''')]}, "measured only | same")
mcase("m-patched-after-class", {"liteaxolotlstore.py": [
    ("import sqlite3\n", "import sqlite3\nLitePreKeyStore.removePreKey = lambda self, preKeyId: None\n")]}, "syntactic+measured (DISAGREE)")
mcase("m-commit-as-sql", {P: [(RM, RM.replace("self.dbConn.commit()", 'self.dbConn.execute("COMMIT")'))]}, "measured only | same")
mcase("m-loop-commit-inside", {P: [('''            cursor.execute(q, (1, prekeyId))
        self.dbConn.commit()''', '''            cursor.execute(q, (1, prekeyId))
            self._done()

    def _done(self):
        with self.dbConn:
            pass''')]}, "none")
mcase("m-init-timestamp", {I: [('''        c.execute(q, (registrationId,
                      pubKey,
                      privKey))''', '''        import time
        c.execute(q, (registrationId,
                      pubKey,
                      privKey))
        c.execute("UPDATE identities SET timestamp = ? WHERE recipient_id = -1", (time.time_ns(),))''')]},
      "syntactic+measured (DISAGREE)")
mcase("m-handler-fallback", {"litesignedprekeystore.py": [('''        cursor.execute(q, (signedPreKeyId, buffer(record) if sys.version_info < (2,7) else record))
        self.dbConn.commit()''', '''        try:
            with self.dbConn:
                cursor.execute(q, (signedPreKeyId, record))
        except Exception:
            with self.dbConn:
                cursor.execute("UPDATE signed_prekeys SET record = ? WHERE prekey_id = ?", (record, signedPreKeyId))''')]}, "none")

mcase("m-write-skipping-cache", {P: [("        self.dbConn = dbConn\n", "        self.dbConn = dbConn\n        self._gone = set()\n"),
                                     (RM, "        if preKeyId in self._gone:\n            return\n" + RM + "\n        self._gone.add(preKeyId)")]}, "none")
mcase("m-write-only-flag", {P: [(RM, RM + "\n        self._lastRemoved = preKeyId")]}, "syntactic+measured (agree) | same")

# state outside the database: counters / thresholds, helpers, kept handles
mcase("m-threshold-counter", {P: [("        self.dbConn = dbConn\n", "        self.dbConn = dbConn\n        self._n = 0\n"),
                                  (RM, RM + "\n        self._bump()\n\n    def _bump(self):\n        self._n += 1\n"
                                            "        if self._n >= 50:\n            self.dbConn.execute(\"VACUUM\")\n            self._n = 0")]}, "none")
mcase("m-kept-cursor", {P: [("        self.dbConn = dbConn\n", "        self.dbConn = dbConn\n        self._cur = dbConn.cursor()\n"),
                            (RM, RM.replace("cursor = self.dbConn.cursor()", "cursor = self._cur"))]}, "measured only | same")
mcase("m-init-only-config", {P: [("        self.dbConn = dbConn\n", "        self.dbConn = dbConn\n        self._table = \"prekeys\"\n"),
                                 (RM, RM + "\n        assert self._table")]}, "syntactic+measured (agree) | same")

# objects between the stores and sqlite
F = "liteaxolotlstore.py"
mcase("m-connection-wrapper", {F: [("        conn.text_factory = bytes\n", "        conn.text_factory = bytes\n        conn = _Lazy(conn)\n"),
                                   ("class LiteAxolotlStore(AxolotlStore):", "class _Lazy(object):\n    def __init__(self, c):\n        self._c = c\n\n"
                                    "    def __getattr__(self, n):\n        return getattr(self._c, n)\n\n    def commit(self):\n        pass\n\n\n"
                                    "class LiteAxolotlStore(AxolotlStore):")]}, "none")
mcase("m-monkeypatched-commit", {P: [("        self.dbConn = dbConn\n", "        self.dbConn = dbConn\n        self._commit = dbConn.commit\n")],
                                 I: [("        self.dbConn = dbConn\n", "        self.dbConn = dbConn\n        dbConn.isolation_level = None\n")]}, "none")

shutil.rmtree(TMP, ignore_errors=True)
print("%d cases, %d failed" % (NCASES, len(FAILED)))
sys.exit(1 if FAILED else 0)
