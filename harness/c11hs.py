"""C11 helper: senders racing the Noise handshake.

Real YowNoiseSegmentsLayer + YowNoiseLayer + YowCoderLayer between a recording top and the Noise responder
of harness/c04_noise.py (the layer wiring is harness/c04_rig.Rig; nothing of it is edited).  The
handshake is NOT finished when the scenario starts: an environment thread broadcasts EVENT_AUTH (the noise layer
writes the prologue and starts its real WANoiseProtocolHandshakeWorker thread, which is adopted by the scheduler)
and later delivers the responder's server hello; application threads send stanzas through top.send / coder.send
before, while and after the handshake completes.

Deterministic baton scheduler: only the thread that was granted the baton runs.  Yield points (all on INSTANCE
attributes of the objects under test):
  acq/rel   the `lock` of top, coder, noise, segments (YowLayer.toLower) and the noise layer's _flush_lock
  nsend     entry of WANoiseProtocol.send (the noise layer's send path); annotated ok / raise afterwards
  put/get   the segmented stream's write queue
  write     the bottom of the segments layer (bytes reach the responder = the wire)
  flip      just before the protocol machine's `finish` trigger (handshake -> transport)
  flipped   inside `finish`, after the state was assigned and before consonance looks whether the protocol-state
            callback still has to run (so another thread can pass WANoiseProtocol.send in that window)
  cb        entry of the protocol-state callback (YowNoiseLayer._on_protocol_state_changed)
  rdstate   just AFTER a read of WANoiseProtocol.state from outside consonance (so a thread switch can fall
            between the read and whatever the reader does with the value)
  iput/iget the noise layer's incoming segment queue (the handshake thread waits there for the server hello)
  auth / deliver  the environment thread's own steps
A thread whose next event is an acquire of a taken lock, a get on an empty queue or a `deliver` before the
responder produced its hello is not runnable.
"""
import os
import struct
import sys
import threading

from . import c04_noise as NZ

BACKSTOP = 20.0

# model node of each layer's lock in coq/C11/C11HsModel.v
LOCKNODE_H = {"segments": 1, "noise": 2, "coder": 5, "top": 6}
ENTRY_H = {5: "coder", 6: "top"}
EVH = {"acq": 1, "rel": 2, "put": 3, "get": 4, "write": 5, "flip": 6, "nsend": 7}
# events that are scheduling points of the real threads but no steps of the model
SYNC_KINDS = ("sacq", "srel", "stry", "eset", "eclear", "ewait", "ewait-timed", "macq", "mtry", "mrel", "cwait",
              "cwait-timed", "cnotify")
INVISIBLE = ("rdstate", "cb", "iput", "iget", "auth", "deliver", "start", "flipped", "mklock", "line") + SYNC_KINDS


# ---------------------------------------------------------------- lock CREATION is instrumented, not lock attributes
# The harness never assigns a layer's `lock`: it rebinds `threading.Lock` as seen by the yowsup modules that
# create locks (yowsup.layers -> YowLayer.lock, yowsup.layers.noise.layer -> _flush_lock,
# yowsup.layers.protocol_iq.layer -> _pingQueueLock) to a factory returning an instrumented lock.  A lock being
# created is an event of its own (`mklock`, a scheduling point INSIDE the factory, i.e. before the caller can store
# the new lock anywhere): on the unchanged code every lock is created while the stack is built, single-threaded;
# a layer that creates its lock lazily inside toLower gets a scheduling point between its "no lock yet" test and the
# assignment.
_real_threading = threading
_RealLock = threading.Lock
CURRENT = [None]          # the LockCtl of the bench being built / run in this process


class CLock(object):
    """Instrumented lock (acquire/release, `with`, locked).  Which layer it belongs to is found out, not told."""
    _count = [0]

    def __init__(self, ctl, owner, site):
        self.ctl, self.owner, self.site = ctl, owner, site
        self.real = _RealLock()
        CLock._count[0] += 1
        self.uid = CLock._count[0]
        self._name = None

    def acquire(self, blocking=True, timeout=-1):
        c = self.ctl
        if blocking and timeout == -1:
            if c is not None:
                c.before(self, "acq")
            return self.real.acquire()
        # try-lock (acquire(False) / acquire(blocking=False)) or timed acquire: an operation of its own with a
        # scheduling point BEFORE the attempt; always runnable; its result (got | busy) is fixed at the moment the
        # scheduler grants it (nobody else runs until the next yield, so a timed wait cannot change the outcome
        # either).  The model has no try-lock: `got` replays as an acquire, `busy` is an operation it does not know.
        if c is not None:
            c.before(self, "try")
        return self.real.acquire(False)

    def release(self):
        c = self.ctl
        if c is not None:
            c.before(self, "rel")
        self.real.release()

    def locked(self):
        return self.real.locked()

    def __enter__(self):
        self.acquire()
        return self

    def __exit__(self, *a):
        self.release()


def _site(depth=2):
    f = sys._getframe(depth)
    fn = f.f_code.co_filename.replace(os.sep, "/")
    return f.f_locals.get("self"), ("/".join(fn.split("/")[-2:]), f.f_code.co_name)


def make_lock():
    ctl = CURRENT[0]
    owner, site = _site()
    lk = CLock(ctl, owner, site)
    if ctl is not None:
        ctl.created(lk)
    return lk


# ---- the other primitives yowsup code may build a lock from (round 5).  Every blocking operation is a scheduling
# point the baton scheduler controls (the thread is not runnable until the matching release / set / notify), every
# non-blocking one a yield point.  None of them is a step of the model (trace kinds s*/e*/c*/m*: scheduling only).
class _Prim(object):
    def __init__(self, ctl, owner, site):
        self.ctl, self.owner, self.site = ctl, owner, site
        CLock._count[0] += 1
        self.uid = CLock._count[0]

    def label(self):
        return "%s@%s" % (self.__class__.__name__[1:], type(self.owner).__name__ if self.owner is not None else "?")

    def _sync(self, kind, pred=None):
        c = self.ctl
        if c is not None:
            c.sync(self, kind, pred)


class CRLock(_Prim):
    def __init__(self, ctl, owner, site):
        _Prim.__init__(self, ctl, owner, site)
        self.real = _real_threading.RLock()
        self._own, self._n = None, 0

    def acquire(self, blocking=True, timeout=-1):
        me = _real_threading.get_ident()
        if blocking and timeout == -1:
            self._sync("sacq", lambda: self._own in (None, me))
            r = self.real.acquire()
        else:
            self._sync("stry")
            r = self.real.acquire(False)
        if r:
            self._own, self._n = me, self._n + 1
        return r

    def release(self):
        self._sync("srel")
        self._n -= 1
        if self._n == 0:
            self._own = None
        self.real.release()

    def __enter__(self):
        self.acquire()
        return self

    def __exit__(self, *a):
        self.release()


class CEvent(_Prim):
    def __init__(self, ctl, owner, site):
        _Prim.__init__(self, ctl, owner, site)
        self.real = _real_threading.Event()

    def is_set(self):
        return self.real.is_set()

    isSet = is_set

    def set(self):
        self._sync("eset")
        self.real.set()

    def clear(self):
        self._sync("eclear")
        self.real.clear()

    def wait(self, timeout=None):
        if timeout is None:
            self._sync("ewait", self.real.is_set)       # flag clear = parked; set() makes the thread runnable
            return self.real.wait()
        self._sync("ewait-timed")                       # outcome fixed when granted
        return self.real.is_set()


class CSemaphore(_Prim):
    def __init__(self, ctl, owner, site, value=1, bounded=False):
        _Prim.__init__(self, ctl, owner, site)
        self.real = (_real_threading.BoundedSemaphore if bounded else _real_threading.Semaphore)(value)

    def acquire(self, blocking=True, timeout=None):
        if blocking and timeout is None:
            self._sync("macq", lambda: self.real._value > 0)
            return self.real.acquire()
        self._sync("mtry")
        return self.real.acquire(False)

    def release(self, n=1):
        self._sync("mrel")
        for _ in range(n):
            self.real.release()

    def __enter__(self):
        self.acquire()
        return self

    def __exit__(self, *a):
        self.release()


class CCondition(_Prim):
    """threading.Condition re-done on instrumented parts (a waiter = a private lock, as in the standard library)"""

    def __init__(self, ctl, owner, site, lock=None):
        _Prim.__init__(self, ctl, owner, site)
        self._lock = lock if lock is not None else CRLock(ctl, owner, site)
        self._waiters = []
        self.acquire, self.release = self._lock.acquire, self._lock.release

    def __enter__(self):
        return self._lock.__enter__()

    def __exit__(self, *a):
        return self._lock.__exit__(*a)

    def wait(self, timeout=None):
        w = [False, _RealLock()]
        w[1].acquire()
        self._waiters.append(w)
        self._lock.release()
        try:
            if timeout is None:
                self._sync("cwait", lambda: w[0])
                w[1].acquire()
                return True
            self._sync("cwait-timed")
            return w[0]
        finally:
            if w in self._waiters:
                self._waiters.remove(w)
            self._lock.acquire()

    def wait_for(self, predicate, timeout=None):
        r = predicate()
        while not r:
            self.wait(timeout)
            r = predicate()
            if timeout is not None:
                break
        return r

    def notify(self, n=1):
        self._sync("cnotify")
        for w in self._waiters[:n]:
            w[0] = True
            w[1].release()
        del self._waiters[:n]

    def notify_all(self):
        self.notify(len(self._waiters))

    notifyAll = notify_all


def _mk(cls, **fixed):
    def factory(*a, **k):
        owner, site = _site()
        k.update(fixed)
        return cls(CURRENT[0], owner, site, *a, **k)
    return factory


FACTORIES = {"Lock": make_lock, "RLock": _mk(CRLock), "Event": _mk(CEvent), "Condition": _mk(CCondition),
             "Semaphore": _mk(CSemaphore), "BoundedSemaphore": _mk(CSemaphore, bounded=True)}
_REAL = dict((n, getattr(threading, n)) for n in FACTORIES)


class _ThreadingProxy(object):
    """`threading` as seen by one yowsup module: everything real except the synchronisation primitives"""

    def __init__(self, real):
        self.__dict__["_real"] = real

    def __getattr__(self, name):
        if name in FACTORIES:
            return FACTORIES[name]
        return getattr(self.__dict__["_real"], name)


_installed = []


def install_lock_factory():
    """Rebinds, in every loaded yowsup module, the name `threading` (module) and the names Lock / RLock / Event /
    Condition / Semaphore / BoundedSemaphore imported from it.  Incremental and idempotent (modules imported later
    are picked up by the next call); returns the list of "module.name" bindings replaced so far."""
    import importlib
    for modname in ("yowsup.layers", "yowsup.layers.noise.layer", "yowsup.layers.protocol_iq.layer"):
        importlib.import_module(modname)
    for modname in sorted(m for m in list(sys.modules) if m == "yowsup" or m.startswith("yowsup.")):
        mod = sys.modules.get(modname)
        if mod is None:
            continue
        if getattr(mod, "threading", None) is _real_threading:
            mod.threading = _ThreadingProxy(_real_threading)
            _installed.append((modname, "threading"))
        for n, real in _REAL.items():
            if mod.__dict__.get(n) is real:
                setattr(mod, n, FACTORIES[n])
                _installed.append((modname, n))
    return _installed


# ---- a layer lock that is an object of a class written in Python (acquire / release implemented in a yowsup module):
# the class is instrumented (not the attribute): the moment acquire() RETURNS and the moment release() is CALLED are
# the acquire / release events of that layer's lock -- what the model knows; what happens inside the class is
# scheduling-only (its primitives come from the factories above, its source lines are line-level yield points in the
# escalated enumerations).
_tls = _real_threading.local()
CUSTOM_CLASSES = {}       # class -> list of code objects of its own methods


def _python_methods(cls):
    codes = []
    for klass in cls.__mro__:
        mod = getattr(klass, "__module__", "") or ""
        if not mod.startswith("yowsup"):
            continue
        for n, f in vars(klass).items():
            f = getattr(f, "_c11_orig", f)
            if hasattr(f, "__code__"):
                codes.append(f.__code__)
    return codes


def instrument_lock_class(cls):
    if cls in CUSTOM_CLASSES:
        return
    CUSTOM_CLASSES[cls] = _python_methods(cls)

    def wrap(name, kind):
        orig = getattr(cls, name, None)
        if orig is None or not hasattr(orig, "__code__"):
            return

        def wrapper(self, *a, **k):
            depth = getattr(_tls, "depth", 0)
            ctl = CURRENT[0]
            if kind == "rel" and depth == 0 and ctl is not None:
                ctl.boundary(self, "rel")
            _tls.depth = depth + 1
            try:
                r = orig(self, *a, **k)
            finally:
                _tls.depth = depth
            if kind == "acq" and depth == 0 and ctl is not None:
                ctl.boundary(self, "acq!" if r is not False else "xbusy")
            return r
        wrapper._c11_orig = orig
        wrapper.__name__ = name
        setattr(cls, name, wrapper)
    wrap("acquire", "acq")
    wrap("__enter__", "acq")
    wrap("release", "rel")
    wrap("__exit__", "rel")


class LockCtl(object):
    """Per bench: which layers exist, which locks are scheduling points, how an event reaches the scheduler."""
    sched = None

    def __init__(self, known):
        self.known = set(known)
        self.layers = {}          # short name -> layer object
        self.extra = []           # (object, attribute, short name) for locks that are not `layer.lock`
        self.fallback = []        # layers whose lock did not come out of the factory (assigned by the harness)
        self.custom = {}          # layer -> class of its lock when that is a Python class of yowsup's own
        self._handles = {}
        self.line_mode = False

    # --- naming
    def by_owner(self, lk):
        if lk.site[0].endswith("layers/__init__.py") and lk.site[1] in ("toLower", "__init__"):
            for name, layer in self.layers.items():
                if layer is lk.owner:
                    return name
        return None

    def resolve(self, lk):
        if lk._name is not None:
            return lk._name
        for name, layer in self.layers.items():
            if getattr(layer, "__dict__", {}).get("lock") is lk:
                lk._name = name
                return name
        for obj, attr, name in self.extra:
            if getattr(obj, "__dict__", {}).get(attr) is lk:
                lk._name = name
                return name
        return self.by_owner(lk)

    def adopt_layers(self, layers, extra=()):
        """called once the stack exists.  A layer without a lock yet is left alone (lazy creation will come through
        the factory).  A layer lock that is an object of a Python class with acquire/release (defined in a yowsup
        module) stays where it is: its CLASS is instrumented (`custom`).  Anything else that is not ours (the library
        stopped calling threading.Lock() where we can see it) gets an instrumented lock assigned, as before, and is
        listed (`fallback`)."""
        self.layers = dict(layers)
        self.extra = list(extra)
        for name, layer in self.layers.items():
            cur = getattr(layer, "lock", None)
            if name in self.known and cur is not None and not isinstance(cur, CLock):
                cls = type(cur)
                if (getattr(cls, "__module__", "") or "").startswith("yowsup") and \
                        hasattr(getattr(cls, "acquire", None), "__code__") and hasattr(cls, "release"):
                    instrument_lock_class(cls)
                    self.custom[name] = "%s.%s" % (cls.__module__, cls.__name__)
                    continue
                layer.lock = CLock(self, layer, ("layers/__init__.py", "__init__"))
                self.fallback.append(name)
        for obj, attr, name in self.extra:
            cur = getattr(obj, attr, None)
            if name in self.known and cur is not None and not isinstance(cur, CLock):
                setattr(obj, attr, CLock(self, obj, ("?", attr)))
                self.fallback.append(name)

    # --- events (emit is bench specific)
    def before(self, lk, kind):
        if self.sched is None:
            return
        name = self.resolve(lk)
        if name in self.known:
            self.emit(kind, name, lk)
        elif name is None:
            # a lock that is no layer's lock (e.g. the inner mutex of a hand-written lock class): scheduling only
            lab = "Lock@%s" % (type(lk.owner).__name__ if lk.owner is not None else "?")
            if kind == "acq":
                self.emit("sacq", lab, lk, lambda: not lk.real.locked())
            else:
                self.emit("s" + kind, lab, lk)

    def sync(self, prim, kind, pred):
        if self.sched is not None:
            self.emit(kind, prim.label(), prim, pred)

    def boundary(self, lockobj, kind):
        """acquire-return / release-call of a layer lock whose class is instrumented"""
        if self.sched is None:
            return
        for name, layer in self.layers.items():
            if name in self.known and getattr(layer, "__dict__", {}).get("lock") is lockobj:
                h = self._handles.setdefault(id(lockobj), _Handle(lockobj))
                self.emit(kind, name, h)
                return

    def created(self, lk):
        if self.sched is None:
            return
        name = self.by_owner(lk)
        if name in self.known:
            self.emit("mklock", name, lk)

    def line(self, lineno):
        if self.sched is not None and self.line_mode:
            self.emit("line", lineno, None)

    def emit(self, kind, name, lk, pred=None):
        raise NotImplementedError


class _Handle(object):
    def __init__(self, obj):
        self.obj = obj
        CLock._count[0] += 1
        self.uid = CLock._count[0]


def yowlayer_codes(helpers):
    """code objects that get line-level yields: YowLayer.toLower, and with `helpers` every function defined on
    YowLayer (yowsup/layers/__init__.py, qualname YowLayer.*) that toLower can reach by name (transitive closure
    over co_names; name-mangled private helpers like _YowLayer__sendLower included)"""
    import yowsup.layers as L
    funcs = dict((n, f) for n, f in vars(L.YowLayer).items()
                 if callable(f) and hasattr(f, "__code__") and
                 getattr(f.__code__, "co_qualname", "YowLayer." + n).startswith("YowLayer."))
    todo, seen = ["toLower"], []
    while todo:
        n = todo.pop()
        if n in seen or n not in funcs:
            continue
        seen.append(n)
        if helpers:
            todo.extend(x for x in funcs[n].__code__.co_names if x in funcs and x not in seen)
    codes = [funcs[n].__code__ for n in seen]
    if helpers:
        for cls_codes in CUSTOM_CLASSES.values():
            codes.extend(c for c in cls_codes if c not in codes)
    return codes


class LineMode(object):
    """Line-level preemption restricted to YowLayer.toLower (and, escalated, the YowLayer helpers it calls):
    sys.monitoring LINE events of those code objects only, each a scheduling point (no model step).  Makes
    check-then-act races inside toLower itself schedulable even when no lock / queue operation separates the steps."""

    def __init__(self, ctl, helpers=False):
        self.ctl = ctl
        self.helpers = helpers
        self.codes = []

    def __enter__(self):
        mon = sys.monitoring
        self.codes = yowlayer_codes(self.helpers)
        self.tool = mon.PROFILER_ID
        mon.use_tool_id(self.tool, "c11-line")
        ctl = self.ctl

        def cb(code, line):
            ctl.line(line)
        mon.register_callback(self.tool, mon.events.LINE, cb)
        for code in self.codes:
            mon.set_local_events(self.tool, code, mon.events.LINE)
        ctl.line_mode = True
        return self

    def __exit__(self, *a):
        mon = sys.monitoring
        self.ctl.line_mode = False
        for code in self.codes:
            mon.set_local_events(self.tool, code, 0)
        mon.register_callback(self.tool, mon.events.LINE, None)
        mon.free_tool_id(self.tool)


class HSched(object):
    """Baton scheduler with thread adoption.  `chooser(step, options, sched)` -> index into `options`;
    options[0] is the thread that ran last when it is still runnable (choosing another one is a preemption)."""

    def __init__(self, chooser):
        self.chooser = chooser
        self.pending = {}
        self.done = set()
        self.wake = threading.Semaphore(0)
        self.spawned = threading.Semaphore(0)
        self.sems = {}
        self.fresh = set()
        self.trace = []           # [tid, kind, obj, note]
        self.options = []
        self.choices = []
        self.preemptible = []
        self.owner = {}
        self.tids = {}
        self.names = {}
        self.errors = {}
        self.stuck = None
        self.last = None
        self.nthreads = 0
        self.threads = []
        self.on_spawn = None
        self.flag = {}            # tid -> True while the thread is inside a reply sent from the receive path
        self.draining = False
        self.lock_uids = {}       # site name -> set of distinct lock objects acquired under that name
        self.lock_created = 0     # locks created by scheduled threads during the run
        self.unknown_ops = 0      # operations the model does not know (busy try-locks)
        self.inside = {}          # layer -> threads between acquire-return and release-call of its lock
        self.mutex_violations = []

    def tid(self):
        return self.tids.get(threading.get_ident())

    def _signal(self, tid):
        if tid in self.fresh:
            self.fresh.discard(tid)
            self.spawned.release()
        else:
            self.wake.release()

    def yield_(self, kind, obj=None, pred=None, lock=None):
        tid = self.tid()
        if tid is None or self.draining:
            return None
        rec = [tid, kind, obj, None, bool(self.flag.get(tid))]
        self.pending[tid] = (rec, pred, lock)
        self._signal(tid)
        self.sems[tid].acquire()
        return rec

    def drain(self):
        """after a run that ended stuck: let every parked thread go (unscheduled) so that none stays parked while
        holding a lock the harness does not own; the bench is thrown away afterwards"""
        self.draining = True
        for sem in self.sems.values():
            for _ in range(4):
                sem.release()
        for _ in range(4):
            self.spawned.release()
        for t in self.threads:
            t.join(0.5)

    def _body(self, tid, fn):
        self.tids[threading.get_ident()] = tid
        try:
            fn()
        except BaseException as e:          # reported, never swallowed
            self.errors[tid] = "%s: %s" % (e.__class__.__name__, e)
        self.done.add(tid)
        self._signal(tid)

    def new_thread(self, fn, name):
        tid = self.nthreads
        self.nthreads += 1
        self.sems[tid] = threading.Semaphore(0)
        self.names[tid] = name
        t = threading.Thread(target=self._body, args=(tid, fn))
        t.daemon = True
        self.threads.append(t)
        return tid, t

    def adopt(self, th):
        """called (by the running thread) instead of th.start(): th becomes a scheduled thread; it runs up to its
        first yield point before the spawning thread continues."""
        tid = self.nthreads
        self.nthreads += 1
        self.sems[tid] = threading.Semaphore(0)
        self.names[tid] = th.__class__.__name__
        self.fresh.add(tid)
        orig_run = th.run
        th.run = lambda: self._body(tid, orig_run)
        if self.on_spawn:
            self.on_spawn(tid, th)
        return tid

    def enabled(self, item):
        pred = item[1]
        if pred is not None:
            return bool(pred())
        return True

    def run(self, fns):
        """fns: list of (callable, name).  Threads are started one at a time, each runs to its first yield."""
        orig_start = threading.Thread.start
        me = self

        def patched_start(th):
            if me.tid() is None:
                return orig_start(th)
            tid = me.adopt(th)
            orig_start(th)
            if not me.spawned.acquire(timeout=BACKSTOP):
                me.stuck = "spawned thread %d did not reach a yield point" % tid
        started = []
        for fn, name in fns:
            started.append(self.new_thread(fn, name))
        threading.Thread.start = patched_start
        try:
            for tid, t in started:
                orig_start(t)
                if not self.wake.acquire(timeout=BACKSTOP):
                    self.stuck = "thread %d neither reached a yield point nor finished within %.0f s" % (tid, BACKSTOP)
                    return
            while True:
                if self.stuck:
                    return
                if len(self.done) == self.nthreads:
                    return
                runnable = sorted(t for t, it in self.pending.items() if self.enabled(it))
                if not runnable:
                    self.stuck = "deadlock: pending %r owners %r" % (
                        dict((t, it[0][1:3]) for t, it in self.pending.items()), self.owner)
                    return
                pre = self.last in runnable
                if pre:
                    runnable.remove(self.last)
                    runnable.insert(0, self.last)
                k = self.chooser(len(self.choices), runnable, self)
                tid = runnable[k]
                rec, _, lk = self.pending.pop(tid)
                if rec[1] == "acq!":
                    rec[1] = "acq"              # acquire() of an instrumented lock CLASS has returned
                if rec[1] == "xbusy":
                    rec[1], rec[3] = "try", "busy"
                    self.unknown_ops += 1
                elif rec[1] == "acq" and lk is not None:
                    self.lock_uids.setdefault(rec[2], set()).add(lk.uid)
                    note_exclusion(self, len(self.trace), "acq", rec[2], tid)
                elif rec[1] == "rel":
                    note_exclusion(self, len(self.trace), "rel", rec[2], tid)
                elif rec[1] == "try" and lk is not None:
                    if lk.real.locked():
                        rec[3] = "busy"
                        self.unknown_ops += 1
                    else:
                        rec[3] = "got"
                        self.lock_uids.setdefault(rec[2], set()).add(lk.uid)
                        note_exclusion(self, len(self.trace), "acq", rec[2], tid)
                elif rec[1] == "mklock":
                    self.lock_created += 1
                self.options.append(len(runnable))
                self.choices.append(k)
                self.preemptible.append(pre)
                self.trace.append(rec)
                if rec[1] == "acq":
                    self.owner[rec[2]] = tid
                elif rec[1] == "rel":
                    self.owner[rec[2]] = None
                self.last = tid
                self.sems[tid].release()
                if not self.wake.acquire(timeout=BACKSTOP):
                    self.stuck = "thread %d neither reached a yield point nor finished within %.0f s after %s " \
                                 "(unmodelled block)" % (tid, BACKSTOP, rec[1:3])
                    return
        finally:
            threading.Thread.start = orig_start


class HCtl(LockCtl):
    def emit(self, kind, name, lk, pred=None):
        s = self.sched
        if s is None or s.tid() is None:
            return
        if kind == "acq":
            s.yield_("acq", name, (lambda: not lk.real.locked()), lock=lk)
        elif kind in ("try", "acq!", "xbusy", "rel"):
            s.yield_(kind, name, None, lock=lk)
        else:
            s.yield_(kind, name, pred)


def note_exclusion(sched, step, kind, name, tid):
    """the property-level invariant behind the lock chain, checked on the trace itself: at most one thread is
    between the return of a layer lock's acquire and the call of its release"""
    inside = sched.inside.setdefault(name, [])
    if kind == "acq":
        others = [t for t in inside if t != tid]
        if others:
            sched.mutex_violations.append(
                "mutual exclusion: at step %d thread %d got the lock of layer %s while thread %d is still between "
                "its acquire and its release" % (step, tid, name, others[0]))
        inside.append(tid)
    elif kind == "rel" and tid in inside:
        inside.remove(tid)


class HQueue(object):
    def __init__(self, real, holder, kput, kget, on_put=None):
        self.real, self.h, self.kput, self.kget, self.on_put = real, holder, kput, kget, on_put

    def put(self, item, *a, **k):
        s = self.h.sched
        if s is not None:
            s.yield_(self.kput)
            if self.on_put:
                self.on_put(item)
        return self.real.put(item, *a, **k)

    def get(self, *a, **k):
        s = self.h.sched
        if s is not None:
            s.yield_(self.kget, None, lambda: self.real.qsize() > 0)
        return self.real.get(*a, **k)

    def __getattr__(self, name):
        return getattr(self.real, name)


class HsBench(object):
    """One connection attempt on fresh real layers; run() executes one scenario under one schedule."""

    def __init__(self, scratch, name, variant, server_stanzas=0):
        from . import c04_rig
        self.variant = variant
        self.server_stanzas = server_stanzas
        self.replies = {}
        self.nsenders = 0
        install_lock_factory()
        self.h = h = HCtl(("segments", "noise", "coder", "top", "flush"))
        CURRENT[0] = h
        self.rig = rig = c04_rig.Rig(scratch, name, variant)
        noise = rig.noise
        h.adopt_layers({"segments": rig.seg, "noise": rig.noise, "coder": rig.coder, "top": rig.top},
                       extra=[(noise, "_flush_lock", "flush")])
        self.cur_op = {}
        self.hs_tid = None
        self.nput_hs = 0
        me = self

        def on_put(item):
            s = h.sched
            if s is not None and s.tid() == me.hs_tid and not me.flipped:
                me.cur_op[me.hs_tid] = me.nput_hs
                me.nput_hs += 1
        st = noise._stream
        st._writequeue = HQueue(st._writequeue, h, "put", "get", on_put)
        noise._incoming_segments_queue = HQueue(noise._incoming_segments_queue, h, "iput", "iget")
        proto = noise._wa_noiseprotocol
        self.proto = proto
        self.flipped = False

        # reads of proto.state from outside consonance: value first, then the yield
        base = proto.__class__

        class IProto(base):
            @property
            def state(self):
                v = base.state.fget(self)
                s = h.sched
                if s is not None:
                    s.yield_("rdstate", v)
                return v
        proto.__class__ = IProto

        orig_send = proto.send

        def nsend(data):
            s = h.sched
            rec = s.yield_("nsend") if s is not None else None
            try:
                r = orig_send(data)
            except BaseException as e:
                if rec is not None:
                    rec[3] = "raise:" + e.__class__.__name__
                raise
            if rec is not None:
                rec[3] = "ok"
            return r
        proto.send = nsend

        mach = proto._machine
        orig_finish = mach.finish

        def finish(*a, **k):
            s = h.sched
            if s is not None:
                s.yield_("flip")
            me.flipped = True
            return orig_finish(*a, **k)
        mach.finish = finish
        if not server_stanzas:
            # With server stanzas queued before the flip the window below is NOT opened: on the unchanged code a
            # send that passes WANoiseProtocol.send there runs the protocol-state callback (and the flush, and the
            # replies of the receive path) inside its own toLower frames and blocks on a lock it already holds --
            # a wedge (C12/C04 matter, see design_notes/C11.md), not a corruption of the stream.
            seen = [False]

            def hook():
                if not seen[0] and mach.state == "transport":
                    seen[0] = True
                    s = h.sched
                    if s is not None:
                        s.yield_("flipped")
            mach.after_state_change.insert(0, hook)

        orig_cb = proto._protocol_state_callbacks

        def cb(state):
            s = h.sched
            if s is not None:
                s.yield_("cb", state)
            return orig_cb(state)
        proto._protocol_state_callbacks = cb

        self.writes = []      # (tid, op index, bytes)
        orig_bottom = rig.bottom.send

        def bsend(data):
            s = h.sched
            tid = s.tid() if s is not None else None
            if tid is not None:
                s.yield_("write")
            me.writes.append((tid, me.cur_op.get(tid), bytes(data)))
            return orig_bottom(data)
        rig.bottom.send = bsend

        def on_top(node):
            # what a protocol layer does with a server iq: answer from inside receive()
            s = h.sched
            tid = s.tid() if s is not None else None
            if tid is None:
                return
            k = 50 + len(me.replies.setdefault(tid, []))
            prev = me.cur_op.get(tid)
            me.cur_op[tid] = k
            s.flag[tid] = True
            try:
                rig.top.send(me.node(me.model_tid(tid), k))
            except Exception as e:
                me.replies[tid].append("raise:" + e.__class__.__name__)
            else:
                me.replies[tid].append("ok")
            finally:
                s.flag[tid] = False
                me.cur_op[tid] = prev
        if server_stanzas:
            rig.on_top = on_top

    def model_tid(self, tid):
        """model thread: 0 = handshake worker, 1..n = senders, n+1 = the environment (network) thread"""
        if tid == self.hs_tid:
            return 0
        if tid == 0:
            return self.nsenders + 1
        return tid

    def node(self, tid, k):
        P = self.rig.m["ProtocolTreeNode"]
        return P("iq", {"id": "t%d-%d" % (tid, k), "type": "get", "xmlns": "w", "to": "s.whatsapp.net"})

    def run(self, senders, chooser, line=False, helpers=False):
        """senders: per application thread the list of entry nodes of its sends (6 = top.send, 5 = coder.send).
        Harness thread ids: 0 = environment, 1..n = senders, n+1 = the adopted handshake worker."""
        rig = self.rig
        s = HSched(chooser)
        self.outcomes = dict((i + 1, []) for i in range(len(senders)))
        self.nsenders = len(senders)
        me = self

        def env():
            s.yield_("auth")
            rig.auth()
            s.yield_("deliver", None, lambda: rig.resp is not None and any(k == "hello" for k, _ in rig.resp.out))
            idx = [k for k, _ in rig.resp.out].index("hello")
            seg = rig.resp.out.pop(idx)[1]
            data = NZ.wire(seg)
            for j in range(me.server_stanzas if rig.resp.can_send() else 0):
                # (IK: the responder has its transport keys as soon as it produced the hello) server stanzas in the
                # same network read: they wait in the incoming queue until somebody flushes it
                d = rig.resp.encrypt(rig.stanza(j + 1))
                rig.resp.out.pop()
                data += NZ.wire(d)
            rig.seg.receive(data)

        def mk(tid, ops):
            def fn():
                for k, entry in enumerate(ops):
                    me.cur_op[tid] = k
                    layer = rig.top if entry == 6 else rig.coder
                    try:
                        layer.send(me.node(tid, k))
                    except Exception as e:
                        me.outcomes[tid].append("raise:" + e.__class__.__name__)
                    else:
                        me.outcomes[tid].append("ok")
            return fn

        def on_spawn(tid, th):
            me.hs_tid = tid
        s.on_spawn = on_spawn
        fns = [(env, "env")] + [(mk(i + 1, ops), "sender%d" % (i + 1)) for i, ops in enumerate(senders)]
        self.h.sched = s
        try:
            if line:
                with LineMode(self.h, helpers):
                    s.run(fns)
            else:
                s.run(fns)
        finally:
            if s.stuck:
                s.drain()
            self.h.sched = None
        return s

    # ---- the strict in-order peer (the responder decrypts every transport frame as it arrives)
    def peer(self):
        r = self.rig.resp
        ids = []
        if r is None:
            return {"ids": [], "errors": ["no connection"], "leftover": 0, "units": []}
        for b in r.received:
            if b is None:
                ids.append(None)
                continue
            try:
                ids.append(self.rig.dec.getProtocolTreeNode(bytearray(b))["id"])
            except Exception as e:
                ids.append("undecodable:" + e.__class__.__name__)
        return {"ids": ids, "errors": list(r.errors), "leftover": len(r.buf), "units": [k for k, _ in r.units],
                "stage": r.stage}


def hs_oracle(bench, senders, s):
    """The property on the wire: handshake units first, then every transport frame decrypts with the next counter;
    every send that returned normally is there exactly once (per thread in program order), a send that raised
    put nothing on the wire, nothing else is there, no torn frame."""
    probs = []
    if s.stuck and s.stuck.startswith("deadlock"):
        probs.append("stuck: " + s.stuck)    # (a block the scheduler cannot see is a limit of the tie, not a finding)
    if s.errors:
        probs.append("died: a thread died: %r" % s.errors)
    for m in s.mutex_violations[:2]:
        probs.append("exclusion: " + m)
    p = bench.peer()
    if p["errors"]:
        probs.append("order: the in-order peer: %s" % "; ".join(p["errors"][:3]))
    if p["leftover"]:
        probs.append("torn: %d bytes on the wire are not a whole frame" % p["leftover"])
    exp_units = ["prologue", "hello"] + (["finish"] if bench.variant != "IK" else [])
    if not s.stuck and p["units"][:len(exp_units)] != exp_units:
        probs.append("handshake: handshake units on the wire %r, expected %r first" % (p["units"][:4], exp_units))
    if not s.stuck and any(u != "data" for u in p["units"][len(exp_units):]):
        probs.append("handshake: non-transport unit after the handshake: %r" % p["units"])
    accepted, raised = [], []
    for tid, outs in sorted(bench.outcomes.items()):
        for k, o in enumerate(outs):
            (accepted if o == "ok" else raised).append("t%d-%d" % (tid, k))
    for tid, outs in sorted(bench.replies.items()):
        for k, o in enumerate(outs):
            (accepted if o == "ok" else raised).append("t%d-%d" % (bench.model_tid(tid), 50 + k))
    got = [i for i in p["ids"] if i is not None]
    if not probs:
        for i in accepted:
            if got.count(i) != 1:
                probs.append("%s: send %s returned normally but the peer decrypted it %d times" % ("lost" if got.count(i) == 0 else "duplicated", i, got.count(i)))
        for i in raised:
            if i in got:
                probs.append("raised-but-sent: send %s raised but the stanza is on the wire" % i)
        for i in got:
            if i not in accepted and i not in raised:
                probs.append("alien: the peer decrypted %r which no send produced" % i)
        for tid in bench.outcomes:
            mine = [i for i in got if i.startswith("t%d-" % tid)]
            if mine != sorted(mine, key=lambda x: int(x.split("-")[1])):
                probs.append("reordered: stanzas of thread %d reordered: %r" % (tid, mine))
    if not s.stuck:
        n = sum(len(o) for o in senders)
        if sum(len(o) for o in bench.outcomes.values()) != n:
            probs.append("unfinished: not every send finished: %r" % bench.outcomes)
    return probs, p


def hs_probe_further_send(bench):
    """one more send through the idle stack (unscheduled); what the peer has decrypted afterwards"""
    try:
        bench.rig.coder.send(bench.node(90, 0))
    except Exception as e:
        return ["probe raised %s" % e.__class__.__name__]
    return [i for i in bench.peer()["ids"]]


def model_args(bench, senders, s):
    """(opss, schedule, real events) for run_c11h.  Model thread 0 = handshake worker, i = sender i, n+1 = the
    environment thread (only the replies it sends while flushing the incoming buffer are model steps)."""
    nseg = 1 if bench.variant == "IK" else 2
    n = len(senders)

    def reply_ops(tid):
        mt = bench.model_tid(tid)
        return [[6, 0, mt * 100 + 50 + k] for k in range(len(bench.replies.get(tid, [])))]
    hs_ops = [[3, 0, 9000 + j] for j in range(nseg)] + [[4, 1, 0]] + reply_ops(bench.hs_tid)
    opss = [hs_ops] + [[[e, 0, (i + 1) * 100 + k] for k, e in enumerate(ops)] for i, ops in enumerate(senders)]
    opss.append(reply_ops(0))
    sched, real = [], []
    for rec in s.trace:
        tid, kind, obj, note, inreply = rec
        if kind in INVISIBLE or (kind in ("acq", "rel") and obj == "flush") or (tid == 0 and not inreply):
            continue
        sched.append(bench.model_tid(tid))
        if kind == "nsend":
            real.append([7, 0 if note == "ok" else 1])
        elif kind == "try":
            real.append([1 if note == "got" else 9, LOCKNODE_H.get(obj, 0)])
        else:
            real.append([EVH.get(kind, 99), LOCKNODE_H.get(obj, 0) if kind in ("acq", "rel") else 0])
    return opss, sched, real


def lock_identity_diffs(lock_uids):
    """the model has exactly ONE lock per toLower site"""
    return ["layer %s: %d distinct lock objects were acquired for its toLower in one run (the model has one lock per "
            "site; a second object means two threads can be inside the layers below at once)" % (n, len(u))
            for n, u in sorted(lock_uids.items()) if len(u) > 1 and n != "flush"]


def term_desc(t):
    kind = "p"
    if t[0] == 3:
        kind, t = "h", t[1]
    while t[0] != 0:
        t = t[-1]
    return [kind, t[1]]


def hs_model_check(model, bench, senders, s, peer):
    opss, sched, real = model_args(bench, senders, s)
    r = model.call("run_c11h", [opss, sched])
    if isinstance(r, tuple):
        return ["model run failed: %r" % (r,)]
    evs, wire, ctr, sent, fin, qlen, results, mst = r
    diffs = []
    evs = [list(e) for e in evs]
    if evs != real:
        for i, (a, b) in enumerate(zip(evs, real)):
            if a != b:
                diffs.append("event %d of model thread %d: impl=%s model=%s (1 acq 2 rel 3 put 4 get 5 write 6 flip "
                             "7 nsend[0 ok|1 raise] 9 busy try-lock = unknown to the model; 0 = not enabled in the model)" % (i, sched[i], b, a))
                break
    diffs.extend(lock_identity_diffs(s.lock_uids))
    if s.stuck and not s.stuck.startswith("deadlock"):
        diffs.append("unmodelled block: " + s.stuck)
    mw = [term_desc(t) for t in wire]
    rw = []
    for tid, k, data in bench.writes:
        if tid is None or (tid == 0 and k is None):
            continue                      # the prologue, written by on_auth on the environment thread
        if tid == bench.hs_tid and (k is None or k < 50):
            ident = 9000 + (k if k is not None else 49)
        else:
            ident = bench.model_tid(tid) * 100 + (k or 0)
        rw.append(["h" if len(data) == 3 else "p", ident])
    if mw != rw:
        diffs.append("wire impl=%s model=%s" % (rw, mw))
    if not s.stuck:
        if not all(fin):
            diffs.append("model threads not finished: %s" % fin)
        if qlen != 0:
            diffs.append("model queue not empty")
        if not mst:
            diffs.append("model still in handshake state")
        mres = [["ok" if b else "raise" for b in rs] for rs in results]
        nseg = 1 if bench.variant == "IK" else 2
        rres = [["ok"] * (nseg + 1) + [o.split(":")[0] for o in bench.replies.get(bench.hs_tid, [])]] + \
               [[o.split(":")[0] for o in bench.outcomes[i + 1]] for i in range(len(senders))] + \
               [[o.split(":")[0] for o in bench.replies.get(0, [])]]
        if mres != rres:
            diffs.append("send outcomes impl=%s model=%s" % (rres, mres))
        ms = ["t%d-%d" % (term_desc(t)[1] // 100, term_desc(t)[1] % 100) for t in sent]
        if ms != peer["ids"]:
            diffs.append("encryption order impl(peer)=%s model=%s" % (peer["ids"], ms))
    return diffs


# ---------------------------------------------------------------- schedule generators
def prefix_chooser(prefix):
    """replay `prefix`, then: keep running the thread that ran last; when it cannot run, the lowest thread id"""
    def ch(step, opts, s):
        if step < len(prefix):
            return min(prefix[step], len(opts) - 1)
        return 0
    return ch


def next_prefix_pb(choices, options, preemptible, bound):
    """depth-first successor among the schedules with at most `bound` preemptions (a preemption = choosing another
    thread although the one that ran last is runnable); switches at blocking points / thread ends are free"""
    for i in range(len(choices) - 1, -1, -1):
        if choices[i] + 1 < options[i]:
            cand = choices[:i] + [choices[i] + 1]
            n = sum(1 for j in range(i + 1) if preemptible[j] and cand[j] != 0)
            if n <= bound:
                return cand
    return None


def pct_chooser(rng, depth, horizon):
    """PCT: random thread priorities, `depth` priority-change points in the first `horizon` steps"""
    prio = {}
    cps = sorted(rng.randrange(horizon) for _ in range(depth))
    mode = rng.randrange(3)      # 0: all threads alike; 1: senders start below env/worker; 2: one sender above

    def ch(step, opts, s):
        for t in opts:
            if t not in prio:
                prio[t] = 1.0 + rng.random()
                if mode and s.names.get(t, "").startswith("sender") and not (mode == 2 and t == 1):
                    prio[t] -= 0.8
        if cps and step >= cps[0]:
            cps.pop(0)
            if s.last in prio:
                prio[s.last] = 0.5 * rng.random()
        return max(range(len(opts)), key=lambda i: prio[opts[i]])
    return ch


def walk_chooser(rng, stick):
    def ch(step, opts, s):
        if s.last == opts[0] and rng.random() < stick:
            return 0
        return rng.randrange(len(opts))
    return ch


def straddles(bench, s):
    """number of sends that started (took their first lock) before the flip and reached WANoiseProtocol.send
    after it"""
    flip = [i for i, r in enumerate(s.trace) if r[1] == "flip"]
    if not flip:
        return 0
    flip = flip[0]
    n = 0
    depth, start = {}, {}
    for i, r in enumerate(s.trace):
        tid, kind = r[0], r[1]
        if tid in (0, bench.hs_tid) or r[2] == "flush":
            continue
        if kind == "acq":
            if depth.get(tid, 0) == 0:
                start[tid] = i
            depth[tid] = depth.get(tid, 0) + 1
        elif kind == "rel":
            depth[tid] = depth.get(tid, 0) - 1
        elif kind == "nsend" and start.get(tid, i) < flip < i:
            n += 1
    return n
