"""Regenerates the 'as built' tables of DESIGN.md (between the AS-BUILT markers) from the tree:
theorems per property, findings, seeded changes and which check caught them."""
import os, re, json, glob
from .env import VERIF
from .checklib import strip_comments


def main():
    props = [json.loads(l) for l in open(os.path.join(VERIF, "properties.jsonl"))]
    ready = open(os.path.join(VERIF, "harness/manifest/READY")).read().split()
    out = []
    out.append("| Prop | Theorems in `coq/Properties` | partial / refuted | Fix commits | Open findings | Notes |")
    out.append("|---|---|---|---|---|---|")
    for p in props:
        pid = p["id"]
        pf = os.path.join(VERIF, "coq/Properties/%s.v" % pid)
        thms = re.findall(r"^Theorem\s+(\w+)", strip_comments(open(pf).read()), re.M) if os.path.exists(pf) else []
        special = [t for t in thms if t.endswith(("_partial", "_refuted")) or "_partial" in t or "refuted" in t]
        kf = os.path.join(VERIF, "known_findings/%s.json" % pid)
        fixed, opn = [], []
        if os.path.exists(kf):
            for f in json.load(open(kf))["findings"]:
                (fixed if f.get("status") == "fixed" else opn).append(f)
        out.append("| %s%s | %d | %s | %s | %s | design_notes/%s.md |" % (
            pid, "" if pid in ready else " (not claimed)", len(thms), ", ".join("`%s`" % s for s in special) or "—",
            ", ".join(sorted(set(f.get("commit", "?") for f in fixed))) or "—",
            "; ".join(f.get("key", "?") for f in opn) or "—", pid))
    out.append("")
    out.append("Seeded changes (independent sub-agents, property text only; `seeded/<name>/`):")
    out.append("")
    out.append("| Seed | What it does / needs | Confirmed | Detected by `./check` | How |")
    out.append("|---|---|---|---|---|")
    for m in sorted(glob.glob(os.path.join(VERIF, "seeded/*/meta.json"))):
        j = json.load(open(m))
        name = os.path.basename(os.path.dirname(m))
        how = ""
        fv = j.get("first_violation", "")
        mm = re.search(r"replay=(\S+)", fv)
        how = j.get("caught_by", "")
        out.append("| %s | %s — needs: %s | %s | %s | %s |" % (
            name, str(j.get("summary", ""))[:220].replace("|", "/").replace("\n", " "),
            str(j.get("needs", ""))[:160].replace("|", "/").replace("\n", " "),
            "yes" if j.get("confirmed") else "NO", "yes" if j.get("detected") else "**no**",
            (how or ("no-failing-input-found" if "no-failing-input-found" in fv else "concrete replay" if fv else "")).replace("|", "/")))
    text = "\n".join(out) + "\n"
    dp = os.path.join(VERIF, "DESIGN.md")
    d = open(dp).read()
    a, b = "<!-- AS-BUILT-TABLES:BEGIN -->", "<!-- AS-BUILT-TABLES:END -->"
    if a in d:
        d = d[:d.index(a) + len(a)] + "\n" + text + d[d.index(b):]
        open(dp, "w").write(d)
    else:
        print(text)


if __name__ == "__main__":
    main()
