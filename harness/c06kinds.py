"""Catalogue of every stanza / entity kind the library defines, for C06 and C07.

Each kind has a seeded generator built from the classes' own constructors or from the stanza
shapes documented in the classes' docstrings / the repo's tests, and the *property-side*
expectation (independent of the Coq model): which optional module it belongs to, which entity
class must reach the application, which answers must go down.

send kinds : gen(rng) -> entity                     expectation: exactly one stanza == serialisation
recv kinds : gen(rng) -> ProtocolTreeNode            expectation: up class (or None) and answers
req  kinds : gen(rng) -> (entity, result_node_fn)    request that registers a callback; the reply
                                                     for its id must produce exactly one entity
"""
from yowsup.structs import ProtocolTreeNode as N

SRV = "s.whatsapp.net"


# ------------------------------------------------------------------ field generators
def rid(r):
    k = r.random()
    if k < .3:
        return "%d-%d" % (r.randint(1400000000, 1700000000), r.randint(1, 999))
    if k < .6:
        return "%d" % r.randint(1, 10 ** 10)
    return "".join(r.choice("ABCDEF0123456789abcxyz.-_") for _ in range(r.randint(1, 24)))


def rjid(r):
    return "%d@%s" % (r.randint(10 ** 9, 10 ** 13), SRV)


def rgjid(r):
    return "%d-%d@g.us" % (r.randint(10 ** 9, 10 ** 13), r.randint(10 ** 9, 2 * 10 ** 9))


def rts(r):
    return str(r.randint(1400000000, 1700000000))


def rtxt(r, lo=1, hi=20):
    alpha = "abcdefghijklmnopqrstuvwxyz ABCXYZ0123456789:/-_.é中"
    return "".join(r.choice(alpha) for _ in range(r.randint(lo, hi)))


def rbody(r):
    """free-text node content as a peer may send it: bytes, not necessarily valid UTF-8 (a text cut at a byte limit in
    the middle of a multi-byte character, a latin-1 body, arbitrary bytes)"""
    x = r.random()
    if x < .55:
        return rtxt(r).encode()
    if x < .7:
        return rtxt(r).encode("utf-8")[:-1] + b"\xf0\x9f\x98"           # emoji cut after 3 of 4 bytes
    if x < .85:
        return (rtxt(r, 1, 8) + "\xe9t\xe9 \xfc").encode("latin-1", "replace")
    return bytes(r.randrange(256) for _ in range(r.randint(1, 12)))


def ropt(r, v, p=.5):
    return v if r.random() < p else None


def attrs(**kw):
    return dict((k.rstrip("_").replace("__", ":"), v) for k, v in kw.items() if v is not None)


# ------------------------------------------------------------------ payloads
def _msg():
    from yowsup.layers.protocol_messages.proto.e2e_pb2 import Message
    return Message()


def pl_conversation(r):
    m = _msg()
    m.conversation = rtxt(r)
    return m


def pl_extended(r):
    m = _msg()
    m.extended_text_message.text = rtxt(r)
    if r.random() < .5:
        m.extended_text_message.matched_text = "http://x.y/" + rid(r)
        m.extended_text_message.canonical_url = "http://x.y"
        m.extended_text_message.title = rtxt(r)
        m.extended_text_message.description = rtxt(r)
    return m


def _dl(mm, r, mime):
    mm.url = "https://mmg.whatsapp.net/d/f/" + rid(r)
    mm.mimetype = mime
    mm.file_sha256 = r.randbytes(32)
    mm.file_length = r.randint(1, 10 ** 7)
    mm.media_key = r.randbytes(32)
    if "file_enc_sha256" in mm.DESCRIPTOR.fields_by_name:
        mm.file_enc_sha256 = r.randbytes(32)


def pl_image(r):
    m = _msg()
    _dl(m.image_message, r, "image/jpeg")
    m.image_message.height, m.image_message.width = r.randint(1, 4000), r.randint(1, 4000)
    m.image_message.caption = rtxt(r)
    m.image_message.jpeg_thumbnail = r.randbytes(r.randint(1, 30))
    return m


def pl_sticker(r):
    m = _msg()
    _dl(m.sticker_message, r, "image/webp")
    m.sticker_message.height, m.sticker_message.width = 64, 64
    return m


def pl_audio(r):
    m = _msg()
    _dl(m.audio_message, r, "audio/ogg")
    m.audio_message.seconds = r.randint(1, 600)
    m.audio_message.ptt = r.random() < .5
    return m


def pl_video(r):
    m = _msg()
    _dl(m.video_message, r, "video/mp4")
    m.video_message.seconds = r.randint(1, 600)
    m.video_message.height, m.video_message.width = r.randint(1, 2000), r.randint(1, 2000)
    m.video_message.caption = rtxt(r)
    m.video_message.jpeg_thumbnail = r.randbytes(8)
    return m


def pl_document(r):
    m = _msg()
    _dl(m.document_message, r, "application/pdf")
    m.document_message.title = rtxt(r)
    m.document_message.file_name = rtxt(r) + ".pdf"
    m.document_message.page_count = r.randint(1, 99)
    m.document_message.jpeg_thumbnail = r.randbytes(8)
    return m


def pl_location(r):
    m = _msg()
    m.location_message.degrees_latitude = r.uniform(-90, 90)
    m.location_message.degrees_longitude = r.uniform(-180, 180)
    m.location_message.name = rtxt(r)
    m.location_message.url = "http://x.y/" + rid(r)
    return m


def pl_contact(r):
    m = _msg()
    m.contact_message.display_name = rtxt(r)
    m.contact_message.vcard = ("BEGIN:VCARD\nFN:%s\nEND:VCARD" % rtxt(r)).encode("utf-8")
    return m


def pl_skdm_only(r):
    m = _msg()
    m.sender_key_distribution_message.group_id = rgjid(r)
    m.sender_key_distribution_message.axolotl_sender_key_distribution_message = r.randbytes(40)
    return m


def pl_skdm_conversation(r):
    m = pl_skdm_only(r)
    m.conversation = rtxt(r)
    return m


def pl_protocol(r):
    """a revoke: the converter knows it, the layers cannot present it"""
    m = _msg()
    m.protocol_message.key.remote_jid = rjid(r)
    m.protocol_message.key.from_me = True
    m.protocol_message.key.id = rid(r)
    m.protocol_message.type = 0
    return m


def pl_unknown_field(r):
    """a payload kind the library has no class for at all (contacts array / live location / call)"""
    m = _msg()
    k = r.randint(0, 2)
    if k == 0:
        m.call.call_key = r.randbytes(16)
    elif k == 1:
        m.chat.display_name = rtxt(r)
        m.chat.id = rid(r)
    else:
        m.contacts_array_message.display_name = rtxt(r)
    return m


def pl_empty(r):
    return _msg()


def pl_skdm_protocol(r):
    m = pl_skdm_only(r)
    m.protocol_message.key.id = rid(r)
    m.protocol_message.type = 0
    return m


def pl_skdm_unknown_field(r):
    """key distribution + a payload kind the library's converter does not model at all (call / chat / contacts array /
    highly structured message): the converter's view of it is indistinguishable from a pure key distribution"""
    m = pl_skdm_only(r)
    k = r.randint(0, 3)
    if k == 0:
        m.call.call_key = r.randbytes(16)
    elif k == 1:
        m.chat.display_name = rtxt(r)
        m.chat.id = rid(r)
    elif k == 2:
        m.contacts_array_message.display_name = rtxt(r)
    else:
        m.highly_structured_message.namespace = rtxt(r)
        m.highly_structured_message.element_name = rtxt(r)
    return m


def message_node(r, mtype, payload, mediatype=None, group=None):
    group = r.random() < .4 if group is None else group
    a = attrs(type=mtype, id=rid(r), t=rts(r), from_=rgjid(r) if group else rjid(r),
              participant=rjid(r) if group else None, notify=ropt(r, rtxt(r)),
              offline=ropt(r, r.choice("01")))
    pa = {"mediatype": mediatype} if mediatype is not None else {}
    return N("message", a, [N("proto", pa, None, payload.SerializeToString())])


# ------------------------------------------------------------------ kinds
KINDS = []


def kind(name, direction, module=None, up=None, answers=(), domain=True, c07=None, note=None, key=None):
    def deco(fn):
        KINDS.append(dict(name=name, dir=direction, module=module, up=up, answers=tuple(answers),
                          domain=domain, c07=c07, gen=fn, note=note, key=key))
        return fn
    return deco


def _o(v):
    return [] if v is None or v == "" else [v.encode()]


# answers are functions node -> abstract stanza (same encoding as c06rig.abstract_down)
def ans_notification_ack(n):
    return [1, _o(n["id"]), [b"notification"], _o(n["type"]), _o(n["from"]), _o(n["participant"])]


def ans_delivery_receipt(n):
    return [2, _o(n["id"]), _o(n["from"]), _o(n["participant"]), [], []]


def ans_read_receipt(n):
    return [2, _o(n["id"]), _o(n["from"]), _o(n["participant"]), [b"read"], []]


def ans_call_receipt(n):
    return [2, _o(n["id"]), _o(n["from"]), [], [], _o(n.getChild("offer")["call-id"])]


def ans_call_ack(n):
    return [1, _o(n["id"]), [b"call"], [], _o(n["from"]), []]


def ans_pong(n):
    return [3, _o(n["id"]), [SRV.encode()], [b"w:p"]]


def ans_getkeys(n):
    return [4]


def ans_setkeys(n):
    return [5]


# ---------------- incoming: messages
def _text(name, pl, up, **kw):
    @kind("recv.message.text." + name, "recv", up=up, **kw)
    def g(r, pl=pl):
        return message_node(r, "text", pl(r))
    return g


_text("conversation", pl_conversation, "TextMessageProtocolEntity")
_text("extended", pl_extended, "ExtendedTextMessageProtocolEntity")
_text("skdm+conversation", pl_skdm_conversation, "TextMessageProtocolEntity")
_text("skdm-only", pl_skdm_only, None, note="pure key distribution: nothing by design", c07="skdm-only")
_text("unsupported.protocol", pl_protocol, None, answers=[ans_delivery_receipt], c07="unsupported")
_text("unsupported.unknown-field", pl_unknown_field, None, answers=[ans_delivery_receipt], c07="unsupported")
_text("unsupported.empty", pl_empty, None, answers=[ans_delivery_receipt], c07="unsupported")
_text("unsupported.skdm+protocol", pl_skdm_protocol, None, answers=[ans_delivery_receipt], c07="unsupported",
      note="retry resend of content the library cannot present (repaired finding: used to be dropped silently)")

_text("unsupported.skdm+unknown-field", pl_skdm_unknown_field, None, answers=[ans_delivery_receipt], c07="unsupported",
      note="key distribution + content the converter does not model: not a pure key distribution, receipt due "
           "(not a row of the Coq kind table; covered by the generic theorem C07_unsupported_message)")

MEDIA = [("image", pl_image, "ImageDownloadableMediaMessageProtocolEntity"),
         ("sticker", pl_sticker, "StickerDownloadableMediaMessageProtocolEntity"),
         ("audio", pl_audio, "AudioDownloadableMediaMessageProtocolEntity"),
         ("ptt", pl_audio, "AudioDownloadableMediaMessageProtocolEntity"),
         ("video", pl_video, "VideoDownloadableMediaMessageProtocolEntity"),
         ("gif", pl_video, "VideoDownloadableMediaMessageProtocolEntity"),
         ("location", pl_location, "LocationMediaMessageProtocolEntity"),
         ("contact", pl_contact, "ContactMediaMessageProtocolEntity"),
         ("document", pl_document, "DocumentDownloadableMediaMessageProtocolEntity"),
         ("url", pl_extended, "ExtendedTextMediaMessageProtocolEntity")]
for _mt, _pl, _up in MEDIA:
    def _g(r, mt=_mt, pl=_pl):
        return message_node(r, "media", pl(r), mt)
    kind("recv.message.media." + _mt, "recv", module="media", up=_up)(_g)

    def _g2(r, mt=_mt, pl=_pl):
        # what a group sender produces when it serves a retry receipt: the key distribution merged into the payload
        m = pl(r)
        m.sender_key_distribution_message.group_id = rgjid(r)
        m.sender_key_distribution_message.axolotl_sender_key_distribution_message = r.randbytes(40)
        return message_node(r, "media", m, mt, group=True)
    kind("recv.message.media." + _mt + ".skdm+media", "recv", module="media", up=_up,
         note="retry resend of a group media message")(_g2)

    def _g3(r, mt=_mt):
        # the pkmsg part of a first group media message: nothing but the key distribution, mediatype attribute present
        return message_node(r, "media", pl_skdm_only(r), mt, group=True)
    kind("recv.message.media." + _mt + ".skdm-only", "recv", module="media", up=None, c07="skdm-only",
         note="pure key distribution: nothing by design")(_g3)


@kind("recv.message.media.unsupported", "recv", module="media", up=None, answers=[ans_read_receipt],
      c07="unsupported-media")
def _g(r):
    mt = r.choice(["livelocation", "vcard", "contact_array", "product", "", "IMAGE", "image ", rtxt(r, 1, 8)])
    if mt in [m[0] for m in MEDIA]:
        mt += "x"
    return message_node(r, "media", r.choice([pl_unknown_field, pl_image, pl_empty])(r), mt)


@kind("recv.message.illformed.media-without-mediatype", "recv", domain=False, note="outside well-formed domain")
def _g(r):
    return message_node(r, "media", r.choice([pl_image, pl_unknown_field, pl_conversation])(r), None)


@kind("recv.message.illformed.text-with-mediatype", "recv", domain=False, note="outside well-formed domain")
def _g(r):
    return message_node(r, "text", pl_conversation(r), "image")


@kind("recv.message.no-proto", "recv", domain=False, note="ciphertext-only message below the encryption layers")
def _g(r):
    return N("message", attrs(type="text", id=rid(r), t=rts(r), from_=rjid(r)), None)


# ---------------- incoming: receipts, acks, presence, chatstate
@kind("recv.receipt", "recv", up="IncomingReceiptProtocolEntity")
def _g(r):
    grp = r.random() < .4
    kids = None
    if r.random() < .3:
        kids = [N("list", {}, [N("item", {"id": rid(r)}) for _ in range(r.randint(2, 4))])]
    return N("receipt", attrs(id=rid(r), t=rts(r), from_=rgjid(r) if grp else rjid(r),
                              participant=rjid(r) if grp else None, type=r.choice([None, "read", "played"]),
                              offline=ropt(r, "0")), kids)


@kind("recv.receipt.retry", "recv", up="IncomingReceiptProtocolEntity",
      note="retry receipt for a message the send layer does not hold: bubbles up")
def _g(r):
    i = rid(r)
    return N("receipt", attrs(id=i, t=rts(r), from_=rjid(r), type="retry"),
             [N("retry", {"count": "1", "id": i, "v": "1", "t": rts(r)}), N("registration", {}, None, r.randbytes(4))])


@kind("recv.ack", "recv", up="IncomingAckProtocolEntity")
def _g(r):
    return N("ack", attrs(id=rid(r), t=rts(r), from_=rjid(r), class_=r.choice(["message", "receipt", rtxt(r, 1, 6)])))


@kind("recv.presence", "recv", up="PresenceProtocolEntity")
def _g(r):
    return N("presence", attrs(from_=rjid(r), type=r.choice([None, "available", "unavailable"]),
                               last=ropt(r, r.choice(["deny", "none", rts(r)])), name=ropt(r, rtxt(r))))


@kind("recv.chatstate", "recv", up="IncomingChatstateProtocolEntity")
def _g(r):
    return N("chatstate", attrs(from_=rjid(r), id=ropt(r, rid(r))), [N(r.choice(["composing", "paused"]))])


# ---------------- incoming: iq
@kind("recv.iq.ping", "recv", up=None, answers=[ans_pong], c07="ping")
def _g(r):
    return N("iq", attrs(id=rid(r), type="get", from_=SRV, xmlns="urn:xmpp:ping", t=ropt(r, rts(r))),
             [N("ping")] if r.random() < .5 else None)


@kind("recv.iq.sync-result", "recv", up="ResultSyncIqProtocolEntity")
def _g(r):
    def users(t):
        return N(t, {}, [N("user", {"jid": rjid(r)}, None, ("+%d" % r.randint(10 ** 9, 10 ** 12)).encode())
                         for _ in range(r.randint(0, 3))])
    sync = N("sync", attrs(sid=str(r.randint(1, 10 ** 17)), index="0", last="true", version=rts(r),
                           wait=ropt(r, "166952")), [users("in"), users("out"),
                                                      N("invalid", {}, [N("user", {}, None, b"abc")])])
    return N("iq", attrs(id=rid(r), type="result", from_=rjid(r)), [sync])


@kind("recv.iq.unsolicited", "recv", up=None, note="unknown iq: nothing, no error", c07=None)
def _g(r):
    return N("iq", attrs(id=rid(r), type=r.choice(["get", "set", "result", "error"]), from_=SRV,
                         xmlns=r.choice([None, "w:p", "urn:xmpp:pin", "urn:xmpp:ping ", "URN:XMPP:PING", "w:g2",
                                         "encrypt", rtxt(r, 1, 10)])))


# ---------------- incoming: notifications
def notif(r, ntype, kids, group=False, participant=None):
    if participant is None:
        participant = rjid(r) if (group or r.random() < .3) else None
    # the sender is a user jid, a group jid, or -- for notifications the server itself originates -- a bare domain
    frm = rgjid(r) if group else (rjid(r) if r.random() < .8 else r.choice([SRV, "g.us", "broadcast", "status@broadcast"]))
    return N("notification", attrs(id=rid(r), t=rts(r), from_=frm, type=ntype,
                                   participant=participant or None, notify=ropt(r, rtxt(r)),
                                   offline=ropt(r, r.choice("01"))), kids)


@kind("recv.notification.picture.set", "recv", up="SetPictureNotificationProtocolEntity",
      answers=[ans_notification_ack], c07="notification")
def _g(r):
    return notif(r, "picture", [N("set", {"jid": rjid(r), "id": rts(r)})])


@kind("recv.notification.picture.delete", "recv", up="DeletePictureNotificationProtocolEntity",
      answers=[ans_notification_ack], c07="notification")
def _g(r):
    return notif(r, "picture", [N("delete", {"jid": rjid(r)})])


@kind("recv.notification.picture.other", "recv", domain=False,
      note="rejected with an error by design (outside C07)")
def _g(r):
    return notif(r, "picture", [N(r.choice(["request", "update", "sett"]), {"jid": rjid(r)})] if r.random() < .7 else None)


@kind("recv.notification.status", "recv", up="StatusNotificationProtocolEntity",
      answers=[ans_notification_ack], c07="notification")
def _g(r):
    return notif(r, "status", [N("set", {}, None, rbody(r))])


for _c, _cls in [("add", "AddContactNotificationProtocolEntity"), ("remove", "RemoveContactNotificationProtocolEntity"),
                 ("update", "UpdateContactNotificationProtocolEntity")]:
    def _g(r, c=_c):
        return notif(r, "contacts", [N(c, {"jid": rjid(r)})])
    kind("recv.notification.contacts." + _c, "recv", up=_cls, answers=[ans_notification_ack], c07="notification")(_g)


@kind("recv.notification.contacts.sync", "recv", up="ContactsSyncNotificationProtocolEntity",
      answers=[ans_notification_ack], c07="notification")
def _g(r):
    return notif(r, "contacts", [N("sync", {"after": rts(r)})])


@kind("recv.notification.contacts.other", "recv", up=None, answers=[ans_notification_ack], c07="notification")
def _g(r):
    return notif(r, "contacts", [N(r.choice(["modify", "hash"]), {})] if r.random() < .7 else None)


def _grp(r):
    return N("group", attrs(id=str(r.randint(10 ** 9, 2 * 10 ** 9)), creator=rjid(r), creation=rts(r), subject=rtxt(r),
                            s_t=rts(r), s_o=rjid(r)),
             [N("participant", attrs(jid=rjid(r), type=r.choice([None, "admin", "superadmin"])))
              for _ in range(r.randint(1, 4))])


def _parts(r):
    return [N("participant", {"jid": rjid(r)}) for _ in range(r.randint(1, 3))]


GP2 = [("subject", "SubjectGroupsNotificationProtocolEntity",
        lambda r: N("subject", {"subject": rtxt(r), "s_o": rjid(r), "s_t": rts(r)})),
       ("create", "CreateGroupsNotificationProtocolEntity",
        lambda r: N("create", {"type": "new", "key": "%d-%s@temp" % (r.randint(1, 10 ** 9), rid(r))}, [_grp(r)])),
       ("remove", "RemoveGroupsNotificationProtocolEntity", lambda r: N("remove", {"subject": rtxt(r)}, _parts(r))),
       ("add", "AddGroupsNotificationProtocolEntity", lambda r: N("add", {}, _parts(r)))]
for _c, _cls, _mk in GP2:
    def _g(r, mk=_mk):
        return notif(r, "w:gp2", [mk(r)], group=True)
    kind("recv.notification.w:gp2." + _c, "recv", module="groups", up=_cls, answers=[ans_notification_ack],
         c07="notification")(_g)


@kind("recv.notification.w:gp2.other", "recv", up=None, answers=[ans_notification_ack], c07="notification")
def _g(r):
    return notif(r, "w:gp2", [N(r.choice(["promote", "demote", "modify", "description"]), {}, _parts(r))], group=True)


@kind("recv.notification.subject", "recv", up=None, answers=[ans_notification_ack], c07="notification")
def _g(r):
    return notif(r, "subject", [N("body", {}, None, rbody(r))], group=True)


@kind("recv.notification.encrypt.count", "recv", up=None, answers=[ans_notification_ack], c07="notification",
      note="with the encryption layers: consumed by the control layer, which also uploads keys")
def _g(r):
    return notif(r, "encrypt", [N("count", {"value": str(r.randint(0, 20))})])


@kind("recv.notification.encrypt.identity", "recv", up=None, answers=[ans_notification_ack], c07="notification")
def _g(r):
    return notif(r, "encrypt", [N("identity")])


@kind("recv.notification.encrypt.other", "recv", up=None, answers=[ans_notification_ack], c07="notification")
def _g(r):
    return notif(r, "encrypt", [N(r.choice(["digest", "counts"]), {})] if r.random() < .6 else None)


@kind("recv.notification.unknown", "recv", up=None, answers=[ans_notification_ack], c07="notification")
def _g(r):
    t = r.choice(["web", "server", "psa", "account_sync", "business", "privacy_token", "devices", "mediaretry",
                  "Picture", "status ", "w:gp", "contact", "encrypt2", rtxt(r, 1, 10)])
    kids = [N(r.choice(["set", "delete", "add", "remove", "subject", "create", "count", "identity", "x"]), {})] \
        if r.random() < .7 else None
    return notif(r, t, kids)


@kind("recv.notification.notype", "recv", up=None, answers=[ans_notification_ack], c07="notification")
def _g(r):
    return notif(r, None, [N("set", {})] if r.random() < .5 else None)


# ---------------- incoming: calls, ib, auth
@kind("recv.call.offer", "recv", up="CallProtocolEntity", answers=[ans_call_receipt], c07="call-offer")
def _g(r):
    return N("call", attrs(id=rid(r), t=rts(r), from_=rjid(r), notify=ropt(r, rtxt(r)),
                           offline=ropt(r, r.choice(["0", "1", "1", "3"])),       # also replayed from the offline queue
                           retry=ropt(r, "1"), e=ropt(r, "0")), [N("offer", {"call-id": rid(r)})])


@kind("recv.call.other", "recv", up="CallProtocolEntity", answers=[ans_call_ack], c07="call-other")
def _g(r):
    c = r.choice(["transport", "relaylatency", "reject", "terminate", "preaccept", "accept", None])
    return N("call", attrs(id=rid(r), t=rts(r), from_=rjid(r), notify=ropt(r, rtxt(r)),
                           offline=ropt(r, r.choice(["0", "1"]))),
             [N(c, {"call-id": rid(r)})] if c else None)


@kind("recv.ib.dirty", "recv", up="DirtyIbProtocolEntity")
def _g(r):
    return N("ib", {"from": SRV}, [N("dirty", {"timestamp": rts(r), "type": r.choice(["groups", "account"])})])


@kind("recv.ib.offline", "recv", up="OfflineIbProtocolEntity")
def _g(r):
    return N("ib", {"from": SRV}, [N("offline", {"count": str(r.randint(0, 99))})])


@kind("recv.ib.account", "recv", up="AccountIbProtocolEntity")
def _g(r):
    return N("ib", {"from": SRV}, [N("account", {"status": "active", "kind": r.choice(["paid", "free"]),
                                                 "creation": rts(r), "expiration": rts(r)})])


@kind("recv.ib.ignored", "recv", up=None, note="edge_routing / attestation / fbip / unknown: ignored by design")
def _g(r):
    return N("ib", {"from": SRV}, [N(r.choice(["edge_routing", "attestation", "fbip", "downgrade_webclient"]), {})])


@kind("recv.auth.stream:features", "recv", up="StreamFeaturesProtocolEntity")
def _g(r):
    return N("stream:features", {}, [N(r.choice(["readreceipts", "groups_v2", "privacy", "presence"]))
                                     for _ in range(r.randint(0, 3))])


@kind("recv.auth.success", "recv", up="SuccessProtocolEntity")
def _g(r):
    return N("success", {"creation": rts(r), "props": str(r.randint(1, 9)), "t": rts(r), "location": r.choice(["atn", "frc"])})


@kind("recv.auth.failure", "recv", up="FailureProtocolEntity")
def _g(r):
    return N("failure", {"reason": r.choice(["not-authorized", "401", rtxt(r)])})


for _t in ("conflict", "ack", "xml-not-well-formed"):
    def _g(r, t=_t):
        kids = [N(t)]
        if t == "conflict":
            kids.append(N("text", {}, None, b"Replaced by new connection"))
        return N("stream:error", {}, kids)
    kind("recv.auth.stream:error." + _t, "recv", up="StreamErrorProtocolEntity")(_g)


@kind("recv.auth.stream:error.unknown", "recv", domain=False, note="NotImplementedError by design")
def _g(r):
    return N("stream:error", {}, [N(r.choice(["system-shutdown", "text"]))] if r.random() < .7 else None)


@kind("recv.unknown-tag", "recv", up=None, note="no layer claims the tag")
def _g(r):
    return N(r.choice(["challenge", "stream:start", "xmlstreamend", "Message", "iqq", rtxt(r, 1, 8)]),
             attrs(id=rid(r), type=ropt(r, "text"), xmlns=ropt(r, "w:p")))


# ---------------- outgoing
def _meta(r, group=None):
    from yowsup.layers.protocol_messages.protocolentities.attributes.attributes_message_meta import MessageMetaAttributes
    group = r.random() < .4 if group is None else group
    return MessageMetaAttributes(id=ropt(r, rid(r)), recipient=rgjid(r) if group else rjid(r))


@kind("send.message.text", "send")
def _g(r):
    from yowsup.layers.protocol_messages.protocolentities import TextMessageProtocolEntity
    if r.random() < .5:
        return TextMessageProtocolEntity(rtxt(r), to=rjid(r))
    return TextMessageProtocolEntity(rtxt(r), _meta(r))


@kind("send.message.text.broadcast", "send")
def _g(r):
    from yowsup.layers.protocol_messages.protocolentities.message_text_broadcast import BroadcastTextMessage
    return BroadcastTextMessage([rjid(r) for _ in range(r.randint(1, 3))], rtxt(r))


@kind("send.message.extendedtext", "send")
def _g(r):
    from yowsup.layers.protocol_messages.protocolentities import ExtendedTextMessageProtocolEntity
    from yowsup.layers.protocol_messages.protocolentities.attributes.attributes_extendedtext import ExtendedTextAttributes
    from yowsup.layers.protocol_messages.protocolentities.attributes.converter import AttributesConverter
    return ExtendedTextMessageProtocolEntity(
        AttributesConverter.get().proto_to_extendedtext(pl_extended(r).extended_text_message), _meta(r))


def _media_entity(r, mt):
    import yowsup.layers.protocol_media.protocolentities as pe
    from yowsup.layers.protocol_messages.protocolentities.attributes.converter import AttributesConverter
    c = AttributesConverter.get()
    table = {"image": (pe.ImageDownloadableMediaMessageProtocolEntity, pl_image, "image_message", c.proto_to_image),
             "sticker": (pe.StickerDownloadableMediaMessageProtocolEntity, pl_sticker, "sticker_message", c.proto_to_sticker),
             "audio": (pe.AudioDownloadableMediaMessageProtocolEntity, pl_audio, "audio_message", c.proto_to_audio),
             "video": (pe.VideoDownloadableMediaMessageProtocolEntity, pl_video, "video_message", c.proto_to_video),
             "document": (pe.DocumentDownloadableMediaMessageProtocolEntity, pl_document, "document_message", c.proto_to_document),
             "location": (pe.LocationMediaMessageProtocolEntity, pl_location, "location_message", c.proto_to_location),
             "contact": (pe.ContactMediaMessageProtocolEntity, pl_contact, "contact_message", c.proto_to_contact),
             "url": (pe.ExtendedTextMediaMessageProtocolEntity, pl_extended, "extended_text_message", c.proto_to_extendedtext)}
    cls, pl, field, conv = table[mt]
    return cls(conv(getattr(pl(r), field)), _meta(r))


for _mt in ["image", "sticker", "audio", "video", "document", "location", "contact", "url"]:
    def _g(r, mt=_mt):
        return _media_entity(r, mt)
    kind("send.message.media." + _mt, "send", module="media")(_g)


@kind("send.receipt", "send")
def _g(r):
    from yowsup.layers.protocol_receipts.protocolentities import OutgoingReceiptProtocolEntity
    k = r.randint(0, 3)
    if k == 0:
        return OutgoingReceiptProtocolEntity(rid(r), rjid(r))
    if k == 1:
        return OutgoingReceiptProtocolEntity([rid(r) for _ in range(r.randint(2, 4))], rjid(r), read=True)
    if k == 2:
        return OutgoingReceiptProtocolEntity(rid(r), rgjid(r), read=r.random() < .5, participant=rjid(r))
    return OutgoingReceiptProtocolEntity(rid(r), rjid(r), callId=rid(r))


@kind("send.receipt.retry", "send")
def _g(r):
    from yowsup.layers.axolotl.protocolentities import RetryOutgoingReceiptProtocolEntity
    return RetryOutgoingReceiptProtocolEntity(rid(r), rjid(r), r.randint(1, 16000), rts(r), count=r.randint(1, 4),
                                              participant=ropt(r, rjid(r)))


@kind("send.ack", "send")
def _g(r):
    from yowsup.layers.protocol_acks.protocolentities import OutgoingAckProtocolEntity
    return OutgoingAckProtocolEntity(rid(r), r.choice(["receipt", "message", "notification"]), ropt(r, "read"),
                                     rjid(r), participant=ropt(r, rjid(r)))


def _presence(name, mk):
    kind("send.presence." + name, "send")(mk)


def _PE():
    import yowsup.layers.protocol_presence.protocolentities as pe
    return pe


_presence("available", lambda r: _PE().AvailablePresenceProtocolEntity())
_presence("unavailable", lambda r: _PE().UnavailablePresenceProtocolEntity())
_presence("subscribe", lambda r: _PE().SubscribePresenceProtocolEntity(rjid(r)))
_presence("unsubscribe", lambda r: _PE().UnsubscribePresenceProtocolEntity(rjid(r)))
_presence("generic", lambda r: _PE().PresenceProtocolEntity(_type=r.choice([None, "active", "x" + rtxt(r, 1, 5)]), name=rtxt(r)))


@kind("send.chatstate", "send")
def _g(r):
    from yowsup.layers.protocol_chatstate.protocolentities import OutgoingChatstateProtocolEntity
    return OutgoingChatstateProtocolEntity(r.choice(["composing", "paused"]), rjid(r))


@kind("send.notification", "send")
def _g(r):
    from yowsup.layers.protocol_notifications.protocolentities import NotificationProtocolEntity
    return NotificationProtocolEntity(rtxt(r, 1, 8), rid(r), rjid(r), rts(r), rtxt(r), r.choice("01"))


@kind("send.call", "send")
def _g(r):
    from yowsup.layers.protocol_calls.protocolentities import CallProtocolEntity
    t = r.choice(["offer", "transport", "reject", "terminate", None])
    return CallProtocolEntity(ropt(r, rid(r)), t, rts(r), callId=rid(r) if t else None, _to=rjid(r))


def _iq(name, module=None, **kw):
    return kind("send.iq." + name, "send", module=module, **kw)


@_iq("push")
def _g(r):
    from yowsup.layers.protocol_iq.protocolentities import PushIqProtocolEntity
    return PushIqProtocolEntity()


@_iq("props")
def _g(r):
    from yowsup.layers.protocol_iq.protocolentities import PropsIqProtocolEntity
    return PropsIqProtocolEntity()


# CryptoIqProtocolEntity cannot be serialised under Python 3 ("...".decode('hex')): legacy, left out.


@_iq("unregister", module="profiles")
def _g(r):
    from yowsup.layers.protocol_profiles.protocolentities import UnregisterIqProtocolEntity
    return UnregisterIqProtocolEntity()


@_iq("keys.get")
def _g(r):
    from yowsup.layers.axolotl.protocolentities import GetKeysIqProtocolEntity
    return GetKeysIqProtocolEntity([rjid(r) for _ in range(r.randint(1, 3))])


@_iq("keys.set")
def _g(r):
    from yowsup.layers.axolotl.protocolentities import SetKeysIqProtocolEntity
    return SetKeysIqProtocolEntity(r.randbytes(32), (r.randbytes(3), r.randbytes(32), r.randbytes(64)),
                                   {r.randbytes(3): r.randbytes(32)}, 5, r.randbytes(4))


@_iq("clean")
def _g(r):
    from yowsup.layers.protocol_ib.protocolentities import CleanIqProtocolEntity
    return CleanIqProtocolEntity(r.choice(["groups", "account"]), SRV)


@_iq("privacylist", module="privacy")
def _g(r):
    from yowsup.layers.protocol_privacy.protocolentities import PrivacyListIqProtocolEntity
    return PrivacyListIqProtocolEntity(r.choice(["default", rtxt(r, 1, 6)]))


@_iq("generic.unknown-xmlns", up=None, domain=True, note="not a supported kind: nothing leaves, no error")
def _g(r):
    from yowsup.layers.protocol_iq.protocolentities import IqProtocolEntity
    return IqProtocolEntity(r.choice([None, "w:pp", "W:P", "w:g2", "status", "w:profile:pictures", "urn:xmpp:ping",
                                      "jabber:iq:privacy2", rtxt(r, 1, 12)]),
                            _type=r.choice(["get", "set", "result", "error"]), to=SRV)


@_iq("generic.iq-layer-xmlns")
def _g(r):
    from yowsup.layers.protocol_iq.protocolentities import IqProtocolEntity
    return IqProtocolEntity(r.choice(["urn:xmpp:whatsapp:push", "w", "urn:xmpp:whatsapp:account", "encrypt"]),
                            _type=r.choice(["get", "set"]), to=SRV)


# requests that register a callback; (entity, reply builder(kind, id) -> node, result class, error class)
def _res(i, frm, kids=None, **kw):
    return N("iq", attrs(id=i, type="result", from_=frm, **kw), kids)


def _err(i, frm):
    return N("iq", attrs(id=i, type="error", from_=frm), [N("error", {"code": "404", "text": "item-not-found"})])


REQS = []


def req(name, module, result_cls, error_cls):
    def deco(fn):
        REQS.append(dict(name="req." + name, module=module, result=result_cls, error=error_cls, gen=fn))
        KINDS.append(dict(name="send.iq." + name, dir="send", module=module, up=None, answers=(), domain=True,
                          c07=None, gen=lambda r, fn=fn: fn(r)[0], note="registers a reply callback", key=None))
        return fn
    return deco


@req("ping", None, "IqProtocolEntity", "ErrorIqProtocolEntity")
def _g(r):
    from yowsup.layers.protocol_iq.protocolentities import PingIqProtocolEntity
    e = PingIqProtocolEntity(to=SRV)
    return e, lambda i: _res(i, SRV)


@req("sync.get", None, "ResultSyncIqProtocolEntity", "ErrorIqProtocolEntity")
def _g(r):
    from yowsup.layers.protocol_contacts.protocolentities import GetSyncIqProtocolEntity
    e = GetSyncIqProtocolEntity(["+%d" % r.randint(10 ** 9, 10 ** 12) for _ in range(r.randint(1, 4))])

    def reply(i):
        def users(t):
            return N(t, {}, [N("user", {"jid": rjid(r)}, None, b"+4915")])
        return _res(i, SRV, [N("sync", attrs(sid=str(r.randint(1, 10 ** 17)), index="0", last="true", version=rts(r)),
                               [users("in"), users("out"), N("invalid", {}, [N("user", {}, None, b"abc")])])])
    return e, reply


@req("lastseen", None, "ResultLastseenIqProtocolEntity", "ErrorIqProtocolEntity")
def _g(r):
    from yowsup.layers.protocol_presence.protocolentities import LastseenIqProtocolEntity
    j = rjid(r)
    return LastseenIqProtocolEntity(j), lambda i: _res(i, j, [N("query", {"seconds": str(r.randint(0, 10 ** 6))})])


def _greq(name, result_cls, error_cls, mk, reply):
    @req("groups." + name, "groups", result_cls, error_cls)
    def g(r):
        e, ctx = mk(r)
        return e, lambda i: reply(r, i, ctx)
    return g


def _G():
    import yowsup.layers.protocol_groups.protocolentities as pe
    return pe


_greq("create", "SuccessCreateGroupsIqProtocolEntity", "ErrorIqProtocolEntity",
      lambda r: (_G().CreateGroupsIqProtocolEntity(rtxt(r), participants=[rjid(r) for _ in range(r.randint(0, 3))]), None),
      lambda r, i, c: _res(i, "g.us", [N("group", {"id": str(r.randint(10 ** 9, 2 * 10 ** 9))})]))
_greq("info", "InfoGroupsResultIqProtocolEntity", "ErrorIqProtocolEntity",
      lambda r: (lambda j: (_G().InfoGroupsIqProtocolEntity(j), j))(rgjid(r)),
      lambda r, i, j: _res(i, j, [_grp(r)]))
_greq("leave", "SuccessLeaveGroupsIqProtocolEntity", "ErrorIqProtocolEntity",
      lambda r: (lambda j: (_G().LeaveGroupsIqProtocolEntity([j]), j))(rgjid(r)),
      lambda r, i, j: _res(i, "g.us", [N("leave", {}, [N("group", {"id": j})])]))
_greq("list", "ListGroupsResultIqProtocolEntity", "ErrorIqProtocolEntity",
      lambda r: (_G().ListGroupsIqProtocolEntity(r.choice(["participating", "owning"])), None),
      lambda r, i, c: _res(i, "g.us", [N("groups", {}, [_grp(r) for _ in range(r.randint(0, 3))])]))
_greq("subject", "IqProtocolEntity", "ErrorIqProtocolEntity",
      lambda r: (lambda j: (_G().SubjectGroupsIqProtocolEntity(j, rtxt(r).encode("utf-8")), j))(rgjid(r)),
      lambda r, i, j: _res(i, j))
_greq("participants", "ListParticipantsResultIqProtocolEntity", "ErrorIqProtocolEntity",
      lambda r: (lambda j: (_G().ParticipantsGroupsIqProtocolEntity(j, [rjid(r)], "add"), j))(rgjid(r)),
      lambda r, i, j: _res(i, j, _parts(r)))


def _pres(r, i, j):
    return _res(i, j, [N(r.choice(["add", "remove", "promote"]), {"type": r.choice(["success", "fail"]),
                                                                     "participant": rjid(r)})
                       for _ in range(r.randint(1, 3))])


_greq("participants.add", "SuccessAddParticipantsIqProtocolEntity", "FailureAddParticipantsIqProtocolEntity",
      lambda r: (lambda j: (_G().AddParticipantsIqProtocolEntity(j, [rjid(r) for _ in range(r.randint(1, 3))]), j))(rgjid(r)),
      _pres)
_greq("participants.promote", "IqProtocolEntity", "ErrorIqProtocolEntity",
      lambda r: (lambda j: (_G().PromoteParticipantsIqProtocolEntity(j, [rjid(r)]), j))(rgjid(r)), _pres)
_greq("participants.demote", "IqProtocolEntity", "ErrorIqProtocolEntity",
      lambda r: (lambda j: (_G().DemoteParticipantsIqProtocolEntity(j, [rjid(r)]), j))(rgjid(r)), _pres)
_greq("participants.remove", "SuccessRemoveParticipantsIqProtocolEntity", "ErrorIqProtocolEntity",
      lambda r: (lambda j: (_G().RemoveParticipantsIqProtocolEntity(j, [rjid(r)]), j))(rgjid(r)), _pres)


def _P():
    import yowsup.layers.protocol_profiles.protocolentities as pe
    return pe


@req("picture.get", "profiles", "ResultGetPictureIqProtocolEntity", "ErrorIqProtocolEntity")
def _g(r):
    j = rjid(r) if r.random() < .6 else rgjid(r)          # a contact's picture or a group's icon
    return _P().GetPictureIqProtocolEntity(j, preview=r.random() < .5), \
        lambda i: _res(i, j, [N("picture", {"id": rts(r), "type": r.choice(["preview", "image"])}, None, r.randbytes(20))])


@req("picture.set", "profiles", "ResultGetPictureIqProtocolEntity", "ErrorIqProtocolEntity")
def _g(r):
    j = rjid(r) if r.random() < .6 else rgjid(r)
    return _P().SetPictureIqProtocolEntity(j, r.randbytes(10), r.randbytes(30)), \
        lambda i: _res(i, j, [N("picture", {"id": rts(r)}, None, None)])


@req("picture.list", "profiles", "ResultGetPictureIqProtocolEntity", "ErrorIqProtocolEntity")
def _g(r):
    j = rjid(r)
    return _P().ListPicturesIqProtocolEntity(j, [rjid(r) for _ in range(r.randint(1, 3))]), \
        lambda i: _res(i, j, [N("picture", {"id": rts(r), "type": "preview"}, None, r.randbytes(5))])


@req("privacy.get", "profiles", "ResultPrivacyIqProtocolEntity", "ErrorIqProtocolEntity")
def _g(r):
    return _P().GetPrivacyIqProtocolEntity(), \
        lambda i: _res(i, SRV, [N("privacy", {}, [N("category", {"name": n, "value": r.choice(["all", "contacts", "none"])})
                                                   for n in ("last", "status", "profile")])])


@req("privacy.set", "profiles", "ResultPrivacyIqProtocolEntity", "ErrorIqProtocolEntity")
def _g(r):
    return _P().SetPrivacyIqProtocolEntity(r.choice(["all", "contacts", "none"]), r.choice([None, ["last"], ["status", "profile"]])), \
        lambda i: _res(i, SRV, [N("privacy", {}, [N("category", {"name": "last", "value": "none"})])])


@req("statuses.get", "profiles", "ResultStatusesIqProtocolEntity", "ErrorIqProtocolEntity")
def _g(r):
    js = [rjid(r) for _ in range(r.randint(1, 3))]
    return _P().GetStatusesIqProtocolEntity(js), \
        lambda i: _res(i, SRV, [N("status", {}, [N("user", {"jid": j, "t": rts(r)}, None, rtxt(r).encode()) for j in js])])


@req("status.set", "profiles", "IqProtocolEntity", "ErrorIqProtocolEntity")
def _g(r):
    return _P().SetStatusIqProtocolEntity(rtxt(r).encode("utf-8")), lambda i: _res(i, SRV)


@req("requestupload", "media", "ResultRequestUploadIqProtocolEntity", "ErrorIqProtocolEntity")
def _g(r):
    from yowsup.layers.protocol_media.protocolentities import RequestUploadIqProtocolEntity
    e = RequestUploadIqProtocolEntity(r.choice(["image", "video", "audio"]), b64Hash=rid(r), size=r.randint(1, 10 ** 6),
                                      origHash=ropt(r, rid(r)))
    k = r.randint(0, 1)
    return e, lambda i: _res(i, SRV, [N("encr_media" if k else "duplicate",
                                         {"url": "https://mms/" + rid(r), "ip": "1.2.3.4", "resume": "0"})])


def by_name():
    return dict((k["name"], k) for k in KINDS)
