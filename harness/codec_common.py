"""Shared by C01 and C02: tree generators, canonical forms, implementation wrappers."""
import zlib

# canonical tree: (tag: bytes, attrs: [(bytes, bytes)], data: bytes|None, kids: [tree])


def impl_objects():
    from yowsup.layers.coder.encoder import WriteEncoder
    from yowsup.layers.coder.decoder import ReadDecoder
    from yowsup.layers.coder.tokendictionary import TokenDictionary
    d = TokenDictionary()
    return WriteEncoder(d), ReadDecoder(d), d


def to_py(t):
    from yowsup.structs import ProtocolTreeNode
    tag, attrs, data, kids = t
    ad = {}
    for k, v in attrs:
        ad[k.decode("latin-1")] = v.decode("latin-1")
    return ProtocolTreeNode(tag.decode("latin-1"), ad, [to_py(k) for k in kids] if kids else None, data)


class Reject(Exception):
    pass


def _s(x):
    if not isinstance(x, str):
        raise Reject("non-string %r" % type(x))
    try:
        return x.encode("latin-1")
    except UnicodeEncodeError:
        raise Reject("non latin-1")


def from_py(n):
    """ProtocolTreeNode -> canonical tree; raises Reject for nodes with None strings/children."""
    if n is None or n.tag is None:
        raise Reject("null")
    attrs = [(_s(k), _s(v)) for k, v in n.attributes.items()]
    data = n.data
    if data is not None and not isinstance(data, bytes):
        raise Reject("data not bytes")
    return (_s(n.tag), attrs, data, [from_py(c) for c in n.children])


def impl_encode(enc, t):
    """bytes or None (ValueError raised)"""
    try:
        out = enc.protocolTreeNodeToBytes(to_py(t))
        return bytes(bytearray(out))
    except ValueError:
        return None


def impl_decode(dec, b):
    """('ok', tree) | ('end',) | ('reject', exception class name)"""
    try:
        n = dec.getProtocolTreeNode(bytearray(b))
    except RecursionError:
        raise
    except Exception as e:
        return ("reject", type(e).__name__)
    if n is None:
        return ("end",)
    try:
        return ("ok", from_py(n))
    except Reject as e:
        return ("reject", "null-string")


def tree_to_sx(t):
    tag, attrs, data, kids = t
    return [tag, [[k, v] for k, v in attrs], [data] if data is not None else [], [tree_to_sx(k) for k in kids]]


def tree_from_sx(s):
    tag, attrs, data, kids = s
    return (tag, [(a[0], a[1]) for a in attrs], data[0] if data else None, [tree_from_sx(k) for k in kids])


def model_decode_result(r):
    """sx result of run_decode -> same shape as impl_decode"""
    if isinstance(r, tuple):
        return ("model-exn", r[1])
    if r[0] == 0:
        return ("ok", tree_from_sx(r[1]))
    if r[0] == 1:
        return ("end",)
    return ("reject", r[1])


def same_decode(a, b):
    if a[0] != b[0]:
        return False
    if a[0] == "ok":
        return a[1] == b[1]
    return True  # both reject / both end


def tree_json(t, limit=200):
    tag, attrs, data, kids = t
    return {"tag": tag.hex()[:limit], "attrs": [[k.hex()[:limit], v.hex()[:limit]] for k, v in attrs],
            "data": None if data is None else (data.hex() if len(data) <= limit else "len=%d:%s.." % (len(data), data[:16].hex())),
            "kids": [tree_json(k, limit) for k in kids[:50]] + ([{"more": len(kids) - 50}] if len(kids) > 50 else [])}


def tree_full_json(t):
    tag, attrs, data, kids = t
    return [tag.hex(), [[k.hex(), v.hex()] for k, v in attrs], None if data is None else data.hex(),
            [tree_full_json(k) for k in kids]]


def tree_from_full_json(j):
    tag, attrs, data, kids = j
    return (bytes.fromhex(tag), [(bytes.fromhex(k), bytes.fromhex(v)) for k, v in attrs],
            None if data is None else bytes.fromhex(data), [tree_from_full_json(k) for k in kids])


def tree_size(t):
    return 1 + sum(tree_size(k) for k in t[3])


# ------------------------------------------------------------------ generators

RESERVED = (b"xmlstreamstart", b"xmlstreamend")


class Gen(object):
    def __init__(self, rng, prim, sec):
        self.rng = rng
        self.prim = [w.encode("latin-1") for w in prim]
        self.sec = [w.encode("latin-1") for w in sec]
        self.words = [w for w in self.prim[3:] + self.sec if w]

    def ok_string(self, s, tagpos=False):
        return len(s) > 0 and not s.endswith(b"@") and s not in RESERVED

    def digits(self, n):
        return bytes(self.rng.choice(b"0123456789") for _ in range(n))

    def nib(self, n):
        return bytes(self.rng.choice(b"0123456789-.") for _ in range(n))

    def hexs(self, n):
        return bytes(self.rng.choice(b"0123456789ABCDEF") for _ in range(n))

    def text(self, n):
        r = self.rng
        return bytes(r.choice([r.randint(0, 255), r.randint(32, 126), r.choice(b"@-.09AFaf")]) for _ in range(n))

    def structured_user(self):
        """user parts made of numeric fields and separators, often NOT in canonical spelling (leading zeros, explicit
        .0, a sign, a trailing newline): any codec shortcut that parses fields into integers and prints them back
        alters these strings (device / agent jids, group ids, phone numbers)"""
        r = self.rng

        def d(lo, hi):
            return self.digits(r.randint(lo, hi))

        def z(x):
            return (b"0" * r.randint(1, 2) + x) if r.random() < .5 else x
        forms = [lambda: d(5, 15) + b":" + z(d(1, 3)),
                 lambda: d(5, 15) + b"." + z(d(1, 3)) + b":" + z(d(1, 3)),
                 lambda: d(5, 15) + b".0:" + d(1, 2),
                 lambda: z(d(1, 3)) + b":" + z(d(1, 3)),
                 lambda: d(8, 13) + b"-" + z(d(10, 10)),
                 lambda: b"+" + d(5, 13),
                 lambda: z(d(3, 10)),
                 lambda: d(5, 12) + b":" + d(1, 3) + b"\n",
                 lambda: d(5, 12) + b"_" + d(1, 2),
                 lambda: d(5, 12) + b":" + d(1, 3) + b"." + d(1, 3)]
        return r.choice(forms)()

    def length(self):
        r = self.rng
        c = r.random()
        if c < .55:
            return r.randint(1, 12)
        if c < .8:
            return r.choice([1, 2, 126, 127, 128, 129, 254, 255, 256, 257])
        if c < .95:
            return r.randint(13, 300)
        return r.randint(300, 3000)

    def plain(self):
        r = self.rng
        c = r.random()
        n = self.length()
        if c < .25:
            return r.choice(self.words)
        if c < .40:
            return self.digits(n)
        if c < .50:
            return self.nib(n)
        if c < .62:
            return self.hexs(n)
        if c < .70:  # near-packable: one offending char
            s = bytearray(self.hexs(n))
            s[r.randrange(len(s))] = r.choice(b"aGg/:@ \x00\xff")
            return bytes(s)
        return self.text(n)

    def string(self):
        r = self.rng
        for _ in range(100):
            c = r.random()
            if c < .6:
                s = self.plain()
            elif c < .68:
                s = self.structured_user() + b"@" + r.choice([b"s.whatsapp.net", b"s.whatsapp.net", b"g.us", b"c.us", b"lid"])
            elif c < .9:
                s = self.plain().replace(b"@", b"") + b"@" + r.choice([b"s.whatsapp.net", b"g.us", b"broadcast", self.plain()])
            elif c < .95:
                s = b"@".join(self.plain() for _ in range(r.randint(2, 5)))
            elif c < .98:
                s = b"@" + self.plain()
            else:
                s = r.choice(RESERVED) + b"@" + r.choice([b"s.whatsapp.net", self.plain()])
            if self.ok_string(s):
                return s
        return b"x"

    def data(self):
        r = self.rng
        c = r.random()
        if c < .1:
            return b""
        if c < .6:
            return r.randbytes(r.randint(1, 40))
        if c < .8:
            return r.randbytes(r.choice([255, 256, 257, 1000]))
        if c < .9:
            return self.digits(r.randint(1, 20))
        return r.randbytes(r.randint(1, 5000))

    def attrs(self, n):
        out, seen = [], set()
        while len(out) < n:
            k = self.string()
            if k in seen:
                continue
            seen.add(k)
            out.append((k, self.string()))
        return out

    def tree(self, depth=0, maxdepth=4):
        r = self.rng
        tag = self.string()
        na = r.choice([0, 0, 1, 1, 2, 3, 5]) if r.random() < .97 else r.choice([126, 127, 128, 129])
        attrs = self.attrs(na)
        c = r.random()
        if depth >= maxdepth or c < .3:
            return (tag, attrs, None, [])
        if c < .6:
            return (tag, attrs, self.data(), [])
        nk = r.choice([1, 1, 2, 3, 4]) if r.random() < .97 or depth > 0 else r.choice([254, 255, 256, 257])
        return (tag, attrs, None, [self.tree(depth + 1, maxdepth) if nk < 100 else (self.string(), [], None, []) for _ in range(nk)])


def boundary_trees(gen, tier):
    """deterministic boundary set derived from the model's branch conditions"""
    out = []
    leaf = lambda tag: (tag, [], None, [])
    # every dictionary word as tag / key / value / jid user / jid server
    for w in gen.words:
        if w in RESERVED or w.endswith(b"@"):
            continue
        out.append((w, [(w, w)], None, []))
        if b"@" not in w:
            out.append((b"a", [(b"k", w + b"@s.whatsapp.net"), (b"j", b"123@" + w)], None, []))
    # packed strings of every length 1..255, odd and even, digits / nibble alphabet / hex
    for n in range(1, 256):
        d = (b"1234567890" * 26)[:n]
        nb = (b"0-.9" * 64)[:n]
        h = (b"0A1B2C3D4E5F" * 22)[:n]
        out.append((b"a", [(b"d", d), (b"n", nb), (b"h", h), (d + b"x", b"v"), (b"u", d + b"@s.whatsapp.net")], None, []))
    # length classes of raw strings and data
    for n in (1, 127, 128, 255, 256, 257, 65535, 65536):
        out.append((b"a", [(b"k", b"z" * n)], b"\x00" * n, []))
        out.append((b"y" * n, [], None, []))
    # list sizes: attributes 126..129 (header 253..259), children 255/256/257
    for na in (126, 127, 128, 129):
        attrs = [(b"k%d" % i, b"v") for i in range(na)]
        out.append((b"a", attrs, None, []))
        out.append((b"a", attrs, b"d", []))
        out.append((b"a", attrs, None, [leaf(b"c")]))
    for nk in (255, 256, 257):
        out.append((b"a", [], None, [leaf(b"c")] * nk))
    # reserved words as jid components, leading '@', many '@'
    for s in (b"xmlstreamstart@s.whatsapp.net", b"xmlstreamend@g.us", b"a@xmlstreamstart", b"@a", b"a@@b", b"a@b@c@d", b"@@a"):
        out.append((b"a", [(b"k", s), (s, b"v")], None, []))
    out.append((b"a", [], b"", []))
    if tier == "thorough":
        big = bytes(1 << 20)
        out.append((b"a", [], big, []))                                     # top-level, last
        out.append((b"a", [], None, [(b"b", [], big, []), leaf(b"c")]))     # followed by a sibling
        out.append((b"a", [], None, [leaf(b"c"), (b"b", [], big + b"x", [])]))
        out.append((b"a", [(b"k", b"v" * (1 << 20))], None, [leaf(b"c")]))  # 31-bit attribute value
        out.append((b"a", [], None, [(b"b", [], None, [(b"c", [], bytes((1 << 20) + 5), [])])]))
        out.append((b"a", [], None, [leaf(b"c")] * 65535))
    return out


def oversize_trees():
    leaf = (b"c", [], None, [])
    return [(b"a", [], None, [leaf] * 65536),
            (b"a", [(b"k%d" % i, b"v") for i in range(32768)], None, [])]
