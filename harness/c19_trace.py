"""C19 helper: observe the file operations of one real ConfigManager.save as an op list.

Primary: `strace -f` around a one-shot /venv/bin/python process.  Fallback (strace missing or
not permitted): the same one-shot process intercepts builtins.open / os.rename / os.replace /
os.fsync / os.mkdir in-process and prints the op list.  Ops (paths are absolute str):
  ("mkdir", d) ("open_trunc", p) ("write", p, bytes) ("fsync", p) ("close", p)
  ("rename", a, b) ("unlink", p) ("fail", syscall, p, errno)  ("open_other", p, flags)
Only paths equal to / under `keep_root` are kept.
"""
import os, re, sys, json, shutil, subprocess

ONESHOT = r'''
import sys, os, json
sys.path.insert(0, %(verif)r)
from harness import env
env.setup(os.environ["XDG_CONFIG_HOME"])
job = json.load(open(sys.argv[1]))
from harness.props import C19 as H
cfg = H.cfg_from_spec(job["spec"])
from yowsup.config.manager import ConfigManager
if job.get("intercept"):
    from harness import c19_trace
    c19_trace.install_intercept(job["keep_root"], job["intercept"])
try:
    if job.get("dest"):
        ConfigManager().save(job["profile"], cfg, job["fmt"], dest=job["dest"])
    else:
        ConfigManager().save(job["profile"], cfg, job["fmt"])
    rc = 0
except Exception as e:
    sys.stderr.write("SAVE-RAISED %%s %%s\n" %% (type(e).__name__, e))
    rc = 3
sys.stdout.flush(); sys.stderr.flush()
os._exit(rc)
'''


def have_strace():
    exe = shutil.which("strace")
    if not exe:
        return False
    try:
        p = subprocess.run([exe, "-f", "-e", "trace=close", "/bin/true"], capture_output=True, timeout=20)
        return p.returncode == 0
    except Exception:
        return False


_unesc = re.compile(r'\\x([0-9a-fA-F]{2})')


def _cstr(s):
    """strace -xx string literal body -> bytes"""
    if "\\" in s.replace("\\x", ""):
        raise ValueError("unexpected escape in strace string: %r" % s[:60])
    return bytes.fromhex("".join(_unesc.findall(s)))


_line = re.compile(r'^(\d+)\s+(\w+)\((.*)\)\s+=\s+(-?\d+)(?:\s+(\w+))?.*$')
_str = r'"((?:\\x[0-9a-fA-F]{2})*)"(\.\.\.)?'


def parse_strace(text, keep_root):
    keep = keep_root.rstrip("/")

    def kept(p):
        return p == keep or p.startswith(keep + "/")
    fds = {}
    ops = []
    for raw in text.splitlines():
        if "unfinished" in raw or "resumed" in raw:
            if keep.encode().hex() in raw.replace("\\x", ""):
                raise ValueError("interleaved strace line touching the profile dir: %r" % raw[:120])
            continue
        m = _line.match(raw)
        if not m:
            continue
        pid, call, args, ret, err = m.group(1), m.group(2), m.group(3), int(m.group(4)), m.group(5)
        if call == "openat":
            mm = re.match(r'\w+,\s*' + _str + r',\s*([A-Z_|0-9a-zx]+)', args)
            if not mm:
                continue
            if mm.group(2):
                raise ValueError("truncated strace string")
            p = _cstr(mm.group(1)).decode("utf-8", "surrogateescape")
            flags = mm.group(3).split("|")
            if not kept(p):
                continue
            if "O_RDONLY" in flags:
                continue
            if ret < 0:
                ops.append(("fail", "openat", p, err))
                continue
            fds[(pid, ret)] = p
            if "O_TRUNC" in flags and "O_CREAT" in flags and ("O_WRONLY" in flags or "O_RDWR" in flags) \
                    and "O_EXCL" not in flags and "O_APPEND" not in flags:
                ops.append(("open_trunc", p))
            else:
                ops.append(("open_other", p, "|".join(flags)))
        elif call == "write":
            mm = re.match(r'(\d+),\s*' + _str, args)
            if not mm:
                continue
            fd = (pid, int(mm.group(1)))
            if fd not in fds:
                continue
            if mm.group(3):
                raise ValueError("truncated strace write data")
            data = _cstr(mm.group(2))
            if ret < 0:
                ops.append(("fail", "write", fds[fd], err))
            else:
                ops.append(("write", fds[fd], data[:ret]))
        elif call in ("fsync", "fdatasync", "close"):
            mm = re.match(r'(\d+)', args)
            fd = (pid, int(mm.group(1))) if mm else None
            if fd in fds:
                ops.append(("fsync" if call != "close" else "close", fds[fd]))
                if call == "close":
                    del fds[fd]
        elif call in ("rename", "renameat", "renameat2"):
            ss = re.findall(_str, args)
            if len(ss) != 2:
                continue
            a, b = (_cstr(x[0]).decode("utf-8", "surrogateescape") for x in ss)
            if not (kept(a) or kept(b)):
                continue
            if ret < 0:
                ops.append(("fail", "rename", a, err))
                continue
            ops.append(("rename", a, b))
            for k, v in list(fds.items()):
                if v == a:
                    fds[k] = b
        elif call in ("unlink", "unlinkat", "mkdir", "mkdirat"):
            ss = re.findall(_str, args)
            if not ss:
                continue
            p = _cstr(ss[0][0]).decode("utf-8", "surrogateescape")
            if not kept(p):
                continue
            kind = "unlink" if call.startswith("unlink") else "mkdir"
            if ret < 0:
                if err != "EEXIST":
                    ops.append(("fail", kind, p, err))
                continue
            ops.append((kind, p))
    return ops


def run_save(scratch, job, use_strace):
    """Run one real save in a fresh interpreter; returns (ops, returncode, stderr)."""
    os.makedirs(scratch, exist_ok=True)
    script = os.path.join(scratch, "c19_oneshot.py")
    if not os.path.exists(script):
        with open(script, "w") as f:
            f.write(ONESHOT % {"verif": os.path.dirname(os.path.dirname(os.path.abspath(__file__)))})
    jobf = os.path.join(scratch, "c19_job.json")
    env = dict(os.environ)
    if use_strace:
        tracef = os.path.join(scratch, "c19_trace.txt")
        json.dump(job, open(jobf, "w"))
        cmd = ["strace", "-f", "-o", tracef, "-s", "2000000", "-xx", "-e",
               "trace=openat,write,rename,renameat,renameat2,fsync,fdatasync,close,unlink,unlinkat,mkdir,mkdirat",
               sys.executable, script, jobf]
        p = subprocess.run(cmd, capture_output=True, text=True, timeout=120, env=env)
        ops = parse_strace(open(tracef, errors="surrogateescape").read(), job["keep_root"])
        return ops, p.returncode, p.stderr
    out = os.path.join(scratch, "c19_ops.json")
    job = dict(job, intercept=out)
    json.dump(job, open(jobf, "w"))
    p = subprocess.run([sys.executable, script, jobf], capture_output=True, text=True, timeout=120, env=env)
    ops = []
    if os.path.exists(out):
        for o in json.load(open(out)):
            if o[0] == "write":
                o = ["write", o[1], bytes.fromhex(o[2])]
            ops.append(tuple(o))
        os.remove(out)
    return ops, p.returncode, p.stderr


def install_intercept(keep_root, outfile):
    """In-process fallback: record file operations under keep_root and dump them at exit."""
    import builtins, atexit
    keep = keep_root.rstrip("/")
    ops = []

    def kept(p):
        p = os.fspath(p)
        return isinstance(p, str) and (p == keep or p.startswith(keep + "/"))

    def dump():
        json.dump(ops, open(outfile, "w"))
    real_open = builtins.open

    class Proxy(object):
        def __init__(self, f, path, enc):
            self._f, self._p, self._enc = f, path, enc
            self._pending = b""

        def _emit(self):
            # small writes reach the OS when Python's buffer is flushed (flush or close)
            if self._pending:
                ops.append(["write", self._p, self._pending.hex()])
                self._pending = b""
                dump()

        def write(self, data):
            b = data.encode(self._enc) if isinstance(data, str) else bytes(data)
            self._f.write(data)
            self._pending += b
            if len(self._pending) >= 8192:
                self._f.flush()
                self._emit()

        def flush(self):
            self._f.flush()
            self._emit()

        def fileno(self):
            return self._f.fileno()

        def close(self):
            self._f.close()
            self._emit()
            ops.append(["close", self._p])
            dump()

        def __enter__(self):
            return self

        def __exit__(self, *a):
            self.close()

    def my_open(file, mode="r", *a, **k):
        if isinstance(file, (str, bytes)) and kept(file) and ("w" in mode):
            try:
                f = real_open(file, mode, *a, **k)
            except OSError as e:
                ops.append(["fail", "openat", file, e.__class__.__name__])
                dump()
                raise
            ops.append(["open_trunc", file])
            dump()
            return Proxy(f, file, getattr(f, "encoding", None) or "utf-8")
        return real_open(file, mode, *a, **k)
    builtins.open = my_open
    fdpaths = {}
    for name in ("rename", "replace"):
        real = getattr(os, name)

        def wrap(a, b, real=real):
            real(a, b)
            if kept(a) or kept(b):
                ops.append(["rename", a, b])
                dump()
        setattr(os, name, wrap)
    real_mkdir = os.mkdir

    def my_mkdir(p, *a, **k):
        real_mkdir(p, *a, **k)
        if kept(p):
            ops.append(["mkdir", os.fspath(p)])
            dump()
    os.mkdir = my_mkdir
    real_fsync = os.fsync

    def my_fsync(fd):
        real_fsync(fd)
        try:
            p = os.readlink("/proc/self/fd/%d" % fd)
        except OSError:
            p = None
        if p and kept(p):
            ops.append(["fsync", p])
            dump()
    os.fsync = my_fsync
    atexit.register(dump)
