"""Python environment for every harness entry point: /repo on sys.path, third-party shims.

The shims adapt packages pinned for Python <= 3.7 to the 3.12 interpreter of this sandbox;
they are not changes to yowsup (DESIGN.md section 3.3) and are part of the trusted base.
"""
import os, sys, importlib.util

REPO = os.environ.get("YV_REPO", "/repo")
VERIF = os.path.dirname(os.path.dirname(os.path.abspath(__file__)))

if REPO not in sys.path:
    sys.path.insert(0, REPO)


def _shim_six():
    import six
    imp = six._importer
    cls = type(imp)
    if not hasattr(cls, "find_spec"):
        def find_spec(self, fullname, path=None, target=None):
            if fullname in self.known_modules:
                return importlib.util.spec_from_loader(fullname, self)
            return None

        def create_module(self, spec):
            return self.load_module(spec.name)

        def exec_module(self, module):
            pass
        cls.find_spec = find_spec
        cls.create_module = create_module
        cls.exec_module = exec_module
    if imp not in sys.meta_path:
        sys.meta_path.append(imp)


def _shim_consonance():
    try:
        import consonance.handshake as h
    except Exception:
        return
    import random as _r

    class _R(object):
        def __getattr__(self, name):
            return getattr(_r, name)

        def randint(self, a, b):
            return _r.randint(int(a), int(b))
    h.random = _R()


_done = False


def setup(scratch=None):
    """Install shims; point XDG config at a scratch dir so no real profile is touched."""
    global _done
    if scratch:
        os.environ["XDG_CONFIG_HOME"] = scratch
        os.environ["HOME"] = scratch
    if _done:
        return
    _shim_six()
    _shim_consonance()
    import logging
    logging.disable(logging.CRITICAL)
    _done = True
