"""World simulator (E-sim, DESIGN.md section 3.5): several real yowsup accounts against one server double.

Per account a real YowStack
    (recording bottom, AxolotlControlLayer, YowParallelLayer((AxolotlSendLayer, AxolotlReceivelayer)),
     YowParallelLayer(protocol layers), recording top)
with its own profile directory and a real SQLite axolotl store.  The server double routes message
stanzas, fans group messages out per participant, keeps a prekey directory, answers w:g2 group-info,
forwards receipts, issues acks, and can duplicate a delivery, corrupt one ciphertext, hold and reorder
queued stanzas.  Every server->client delivery is an entry of `World.pending`; the *schedule* is the
explicit list of indices picked from it, so a run replays exactly from (script, schedule).

A restart / reinstall of an account plays the end of its process: the stack is dropped AND the library's sqlite
connection is closed without a commit (writes left in an open transaction are lost, as at a real exit); the new
stack opens the store afresh.

Used by harness/props/C17.py and harness/props/C03.py.  Only public yowsup APIs are used, except:
`AxolotlManager.COUNT_GEN_PREKEYS` (class constant, made small), the profile's `axolotl_manager`
property (read-only, for observing the store), and `YowLayer.toLower/toUpper`.
"""
import os, gc, shutil

T0 = 1500000000
SERVER = "s.whatsapp.net"


def jid_of(phone):
    return "%s@%s" % (phone, SERVER)


def _imports():
    from yowsup.layers import YowLayer, YowLayerEvent, YowParallelLayer
    from yowsup.layers.network.layer import YowNetworkLayer
    from yowsup.layers.auth.layer_authentication import YowAuthenticationProtocolLayer
    from yowsup.layers.axolotl import AxolotlSendLayer, AxolotlControlLayer, AxolotlReceivelayer
    from yowsup.layers.axolotl.props import PROP_IDENTITY_AUTOTRUST
    from yowsup.stacks.yowstack import YowStack, YowStackBuilder
    from yowsup.profile.profile import YowProfile
    from yowsup.config.v1.config import Config
    from yowsup.structs import ProtocolTreeNode
    from yowsup.axolotl.manager import AxolotlManager
    return locals()


_shimmed = False


def shim_axolotl_padding():
    """DECLARED THIRD-PARTY SHIM.  python-axolotl 0.2.2 (pinned by yowsup) pads the AES-CBC input with PKCS7
    only when it is not block aligned, while decrypt always unpads; with yowsup's 1..255 random padding bytes
    about one encryption in sixteen cannot be decrypted (ValueError / wrong plaintext).  python-axolotl >= 0.2.3
    and libsignal always pad; the world simulator runs with that behaviour.  The un-shimmed behaviour is probed
    separately by C03 (open known finding).  Returns the original function so a probe can restore it."""
    global _shimmed
    import axolotl.sessioncipher as sc
    from cryptography.hazmat.primitives import padding
    orig = sc.AESCipher.encrypt
    if _shimmed:
        return getattr(sc.AESCipher, "_yv_orig_encrypt", orig)

    def encrypt(self, raw):
        padder = padding.PKCS7(128).padder()
        enc = self.cipher.encryptor()
        return enc.update(padder.update(bytes(raw)) + padder.finalize()) + enc.finalize()
    sc.AESCipher._yv_orig_encrypt = orig
    sc.AESCipher.encrypt = encrypt
    _shimmed = True
    return orig


_STORE_CONNS = {}     # real path of a store file -> connections the library opened on it (see close_store_connections)


def close_store_connections(path):
    """What the end of the process does to the library's sqlite connections on `path`: they are closed WITHOUT a
    commit, so a transaction still open is rolled back and its writes are lost, exactly as when the interpreter
    exits (sqlite3 never commits on close).  Needed because a dropped stack is not garbage: yowsup's ping thread
    keeps every layer - and through the profile the AxolotlManager and its connection - alive for the rest of the
    run, with its open transaction and its write lock."""
    for c in _STORE_CONNS.pop(os.path.realpath(path), []):
        try:
            c.close()
        except Exception:
            pass


def relax_sqlite_fsync():
    """The simulator opens the axolotl stores with PRAGMA synchronous=OFF: commits keep their transactional
    meaning for every connection (restart = new connection over the same file sees exactly the committed rows),
    only the fsync to the medium is elided (crash durability is C13's subject, not the simulator's).
    The wrapper also registers every connection the library opens, per store file, so that the end of a process
    can be played faithfully (close_store_connections)."""
    import sqlite3
    import yowsup.axolotl.store.sqlite.liteaxolotlstore as las
    if getattr(las.sqlite3, "_yv_relaxed", False):
        return

    class _Sqlite(object):
        _yv_relaxed = True

        def __getattr__(self, name):
            return getattr(sqlite3, name)

        def connect(self, *a, **kw):
            c = sqlite3.connect(*a, **kw)
            c.execute("PRAGMA synchronous=OFF")
            if a and isinstance(a[0], str) and not kw.get("uri"):
                _STORE_CONNS.setdefault(os.path.realpath(a[0]), []).append(c)
            return c
    las.sqlite3 = _Sqlite()


class PadRng(object):
    """Stands in for the `random` module inside yowsup.axolotl.manager: the padding lengths are drawn from the
    check's seeded generator so that runs replay exactly."""

    def __init__(self, rng):
        self.rng = rng
        self.draws = 0

    def randint(self, a, b):
        self.draws += 1
        return self.rng.randint(a, b)

    def __getattr__(self, name):
        import random
        return getattr(random, name)


def clone_node(n):
    from yowsup.structs import ProtocolTreeNode
    return ProtocolTreeNode(n.tag, dict(n.attributes), [clone_node(c) for c in n.getAllChildren()] or None,
                            n.getData())


def node_repr(n, depth=0):
    """Stable canonical dump of a ProtocolTreeNode (tag, sorted attrs, data hex, children)."""
    d = n.getData()
    if isinstance(d, str):
        d = d.encode("latin-1")
    return (n.tag, tuple(sorted((k, str(v)) for k, v in n.attributes.items())),
            bytes(d).hex() if d is not None else None,
            tuple(node_repr(c, depth + 1) for c in n.getAllChildren()))


class Delivery(object):
    """One queued server->client stanza."""
    __slots__ = ("dst", "node", "kind", "meta", "serial")

    def __init__(self, dst, node, kind, meta, serial):
        self.dst, self.node, self.kind, self.meta, self.serial = dst, node, kind, meta, serial


class Account(object):
    def __init__(self, world, idx, phone, autotrust=False):
        self.world, self.idx, self.phone = world, idx, phone
        self.jid = jid_of(phone)
        self.autotrust = autotrust
        self.stack = None
        self.incarnation = 0      # restarts + reinstalls
        self.generation = 0       # reinstalls only (identity generation)
        self.trace = []           # (where, obj) where in {"app","bot_out","bot_in","top"}; plus ("mark", ...)
        self.errors = []          # per-jid errors reported by on_get_keys_process_errors
        self.crashed = None
        self.profile = None

    # ---- lifecycle -------------------------------------------------------------------------
    def profile_dir(self):
        from yowsup.common.tools import StorageTools
        return StorageTools.getStorageForProfile(self.phone)

    def start(self):
        m = self.world.m
        world, acct = self.world, self
        YowLayer = m["YowLayer"]

        class Bottom(YowLayer):
            def send(self, node):
                acct.trace.append(("bot_out", node))
                if world.observer:
                    world.observer.on_out(acct, node)
                world.on_client_out(acct, node)

            def receive(self, node):
                self.toUpper(node)

            def onEvent(self, ev):
                # plays the network layer: a requested disconnect is swallowed (no reconnect dance)
                return ev.getName() == m["YowNetworkLayer"].EVENT_STATE_DISCONNECT

        class Top(YowLayer):
            def receive(self, entity):
                acct.trace.append(("top", entity))
                if world.observer:
                    world.observer.on_top(acct, entity)
                tag = entity.getTag() if hasattr(entity, "getTag") else None
                if tag == "message" and world.top_acks:
                    self.toLower(entity.ack())
                elif tag == "receipt" and world.top_acks:
                    self.toLower(entity.ack())

            def send(self, entity):
                self.toLower(entity)

        os.makedirs(self.profile_dir(), exist_ok=True)
        m["AxolotlManager"].COUNT_GEN_PREKEYS = world.prekeys
        self.bottom, self.top = Bottom(), Top()
        layers = (self.bottom, m["AxolotlControlLayer"],
                  m["YowParallelLayer"]((m["AxolotlSendLayer"], m["AxolotlReceivelayer"])),
                  m["YowParallelLayer"](m["YowStackBuilder"].getProtocolLayers()), self.top)
        self.stack = m["YowStack"](layers, reversed=False)
        self.profile = m["YowProfile"](self.phone, m["Config"](phone=self.phone))
        self.stack.setProp("profile", self.profile)
        if self.autotrust:
            self.stack.setProp(m["PROP_IDENTITY_AUTOTRUST"], True)
        self.incarnation += 1
        self.trace.append(("mark", ("start", self.incarnation, self.generation)))
        self._hook_errors()
        self.bottom.emitEvent(m["YowLayerEvent"](m["YowNetworkLayer"].EVENT_STATE_CONNECTED))
        self.inject(m["ProtocolTreeNode"]("success", {"t": str(T0), "creation": str(T0), "props": "1",
                                                     "location": "atn"}), record=False)

    def _hook_errors(self):
        """Observe the per-jid error report of the send path (anchor: layer_send.on_get_keys_process_errors)."""
        acct = self
        send_layer = self.find_layer("AxolotlSendLayer")
        if send_layer is not None and hasattr(send_layer, "on_get_keys_process_errors"):
            orig = send_layer.on_get_keys_process_errors

            def wrapped(errors):
                for jid, e in errors.items():
                    acct.errors.append((jid, type(e).__name__))
                    acct.trace.append(("err", (jid, type(e).__name__)))
                    if acct.world.observer:
                        acct.world.observer.on_err(acct, jid, type(e).__name__)
                return orig(errors)
            send_layer.on_get_keys_process_errors = wrapped

    def find_layer(self, clsname):
        i = 0
        while True:
            try:
                l = self.stack.getLayer(i)
            except IndexError:
                return None
            for s in getattr(l, "sublayers", (l,)):
                if s.__class__.__name__ == clsname:
                    return s
            i += 1

    def stop(self):
        """The process of this account ends: the stack is dropped and - unless the world was built with
        exit_closes_store=False - the library's store connection is closed without a commit (uncommitted writes
        are lost, as at a real exit)."""
        self.stack = None
        self.bottom = self.top = None
        self.profile = None
        if self.world.exit_closes_store:
            close_store_connections(os.path.join(self.profile_dir(), "axolotl.db"))

    def restart(self):
        self.stop()
        self.trace.append(("mark", ("restart",)))
        if self.world.observer:
            self.world.observer.on_mark(self, "restart")
        self.start()

    def own_identity_row(self):
        """(public key bytes, private key bytes) of this account's own identity, read from its store through a
        read-only connection of the harness's own (identities table, row -1: the state the C17 anchors name)."""
        import sqlite3
        p = os.path.join(self.profile_dir(), "axolotl.db")
        c = sqlite3.connect("file:%s?mode=ro" % p, uri=True)
        try:
            row = c.execute("SELECT public_key, private_key FROM identities WHERE recipient_id = -1").fetchone()
        finally:
            c.close()
        return (bytes(row[0]), bytes(row[1])) if row else None

    def reinstall(self, clone_of=None):
        """Fresh identity + fresh prekeys under the same number (the axolotl store is wiped).
        clone_of=<Account>: the fresh installation carries that account's IDENTITY KEY PAIR (the same installation
        moved to this number, or a copied key): the library creates the new store (own registration id), the own
        identity row is then overwritten with the other account's key pair before the stack starts; prekeys and
        the signed prekey are generated by the library on start, signed by that identity, and uploaded under this
        account's number.  Two contacts of a third account then hold the same identity key."""
        d = self.profile_dir()
        donor = clone_of.own_identity_row() if clone_of is not None else None
        self.stop()
        for fn in os.listdir(d):
            if fn.startswith("axolotl.db"):
                os.remove(os.path.join(d, fn))
        if donor is not None:
            import sqlite3
            from yowsup.axolotl.store.sqlite.liteaxolotlstore import LiteAxolotlStore
            p = os.path.join(d, "axolotl.db")
            LiteAxolotlStore(p)                    # tables + a fresh own identity and registration id, committed
            close_store_connections(p)
            c = sqlite3.connect(p)
            try:
                c.execute("UPDATE identities SET public_key = ?, private_key = ? WHERE recipient_id = -1", donor)
                c.commit()
            finally:
                c.close()
        self.generation += 1
        self.trace.append(("mark", ("reinstall", self.generation)))
        if self.world.observer:
            self.world.observer.on_mark(self, "reinstall")
        self.start()

    # ---- I/O -------------------------------------------------------------------------------
    def inject(self, node, record=True):
        obs = self.world.observer if record else None
        if record:
            self.trace.append(("bot_in", node))
        if obs:
            obs.before_in(self, node)
        self.bottom.receive(node)
        if obs:
            obs.after_in(self, node)

    def app_send(self, entity):
        self.trace.append(("app", entity))
        obs = self.world.observer
        if obs:
            obs.on_app(self, entity)
        self.top.send(entity)
        if obs:
            obs.after_input(self)

    # ---- observation -----------------------------------------------------------------------
    @property
    def manager(self):
        return self.profile.axolotl_manager

    def own_identity(self):
        return self.manager.identity.getPublicKey().serialize()

    def identities_table(self):
        """recipient_id(str) -> public key bytes, read through a separate read-only connection."""
        import sqlite3
        p = os.path.join(self.profile_dir(), "axolotl.db")
        if not os.path.exists(p):
            return {}
        c = sqlite3.connect("file:%s?mode=ro" % p, uri=True)
        try:
            rows = c.execute("SELECT recipient_id, public_key FROM identities WHERE recipient_id != -1").fetchall()
        finally:
            c.close()
        return dict((str(r), bytes(k)) for r, k in rows)

    def session_info(self, peer_phone):
        """(alice base key bytes, remote identity bytes) of the *current* session state, or None."""
        st = self.manager._store
        if not st.containsSession(peer_phone, 1):
            return None
        s = st.loadSession(peer_phone, 1).getSessionState()
        rid = s.getRemoteIdentityKey()
        return (bytes(s.getAliceBaseKey()), rid.serialize() if rid is not None else None)


class World(object):
    def __init__(self, scratch, phones, autotrust=None, prekeys=12, top_acks=True, pad_rng=None, shim=True, record=True,
                 exit_closes_store=True):
        self.m = _imports()
        self.exit_closes_store = exit_closes_store
        import logging
        import yowsup.axolotl.manager as mgr
        logging.getLogger(mgr.__name__).setLevel(logging.ERROR)
        if shim:
            shim_axolotl_padding()
        if pad_rng is not None:
            mgr.random = PadRng(pad_rng)
        relax_sqlite_fsync()
        self.scratch = scratch
        self.prekeys = prekeys
        self.top_acks = top_acks
        autotrust = autotrust or {}
        self.accounts = [Account(self, i, p, autotrust.get(i, False)) for i, p in enumerate(phones)]
        self.by_jid = dict((a.jid, a) for a in self.accounts)
        self.groups = {}          # group jid -> (creator jid, [participant jids])
        self.directory = {}       # jid -> {"identity","registration","type","skey":(id,val,sig),"keys":[(id,val)]}
        self.pending = []         # list[Delivery]
        self.serial = 0
        self.nserial = 0          # notifications issued
        self.log = []             # server-side log of routed things
        self.faults = []
        self.strict = True
        self.observer = None
        self.corrupted = {}       # corrupted ciphertext bytes -> original bytes
        self.hidden_keys = {}     # opt-in (C17): jid -> "empty" | "bare" | "stripped": the key directory answers
                                  # get-keys for that jid WITHOUT an identity (jid left out of <list/>, a <user jid/>
                                  # node with no children, a <user> node with everything but <identity>); empty =
                                  # the server double behaves exactly as before
        for a in self.accounts:
            d = a.profile_dir()
            if os.path.isdir(d):
                shutil.rmtree(d)
        for a in self.accounts:
            a.start()
        self.drain()
        self.observer = Recorder(self) if record else None

    # ---- server: stanzas from clients ----------------------------------------------------------
    def _enqueue(self, dst, node, kind, meta=None):
        self.serial += 1
        self.pending.append(Delivery(dst, node, kind, meta or {}, self.serial))

    def on_client_out(self, acct, node):
        N = self.m["ProtocolTreeNode"]
        tag = node.tag
        if tag == "iq":
            xmlns, typ = node["xmlns"], node["type"]
            if xmlns == "encrypt" and typ == "set":
                self._keys_set(acct, node)
                self._enqueue(acct, N("iq", {"type": "result", "id": node["id"], "from": SERVER}), "iq-result",
                              {"req": "setkeys"})
            elif xmlns == "encrypt" and typ == "get":
                self._enqueue(acct, self._keys_get(acct, node), "iq-result", {"req": "getkeys"})
            elif xmlns == "w:g2" and typ == "get":
                self._enqueue(acct, self._group_info(node), "iq-result", {"req": "groupinfo"})
            else:
                self.log.append(("unhandled-iq", acct.idx, node_repr(node)))
        elif tag == "message":
            self._route_message(acct, node)
        elif tag == "receipt":
            self._route_receipt(acct, node)
        elif tag == "ack":
            self.log.append(("ack", acct.idx, node["class"], node["id"]))
        else:
            self.log.append(("unhandled", acct.idx, node_repr(node)))

    def _keys_set(self, acct, node):
        def data(n):
            d = n.getData()
            return d.encode("latin-1") if isinstance(d, str) else bytes(d)
        ent = self.directory.get(acct.jid)
        ident = data(node.getChild("identity"))
        if ent is None or ent["identity"] != ident:
            ent = {"keys": []}
        ent["identity"] = ident
        ent["registration"] = data(node.getChild("registration"))
        ent["type"] = data(node.getChild("type"))
        sk = node.getChild("skey")
        ent["skey"] = (data(sk.getChild("id")), data(sk.getChild("value")), data(sk.getChild("signature")))
        for k in node.getChild("list").getAllChildren("key"):
            ent["keys"].append((data(k.getChild("id")), data(k.getChild("value"))))
        self.directory[acct.jid] = ent

    def _keys_get(self, acct, node):
        N = self.m["ProtocolTreeNode"]
        users = []
        for u in node.getChild("key").getAllChildren("user"):
            ent = self.directory.get(u["jid"])
            shape = self.hidden_keys.get(u["jid"]) if self.hidden_keys else None
            if ent is None or shape == "empty":
                continue
            if shape == "bare":
                users.append(N("user", {"jid": u["jid"]}))
                continue
            ch = [N("registration", data=ent["registration"]), N("type", data=ent["type"]),
                  N("identity", data=ent["identity"]),
                  N("skey", {}, [N("id", data=ent["skey"][0]), N("value", data=ent["skey"][1]),
                                 N("signature", data=ent["skey"][2])])]
            if ent["keys"]:
                kid, kval = ent["keys"].pop(0)
                ch.append(N("key", {}, [N("id", data=kid), N("value", data=kval)]))
            if shape == "stripped":
                ch = [c for c in ch if c.tag != "identity"]
            users.append(N("user", {"jid": u["jid"]}, ch))
        return N("iq", {"type": "result", "id": node["id"], "from": SERVER}, [N("list", {}, users)])

    def _group_info(self, node):
        N = self.m["ProtocolTreeNode"]
        gjid = node["to"]
        creator, parts = self.groups[gjid]
        g = N("group", {"id": gjid.split("@")[0], "creator": creator, "creation": str(T0), "subject": "g",
                        "s_t": str(T0), "s_o": creator},
              [N("participant", {"jid": p}) for p in parts])
        return N("iq", {"type": "result", "id": node["id"], "from": gjid}, [g])

    def _route_message(self, acct, node):
        N = self.m["ProtocolTreeNode"]
        to = node["to"]
        self._enqueue(acct, N("ack", {"class": "message", "id": node["id"], "from": to, "t": str(T0)}), "ack")
        base = {"id": node["id"], "type": node["type"], "t": str(T0), "notify": "n%d" % acct.idx}
        others = [c for c in node.getAllChildren() if c.tag not in ("participants", "enc")]
        if to in self.groups:
            _, parts = self.groups[to]
            common = [c for c in node.getAllChildren("enc")]
            per = {}
            pn = node.getChild("participants")
            if pn is not None:
                for t in pn.getAllChildren("to"):
                    per[t["jid"]] = t.getAllChildren("enc")
            directed = node["participant"]
            if directed is not None:
                rcpts = [directed]
            else:
                rcpts = [p for p in parts if p != acct.jid]
            for r in rcpts:
                dst = self.by_jid.get(r)
                if dst is None or (self.strict and r not in parts):
                    continue
                attrs = dict(base)
                attrs["from"] = to
                attrs["participant"] = acct.jid
                kids = [clone_node(c) for c in per.get(r, [])] + [clone_node(c) for c in common] + \
                       [clone_node(c) for c in others]
                self._enqueue(dst, N("message", attrs, kids), "message",
                              {"sender": acct.idx, "id": node["id"], "group": to})
        else:
            dst = self.by_jid.get(to)
            if dst is None:
                self.log.append(("undeliverable", acct.idx, to))
                return
            attrs = dict(base)
            attrs["from"] = acct.jid
            kids = [clone_node(c) for c in node.getAllChildren()]
            self._enqueue(dst, N("message", attrs, kids), "message", {"sender": acct.idx, "id": node["id"],
                                                                      "group": None})

    def _route_receipt(self, acct, node):
        N = self.m["ProtocolTreeNode"]
        to = node["to"]
        ackattrs = {"class": "receipt", "id": node["id"], "from": to, "t": str(T0)}
        if node["type"] is not None:
            ackattrs["type"] = node["type"]
        if node["participant"] is not None:
            ackattrs["participant"] = node["participant"]
        self._enqueue(acct, N("ack", ackattrs), "ack")
        attrs = {"id": node["id"], "t": str(T0)}
        if node["type"] is not None:
            attrs["type"] = node["type"]
        if to in self.groups:
            dst = self.by_jid.get(node["participant"])
            attrs["from"] = to
            attrs["participant"] = acct.jid
        else:
            dst = self.by_jid.get(to)
            attrs["from"] = acct.jid
        if dst is None:
            return
        kids = [clone_node(c) for c in node.getAllChildren()]
        self._enqueue(dst, N("receipt", attrs, kids or None), "receipt",
                      {"sender": acct.idx, "id": node["id"], "type": node["type"]})

    def notify_identity(self, dst_idx, about_idx):
        """The server tells account dst that account `about` has a new identity: an `encrypt` notification with an
        <identity/> child, from the contact's jid.  Queued like every other delivery."""
        N = self.m["ProtocolTreeNode"]
        self.nserial += 1
        dst, about = self.accounts[dst_idx], self.accounts[about_idx]
        node = N("notification", {"from": about.jid, "type": "encrypt", "id": "n%d" % self.nserial, "t": str(T0)},
                 [N("identity")])
        self._enqueue(dst, node, "notification", {"about": about_idx, "id": node["id"]})

    # ---- server: schedule and faults ------------------------------------------------------------
    def deliver(self, k):
        d = self.pending.pop(k)
        if d.dst.stack is None:
            return d
        d.dst.inject(d.node)
        return d

    def drain(self, pick=None, limit=10000):
        """Deliver until nothing is pending.  pick(n)->index chooses the next delivery (default FIFO).
        Returns the list of chosen indices (the schedule)."""
        sched = []
        while self.pending:
            k = pick(len(self.pending)) if pick else 0
            sched.append(k)
            self.deliver(k)
            limit -= 1
            if limit <= 0:
                raise RuntimeError("server schedule did not quiesce")
        return sched

    def messages_pending(self):
        return [i for i, d in enumerate(self.pending) if d.kind == "message"]

    def duplicate(self, k):
        d = self.pending[k]
        self.serial += 1
        self.pending.append(Delivery(d.dst, clone_node(d.node), d.kind, dict(d.meta, dup=True), self.serial))
        self.faults.append(("dup", d.serial))

    def corrupt(self, k, which=0):
        """Flip one bit in the MAC of one ciphertext of pending[k] (a message stanza)."""
        d = self.pending[k]
        encs = d.node.getAllChildren("enc")
        e = encs[which % len(encs)]
        data = e.getData()
        if isinstance(data, str):
            data = data.encode("latin-1")
        data = bytearray(data)
        pos = len(data) - 1
        if e["type"] == "pkmsg":
            from axolotl.protocol.prekeywhispermessage import PreKeyWhisperMessage
            inner = PreKeyWhisperMessage(serialized=bytes(data)).getWhisperMessage().serialize()
            at = bytes(data).find(bytes(inner))
            if at >= 0:
                pos = at + len(inner) - 1
        orig = bytes(data)
        data[pos] ^= 0x01
        self.corrupted[bytes(data)] = orig
        e.setData(bytes(data))
        d.meta["corrupt"] = e["type"]
        self.faults.append(("corrupt", d.serial, e["type"]))

    # ---- helpers --------------------------------------------------------------------------------
    def add_group(self, creator_idx, member_idxs, n=0):
        c = self.accounts[creator_idx]
        gjid = "%s-%d@g.us" % (c.phone, T0 + n)
        self.groups[gjid] = (c.jid, [self.accounts[i].jid for i in member_idxs])
        return gjid

    def close(self):
        if self.observer:
            self.observer.uninstall()
        for a in self.accounts:
            a.stop()
        gc.collect()


# =====================================================================================================
# Recorder: abstracts every real event at every client's bottom and top to a symbolic alphabet.
# =====================================================================================================
class Symtab(object):
    """bytes -> small positive int, by first appearance (1, 2, ...)."""

    def __init__(self):
        self.d = {}

    def __call__(self, b):
        b = bytes(b)
        if b not in self.d:
            self.d[b] = len(self.d) + 1
        return self.d[b]


def _bytes(d):
    if d is None:
        return b""
    return d.encode("latin-1") if isinstance(d, str) else bytes(d)


class Recorder(object):
    """Per account a list `events[idx]` of abstract events
         {"dir": "in"|"out", "at": "app"|"bot"|"top"|"mark"|"err", ...}
    built while the world runs.  Ciphertext bytes are mapped to the symbolic term of the encryption that
    produced them (kind, session base key, message number, presented identity, payload description); this is
    possible because the harness owns all parties.  Plaintexts are learnt by observation-only wrappers around
    python-axolotl's SessionCipher.encrypt / GroupCipher.encrypt (third party, stable API)."""

    def __init__(self, world):
        self.w = world
        self.ident = Symtab()
        self.sid = Symtab()
        self.skid = Symtab()
        self.events = dict((a.idx, []) for a in world.accounts)
        self.terms = {}          # ciphertext bytes -> term dict
        self.plain = {}          # ciphertext bytes -> padded plaintext
        self.counters = {}       # (acct idx, generation, sid) -> {nonce: n}
        self.iqseq = dict((a.idx, {}) for a in world.accounts)   # real iq id -> seq
        self.iqn = dict((a.idx, 0) for a in world.accounts)
        self.iqreq = dict((a.idx, {}) for a in world.accounts)   # seq -> request event
        self.mids = {}           # message id string -> int
        self.payloads = {}       # mid int -> info about what the application sent
        self.problems = []
        self._install()

    # ---- third-party observation wrappers ----
    def _install(self):
        import axolotl.sessioncipher as sc
        import axolotl.groups.groupcipher as gc_
        rec = self
        self._orig_s, self._orig_g = sc.SessionCipher.encrypt, gc_.GroupCipher.encrypt

        def s_encrypt(self_, padded):
            out = rec._orig_s(self_, padded)
            rec.plain[bytes(out.serialize())] = bytes(padded)
            return out

        def g_encrypt(self_, padded):
            out = rec._orig_g(self_, padded)
            rec.plain[bytes(out)] = bytes(padded)
            return out
        sc.SessionCipher.encrypt, gc_.GroupCipher.encrypt = s_encrypt, g_encrypt

    def uninstall(self):
        import axolotl.sessioncipher as sc
        import axolotl.groups.groupcipher as gc_
        sc.SessionCipher.encrypt, gc_.GroupCipher.encrypt = self._orig_s, self._orig_g

    # ---- helpers ----
    def mid(self, s):
        if s not in self.mids:
            self.mids[s] = int(s[1:]) if (s[:1] == "m" and s[1:].isdigit()) else 100000 + len(self.mids)
        return self.mids[s]

    def peer(self, jid):
        if jid is None:
            return None
        a = self.w.by_jid.get(jid)
        if a is not None:
            return a.idx
        if jid in self.w.groups:
            return 1000 + sorted(self.w.groups).index(jid)
        return 9999

    def _db(self, acct, sql, args=()):
        import sqlite3
        p = os.path.join(acct.profile_dir(), "axolotl.db")
        if not os.path.exists(p):
            return []
        c = sqlite3.connect("file:%s?mode=ro" % p, uri=True)
        try:
            return c.execute(sql, args).fetchall()
        except sqlite3.OperationalError:
            return []
        finally:
            c.close()

    def session_states(self, acct, peer_phone):
        """[(sid symbol, remote identity symbol)] current first, read from the durable store."""
        from axolotl.state.sessionrecord import SessionRecord
        rows = self._db(acct, "SELECT record FROM sessions WHERE recipient_id=? AND device_id=1", (int(peer_phone),))
        if not rows:
            return []
        r = SessionRecord(serialized=bytes(rows[0][0]))
        out = []
        for st in [r.getSessionState()] + list(r.getPreviousSessionStates()):
            bk = st.getAliceBaseKey()
            rid = st.getRemoteIdentityKey()
            if bk:
                out.append((self.sid(bk), self.ident(rid.serialize()) if rid is not None else 0))
        return out

    def ids_table(self, acct):
        rows = self._db(acct, "SELECT recipient_id, public_key FROM identities WHERE recipient_id != -1")
        out = {}
        for r, k in rows:
            a = self.w.by_jid.get(jid_of(str(r)))
            out[a.idx if a else 9999] = self.ident(bytes(k))
        return out

    def sessions_table(self, acct):
        rows = self._db(acct, "SELECT recipient_id FROM sessions WHERE device_id=1")
        out = {}
        for (r,) in rows:
            a = self.w.by_jid.get(jid_of(str(r)))
            out[a.idx if a else 9999] = self.session_states(acct, str(r))
        return out

    def own_ident(self, acct):
        rows = self._db(acct, "SELECT public_key FROM identities WHERE recipient_id = -1")
        return self.ident(bytes(rows[0][0])) if rows else 0

    def has_prekey(self, acct, pkid):
        return bool(self._db(acct, "SELECT 1 FROM prekeys WHERE prekey_id=?", (int(pkid),)))

    def has_senderkey(self, acct, gjid, sender_phone):
        rows = self._db(acct, "SELECT record FROM sender_keys WHERE group_id=? AND sender_id=?",
                        (gjid, int(sender_phone)))
        return bool(rows)

    def payload_info(self, ct):
        """What the plaintext of ciphertext `ct` carries: (has sender-key distribution, content description)."""
        padded = self.plain.get(bytes(ct))
        if padded is None:
            return None
        from yowsup.layers.protocol_messages.proto.e2e_pb2 import Message
        raw = padded[:-padded[-1]] if padded else padded
        m = Message()
        try:
            m.ParseFromString(raw)
        except Exception:
            return {"skdm": False, "fields": ["?"], "raw": raw}
        fields = [f.name for f, _ in m.ListFields()]
        skdm = "sender_key_distribution_message" in fields
        rest = [f for f in fields if f != "sender_key_distribution_message"]
        bare = Message()
        bare.CopyFrom(m)
        bare.ClearField("sender_key_distribution_message")
        return {"skdm": skdm, "fields": rest, "raw": raw, "content": bare.SerializeToString()}

    def _term_out(self, acct, to_jid, encnode, group=None):
        from axolotl.protocol.prekeywhispermessage import PreKeyWhisperMessage
        from axolotl.protocol.whispermessage import WhisperMessage
        from axolotl.protocol.senderkeymessage import SenderKeyMessage
        data = _bytes(encnode.getData())
        kind = encnode["type"]
        t = {"kind": kind, "mediatype": encnode["mediatype"], "pay": self.payload_info(data)}
        try:
            if kind == "skmsg":
                sk = SenderKeyMessage(serialized=data)
                t.update(group=self.peer(group), sender=acct.idx, keyid=sk.getKeyId(), n=sk.getIteration())
            else:
                if kind == "pkmsg":
                    p = PreKeyWhisperMessage(serialized=data)
                    w = p.getWhisperMessage()
                    sid = self.sid(p.getBaseKey().serialize())
                    t.update(pident=self.ident(p.getIdentityKey().serialize()), prekey=p.getPreKeyId())
                else:
                    w = WhisperMessage(serialized=data)
                    st = self.session_states(acct, to_jid.split("@")[0])
                    sid = st[0][0] if st else 0
                    t.update(pident=0, prekey=None)
                st = self.session_states(acct, to_jid.split("@")[0])
                t["ident"] = st[0][1] if st else 0
                key = (acct.idx, acct.generation, sid)
                nonce = (bytes(w.getSenderRatchetKey().serialize()), w.getCounter())
                tab = self.counters.setdefault(key, {})
                if nonce not in tab:
                    tab[nonce] = len(tab)
                t.update(sid=sid, n=tab[nonce], to=self.peer(to_jid))
        except Exception as e:                      # not parseable: leave a marker, comparisons will differ
            t["unparsed"] = repr(e)
        self.terms[data] = t
        return t

    def _abstract_message_out(self, acct, node):
        to = node["to"]
        ev = {"tag": "message", "peer": self.peer(to), "id": self.mid(node["id"]), "type": node["type"],
              "participant": self.peer(node["participant"]), "plain": node.getChild("proto") is not None,
              "encs": [], "group": to in self.w.groups}
        isg = to in self.w.groups
        for e in node.getAllChildren("enc"):
            dest = (node["participant"] or to) if isg else to
            t = dict(self._term_out(acct, dest, e, group=to if isg else None))
            t["for"] = None
            ev["encs"].append(t)
        pn = node.getChild("participants")
        if pn is not None:
            for tn in pn.getAllChildren("to"):
                for e in tn.getAllChildren("enc"):
                    t = dict(self._term_out(acct, tn["jid"], e, group=to))
                    t["for"] = self.peer(tn["jid"])
                    ev["encs"].append(t)
        return ev

    def _abstract_message_in(self, acct, node):
        isg = node["participant"] is not None
        ev = {"tag": "message", "peer": self.peer(node["participant"] if isg else node["from"]),
              "id": self.mid(node["id"]), "type": node["type"], "group": self.peer(node["from"]) if isg else None,
              "encs": [], "plain": node.getChild("proto") is not None}
        for e in node.getAllChildren("enc"):
            data = _bytes(e.getData())
            corrupt = False
            if data not in self.terms and data in self.w.corrupted:
                data, corrupt = self.w.corrupted[data], True
            t = dict(self.terms.get(data, {"kind": e["type"], "unknown": True}))
            t["corrupt"] = corrupt
            t["mediatype"] = e["mediatype"]
            if t.get("kind") == "pkmsg" and t.get("prekey") is not None:
                t["pkok"] = self.has_prekey(acct, t["prekey"])
            else:
                t["pkok"] = True
            # a prekey message built from the bundle of an earlier install of this account names prekeys we no
            # longer hold: its MAC cannot verify.  Folded into the "does not verify" flag of the term.
            if t.get("kind") == "pkmsg" and t.get("ident") and t["ident"] != self.own_ident(acct):
                t["corrupt"] = True
                t["stale"] = True
            ev["encs"].append(t)
        return ev

    def _abstract_receipt(self, node, incoming):
        other = node["from"] if incoming else node["to"]
        isg = other in self.w.groups
        rn = node.getChild("retry")
        return {"tag": "receipt", "peer": self.peer(node["participant"] if isg else other),
                "group": self.peer(other) if isg else None, "id": self.mid(node["id"]),
                "rtype": node["type"] or "delivery", "count": int(rn["count"]) if rn is not None else 0}

    # ---- world callbacks ----
    def _push(self, acct, ev):
        ev["inc"] = acct.incarnation
        self.events[acct.idx].append(ev)
        return ev

    def _snapshot(self, acct, ev):
        ev["ids_after"] = self.ids_table(acct)
        ev["sess_after"] = self.sessions_table(acct)

    def on_app(self, acct, entity):
        node = entity.toProtocolTreeNode()
        proto = node.getChild("proto")
        mid = self.mid(node["id"])
        pay = _bytes(proto.getData()) if proto is not None else b""
        self.payloads[mid] = {"sender": acct.idx, "to": self.peer(node["to"]), "raw": pay, "type": node["type"],
                              "mediatype": proto["mediatype"] if proto is not None else None,
                              "entity": type(entity).__name__}
        self._cur = self._push(acct, {"dir": "in", "at": "app", "tag": "send", "peer": self.peer(node["to"]),
                                      "id": mid, "type": node["type"],
                                      "mediatype": proto["mediatype"] if proto is not None else None,
                                      "group": node["to"] in self.w.groups})

    def after_input(self, acct):
        self._snapshot(acct, self._cur)

    def before_in(self, acct, node):
        tag = node.tag
        ev = {"dir": "in", "at": "bot", "tag": "other", "raw": tag}
        if tag == "message":
            ev.update(self._abstract_message_in(acct, node))
        elif tag == "receipt":
            ev.update(self._abstract_receipt(node, True))
        elif tag == "iq" and node["id"] in self.iqseq[acct.idx]:
            seq = self.iqseq[acct.idx][node["id"]]
            req = self.iqreq[acct.idx][seq]
            if req["tag"] == "getkeys":
                users = []
                for u in node.getChild("list").getAllChildren("user"):
                    idn = u.getChild("identity")
                    users.append({"jid": self.peer(u["jid"]), "phone": u["jid"].split("@")[0],
                                  "ident": self.ident(b"\x05" + _bytes(idn.getData())) if idn is not None else 0,
                                  "haskey": u.getChild("key") is not None})
                ev.update(tag="keys", iq=seq, users=users, error=node["type"] != "result")
            else:
                g = node.getChild("group")
                ev.update(tag="ginfo-result", iq=seq, error=node["type"] != "result",
                          parts=[self.peer(p["jid"]) for p in g.getAllChildren("participant")] if g else [])
        elif tag == "notification" and node["type"] == "encrypt" and node.getChild("identity") is not None:
            ev.update(tag="notify-identity", peer=self.peer(node["from"]), id=self.mid(node["id"]))
        self._cur = self._push(acct, ev)

    def after_in(self, acct, node):
        ev = self._cur
        if ev.get("tag") == "keys":
            for u in ev["users"]:
                st = self.session_states(acct, u["phone"])
                u["sid"] = st[0][0] if st else 0
        self._snapshot(acct, ev)

    def on_out(self, acct, node):
        tag = node.tag
        ev = {"dir": "out", "at": "bot", "tag": "other", "raw": tag}
        if tag == "message":
            ev.update(self._abstract_message_out(acct, node))
        elif tag == "receipt":
            ev.update(self._abstract_receipt(node, False))
        elif tag == "iq" and node["type"] == "get" and node["xmlns"] in ("encrypt", "w:g2"):
            seq = self.iqn[acct.idx]
            self.iqn[acct.idx] += 1
            self.iqseq[acct.idx][node["id"]] = seq
            if node["xmlns"] == "encrypt":
                ev.update(tag="getkeys", iq=seq,
                          jids=[self.peer(u["jid"]) for u in node.getChild("key").getAllChildren("user")])
            else:
                ev.update(tag="ginfo", iq=seq, group=self.peer(node["to"]))
            self.iqreq[acct.idx][seq] = ev
        elif tag == "ack" and node["class"] == "notification":     # tag stays "other": extra fields only
            ev.update(cls="notification", peer=self.peer(node["to"]), id=self.mid(node["id"]), ntype=node["type"])
        ev["node"] = node
        self._push(acct, ev)

    def on_top(self, acct, entity):
        tag = entity.getTag() if hasattr(entity, "getTag") else None
        ev = {"dir": "out", "at": "top", "tag": "other", "raw": type(entity).__name__}
        if tag == "message":
            isg = entity.getParticipant() is not None
            ev.update(tag="deliver", peer=self.peer(entity.getParticipant() if isg else entity.getFrom()),
                      group=self.peer(entity.getFrom()) if isg else None, id=self.mid(entity.getId()),
                      type=entity.getType(), entity=type(entity).__name__, obj=entity)
        elif tag == "receipt":
            node = entity.toProtocolTreeNode()
            ev.update(self._abstract_receipt(node, True))
            ev["tag"] = "topreceipt"
        self._push(acct, ev)

    def on_err(self, acct, jid, name):
        self._push(acct, {"dir": "out", "at": "err", "tag": "err", "peer": self.peer(jid), "error": name})

    def on_mark(self, acct, what):
        ev = self._push(acct, {"dir": "in", "at": "mark", "tag": what})
        ev["ids_after"] = {} if what == "reinstall" else self.ids_table(acct)
        ev["sess_after"] = {} if what == "reinstall" else self.sessions_table(acct)
