"""Layer-set rig shared by C06 and C07 (DESIGN.md 3.5): the real YowStack built from

    Bottom, [AxolotlControlLayer, YowParallelLayer((AxolotlSendLayer, AxolotlReceivelayer)), Tap,]
    YowParallelLayer(YowStackBuilder.getProtocolLayers(**flags)), Top

with recording Bottom / Tap / Top layers, plus the abstraction functions that turn real stanzas /
entities into the feature vectors of the Coq dispatch model (coq/C06/C06Dispatch.v) and real
observations into the model's abstract actions.  Nothing here reads a layer's private state:
stanzas go in through Bottom.inject / Top.push and come out at the recorders.
"""
import os, io, contextlib

FLAGS = ("groups", "media", "privacy", "profiles")


def _imports():
    from yowsup.layers import YowLayer, YowParallelLayer, YowLayerEvent
    from yowsup.stacks.yowstack import YowStack, YowStackBuilder
    return YowLayer, YowParallelLayer, YowLayerEvent, YowStack, YowStackBuilder


# ------------------------------------------------------------------ canonical stanza form
def canon(node):
    """Structural, order-preserving canonical form (never ProtocolTreeNode.__eq__)."""
    if node is None:
        return None
    attrs = tuple(sorted((str(k), v if isinstance(v, (str, bytes, type(None))) else repr(v))
                         for k, v in node.attributes.items()))
    data = node.data
    if isinstance(data, str):
        data = data.encode("latin-1", "replace")
    return (node.tag, attrs, data, tuple(canon(c) for c in node.children))


def show(node):
    c = canon(node) if not isinstance(node, tuple) else node
    if c is None:
        return None
    tag, attrs, data, kids = c
    return {"tag": tag, "attrs": {k: (v.hex() if isinstance(v, bytes) else v) for k, v in attrs},
            "data": data.hex() if isinstance(data, bytes) else data, "children": [show(k) for k in kids]}


def node_from_show(d):
    from yowsup.structs import ProtocolTreeNode
    return ProtocolTreeNode(d["tag"], dict(d["attrs"]), [node_from_show(k) for k in d["children"]] or None,
                            bytes.fromhex(d["data"]) if d["data"] is not None else None)


# ------------------------------------------------------------------ the rig
class Rig(object):
    UNSET = object()          # ping_interval=UNSET: the stack property is left out (the layer's default applies)

    def __init__(self, flags, axolotl, profile=None, tap_forwards_messages=False, ping_interval=0):
        YowLayer, YowParallelLayer, YowLayerEvent, YowStack, YowStackBuilder = _imports()
        from yowsup.layers.protocol_iq import YowIqProtocolLayer
        from yowsup.layers.network import YowNetworkLayer
        rig = self
        self.ups, self.downs, self.mids, self.events = [], [], [], []

        class Bottom(YowLayer):
            def send(self, data):
                rig.downs.append(data)
                hook, rig.on_send = rig.on_send, None
                if hook is not None:
                    hook(self, data)          # e.g. the peer's answer read while the request is still being sent

            def onEvent(self, ev):
                rig.events.append(ev.getName())
                return True

        class Top(YowLayer):
            def receive(self, data):
                rig.ups.append(data)
                hook, rig.on_top_receive = rig.on_top_receive, None
                if hook is not None:
                    hook(self, data)          # an application that reacts (e.g. sends) from inside its handler

            def onEvent(self, ev):
                return True

        class Tap(YowLayer):
            """transparent recorder between the protocol group and the encryption layers;
            outgoing message stanzas stop here (their encryption is C03's subject)."""

            def send(self, data):
                rig.mids.append(data)
                if getattr(data, "tag", None) != "message" or tap_forwards_messages:
                    self.toLower(data)

        self.on_send = None
        self.on_top_receive = None
        self.flags = dict(zip(FLAGS, flags))
        self.axolotl = axolotl
        proto = YowParallelLayer(YowStackBuilder.getProtocolLayers(**self.flags))
        layers = (Bottom,)
        if axolotl:
            from yowsup.layers.axolotl import AxolotlSendLayer, AxolotlControlLayer, AxolotlReceivelayer
            layers += (AxolotlControlLayer, YowParallelLayer((AxolotlSendLayer, AxolotlReceivelayer)), Tap)
        layers += (proto, Top)
        props = {} if ping_interval is Rig.UNSET else {YowIqProtocolLayer.PROP_PING_INTERVAL: ping_interval}
        if profile is not None:
            props["profile"] = profile
        self.stack = YowStack(layers, reversed=False, props=props)
        self.bottom = self.stack.getLayer(0)
        self.top = self.stack.getLayer(len(layers) - 1)
        self.proto = proto
        if axolotl:
            self.control = self.stack.getLayer(1)
            self.pair = self.stack.getLayer(2)
            # the layers pick their AxolotlManager up from the profile on CONNECTED
            with contextlib.redirect_stdout(io.StringIO()):
                self.bottom.emitEvent(YowLayerEvent(YowNetworkLayer.EVENT_STATE_CONNECTED))
        self.clear()

    def clear(self):
        del self.ups[:], self.downs[:], self.mids[:], self.events[:]

    def recv(self, node):
        """inject a stanza at the bottom; returns (ups, downs, exception-or-None)"""
        self.clear()
        exc = None
        try:
            with contextlib.redirect_stdout(io.StringIO()):
                self.bottom.toUpper(node)
        except Exception as e:  # noqa
            exc = e
        return list(self.ups), list(self.downs), exc

    def send(self, entity):
        """push an entity at the top; returns (ups, stanzas leaving the protocol group, exception)"""
        self.clear()
        exc = None
        try:
            self.top.toLower(entity)
        except Exception as e:  # noqa
            exc = e
        out = self.mids if self.axolotl else self.downs
        return list(self.ups), list(out), list(self.downs), exc

    def send_answered_inside(self, entity, reply):
        """like send(), but the bottom hands `reply` upward from inside its own send() of the request (a reader
        thread, or a transport that answers synchronously, delivers the answer before the sender has returned);
        returns (entities that reached the top, stanzas leaving the protocol group, exception, delivered?)"""
        self.clear()
        exc, box = None, {"delivered": False}

        def hook(bottom, data):
            box["delivered"] = True
            with contextlib.redirect_stdout(io.StringIO()):
                bottom.toUpper(reply)
        self.on_send = hook
        try:
            self.top.toLower(entity)
        except Exception as e:  # noqa
            exc = e
        self.on_send = None
        out = self.mids if self.axolotl else self.downs
        return list(self.ups), list(out), exc, box["delivered"]

    def recv_retrying(self, node, entity):
        """like recv(), but the top layer, on the first entity it is handed, sends `entity` from inside its own
        receive(); returns (ups, stanzas leaving the protocol group, stanzas at the bottom, exception, retried?)"""
        box = {"retried": False, "exc": None}

        def hook(top, data):
            box["retried"] = True
            try:
                top.toLower(entity)
            except Exception as e:  # noqa
                box["exc"] = e
        self.on_top_receive = hook
        ups, downs, exc = self.recv(node)
        self.on_top_receive = None
        out = self.mids if self.axolotl else self.downs
        return ups, list(out), downs, exc or box["exc"], box["retried"]

    # lifecycle events, delivered the way the real stack delivers them: CONNECTED / DISCONNECTED are emitted upward
    # by the network layer (below the protocol group), AUTHED / DISCONNECT are broadcast by a layer of the protocol
    # group (the authentication layer) or from above it
    def event(self, name, **kw):
        from yowsup.layers import YowLayerEvent
        from yowsup.layers.network import YowNetworkLayer
        self.clear()
        exc = None
        ev = YowLayerEvent(name, **kw)
        try:
            with contextlib.redirect_stdout(io.StringIO()):
                if name in (YowNetworkLayer.EVENT_STATE_CONNECTED, YowNetworkLayer.EVENT_STATE_DISCONNECTED):
                    self.bottom.emitEvent(ev)
                else:
                    self.proto.subBroadcastEvent(ev)
        except Exception as e:  # noqa
            exc = e
        return list(self.ups), list(self.downs), exc

    def enqueue_sent(self, node):
        """state set-up for retry receipts: the send layer's own bookkeeping method"""
        for s in self.pair.sublayers:
            if hasattr(s, "enqueueSent"):
                s.enqueueSent(node)


def make_profile(scratch, n=0):
    """one profile (and so one AxolotlManager / sqlite store) shared by all rigs of a run"""
    from yowsup.profile.profile import YowProfile
    from yowsup.config.v1.config import Config
    from yowsup.common.tools import WATools
    from yowsup.axolotl.manager import AxolotlManager
    AxolotlManager.COUNT_GEN_PREKEYS = 3
    from yowsup.common.tools import StorageTools
    phone = "49152%08d" % n          # a fresh store per n keeps the prekey tables small
    cfg = Config(phone=phone, client_static_keypair=WATools.generateKeyPair())
    prof = YowProfile(phone, cfg)
    d = StorageTools.getStorageForProfile(phone)
    os.makedirs(d, exist_ok=True)
    return prof


# ------------------------------------------------------------------ features (model input)
def _o(v):
    if v is None:
        return []
    if isinstance(v, bytes):
        return [v]
    return [str(v).encode("utf-8")]


def _payload_flags(data):
    """what the messages layer's guards read from the decoded payload, computed with protobuf
    directly (not with the library's converter)"""
    from yowsup.layers.protocol_messages.proto.e2e_pb2 import Message
    m = Message()
    try:
        m.ParseFromString(data or b"")
    except Exception:
        return (0, 0, 0, 0)
    more = any(d.name != "sender_key_distribution_message" for d, _ in m.ListFields())
    return (1 if m.conversation else 0, 1 if m.HasField("extended_text_message") else 0,
            1 if m.HasField("sender_key_distribution_message") else 0, 1 if more else 0)


def node_features(node, enqueued=False):
    a = node.attributes
    g = lambda k: a.get(k)
    proto = None
    for c in node.children:
        if c.tag == "proto":
            proto = c
            break
    conv = ext = skdm = more = 0
    if proto is not None and node.tag == "message":
        conv, ext, skdm, more = _payload_flags(proto.data)
    return [node.tag.encode(), _o(g("xmlns")), _o(g("type")), _o(g("id")), _o(g("from")), _o(g("to")),
            _o(g("participant")), [],
            [[c.tag.encode(), _o(c.attributes.get("call-id"))] for c in node.children],
            1 if proto is not None else 0, _o(proto.attributes.get("mediatype")) if proto is not None else [],
            conv, ext, skdm, more, 1 if enqueued else 0]


def entity_features(entity):
    def call(name):
        f = getattr(entity, name, None)
        if f is None:
            return None
        try:
            return f()
        except Exception:
            return None
    mro = [c.__name__.encode() for c in type(entity).__mro__ if c is not object]
    return [entity.getTag().encode(), _o(call("getXmlns")), _o(call("getType")), _o(call("getId")), [],
            _o(call("getTo")), [], mro, [], 0, [], 0, 0, 0, 0, 0]


# ------------------------------------------------------------------ observations (model output)
def abstract_down(node, sent_canon=None):
    """stanza seen at a lower recorder -> the model's stanza constructors"""
    if sent_canon is not None:
        return [0] if canon(node) == sent_canon else [9, node.tag.encode()]
    a = node.attributes
    g = lambda k: _o(a.get(k))
    if node.tag == "ack":
        return [1, g("id"), g("class"), g("type"), g("to"), g("participant")]
    if node.tag == "receipt":
        offer = [c for c in node.children if c.tag == "offer"]
        return [2, g("id"), g("to"), g("participant"), g("type"),
                _o(offer[0].attributes.get("call-id")) if offer else []]
    if node.tag == "iq" and a.get("type") == "result":
        return [3, g("id"), g("to"), g("xmlns")]
    if node.tag == "iq" and a.get("xmlns") == "encrypt":
        return [4 if a.get("type") == "get" else 5]
    return [9, node.tag.encode()]


def abstract_obs(ups, downs, exc, sent_canon=None):
    acts = []
    for u in ups:
        if hasattr(u, "getTag"):
            acts.append([0, type(u).__name__.encode()])
        elif u is None:
            acts.append([0, b"<None>"])
        else:
            acts.append([0, b"<node>" + u.tag.encode()])
    for d in downs:
        acts.append([1, abstract_down(d, sent_canon)])
    if exc is not None:
        acts.append([2])
    return acts


def norm_actions(acts):
    """order between the two recorders (and of independent answers) is not part of the property"""
    keep = []
    for a in acts:
        if not a or a[0] not in (0, 1, 2, 4):
            continue
        if a[0] == 1 and a[1] and a[1][0] in (4, 5):
            continue          # the encryption layers' own key upload / fetch traffic (C14's subject)
        keep.append(a)
    return sorted(keep, key=repr)
