"""C08 rig: the real protocol-layer group + axolotl layers + a real YowInterfaceLayer subclass
between recorders, driven by histories of requests and deliveries.

Stack (bottom -> top), built like YowStackBuilder.getDefaultLayers without the core layers:
  Bottom(recorder) | AxolotlControlLayer | Parallel(AxolotlSendLayer, AxolotlReceivelayer)
  | Parallel(getProtocolLayers()) | Tap(recorder) | App(YowInterfaceLayer) | Top(recorder)

A history is a list of ops (JSON-able lists):
  ["app", kind, hs, he]        application request through YowInterfaceLayer._sendIq
  ["app", kind, hs, he, rs, re, budget]   the same, with callbacks that RETRY: when invoked, the
                               success (if rs) / error (if re) callback re-issues the original
                               request entity (same id) through _sendIq from inside the callback,
                               at most `budget` times in total
  ["lib", lkind]               library-internal request through the issuing layer's own entry point
  ["app", kind, hs, he, rs, re, budget, SYNC] / ["lib", lkind, SYNC]
                               the same, where SYNC = [[mid, typ, shape], ...] are iq stanzas the BOTTOM of
                               the stack delivers upward from inside its send() of this request, before it
                               returns -- the deterministic equivalent of a reader thread that processes
                               the reply while the sending thread is still inside toLower()/send()
  ["dlv", mid, typ, shape]     incoming iq with (model) id `mid`, type result/error/get/set
  ["dlv", mid, typ, shape, content]   the same with the given CONTENT (key of CONTENTS: what the stanza carries
                               besides id/type -- the <error> child(ren) and their attributes, e.g. backoff);
                               typ may also be written in another way ("Error", "RESULT", ...: OTHER_TYPES);
                               nested deliveries likewise: [mid, typ, shape, content]
  ["oth", tag, mid]            incoming non-iq stanza carrying id `mid`
Model ids are small naturals; the real id is str(base + mid) where base is the value of the
process-wide counter when the history starts (mid >= FOREIGN are non-numeric foreign ids).
"""
import threading
from yowsup.layers import YowLayer, YowParallelLayer, YowLayerEvent
from yowsup.layers.interface import YowInterfaceLayer
from yowsup.layers.network import YowNetworkLayer
from yowsup.stacks import YowStack, YowStackBuilder
from yowsup.structs import ProtocolTreeNode
from yowsup.layers.axolotl import AxolotlSendLayer, AxolotlControlLayer, AxolotlReceivelayer
from yowsup.layers.protocol_iq import YowIqProtocolLayer
from yowsup.layers.protocol_iq.protocolentities import (
    IqProtocolEntity, PingIqProtocolEntity, PushIqProtocolEntity, PropsIqProtocolEntity)
from yowsup.layers.protocol_presence.protocolentities import LastseenIqProtocolEntity
from yowsup.layers.protocol_profiles.protocolentities import (
    GetPictureIqProtocolEntity, SetPictureIqProtocolEntity, GetPrivacyIqProtocolEntity,
    SetPrivacyIqProtocolEntity, GetStatusesIqProtocolEntity, SetStatusIqProtocolEntity)
from yowsup.layers.protocol_groups.protocolentities import (
    CreateGroupsIqProtocolEntity, InfoGroupsIqProtocolEntity, LeaveGroupsIqProtocolEntity,
    ListGroupsIqProtocolEntity, SubjectGroupsIqProtocolEntity, ParticipantsGroupsIqProtocolEntity,
    AddParticipantsIqProtocolEntity, PromoteParticipantsIqProtocolEntity,
    DemoteParticipantsIqProtocolEntity, RemoveParticipantsIqProtocolEntity)
from yowsup.layers.protocol_contacts.protocolentities import GetSyncIqProtocolEntity
from yowsup.layers.protocol_media.protocolentities import RequestUploadIqProtocolEntity
from yowsup.layers.protocol_ib.protocolentities import CleanIqProtocolEntity
from yowsup.layers.protocol_privacy.protocolentities import PrivacyListIqProtocolEntity

SERVER = "s.whatsapp.net"
JID = "4915100000001@s.whatsapp.net"
OWN = "4915100000000"
GJID = "4915100000000-1400000000@g.us"
FOREIGN = 900          # model ids >= FOREIGN map to non-numeric ids (server namespace)

# application request kinds, in the order of the Coq `akind` constructors (index = wire code)
AKINDS = ["ping", "lastseen", "picget", "picset", "privget", "privset", "statget", "statset",
          "gcreate", "ginfo", "gleave", "glist", "gsubject", "gparts", "gadd", "gpromote",
          "gdemote", "gremove", "sync", "upload",
          # kinds with no reply entity (outside the property's domain; routing only)
          "push", "props", "clean", "privlist"]
IN_DOMAIN = AKINDS[:20]
LKINDS = ["fetch_ctl", "fetch_send", "fetch_recv", "keyupload", "groupinfo", "libping"]
ITYPES = ["result", "error", "get", "set"]
# the type attribute written in other ways: not a reply for the registries (they compare case-sensitively)
OTHER_TYPES = ["Error", "ERROR", "Result", "errors"]


def typ_code(typ):
    return ITYPES.index(typ) if typ in ITYPES else len(ITYPES)


_ERR = {"code": "406", "text": "not-acceptable"}
# what a delivered iq carries besides tag/id/type: its children as (tag, attributes).  For a result reply they
# are appended to the result children of the request's kind; otherwise they ARE the children.
CONTENTS = {
    "err-code-text": [("error", {"code": "404", "text": "item-not-found"})],     # what error replies carry by default
    "err-bare": [("error", {})],
    "err-backoff-0": [("error", dict(_ERR, backoff="0"))],
    "err-backoff-3600": [("error", dict(_ERR, backoff="3600"))],                 # ErrorIqProtocolEntity's docstring
    "err-only-backoff": [("error", {"backoff": "3600"})],
    "err-backoff-1": [("error", dict(_ERR, backoff="1"))],
    "err-backoff-abc": [("error", dict(_ERR, backoff="abc"))],
    "err-backoff-neg": [("error", dict(_ERR, backoff="-5"))],
    "err-two-plain-backoff": [("error", dict(_ERR)), ("error", dict(_ERR, backoff="3600"))],
    "err-two-backoff-plain": [("error", dict(_ERR, backoff="60")), ("error", dict(_ERR))],
    "err-none": [],                                                             # no <error> child at all
    # the same reply without a `from` attribute (the server's own replies often carry none)
    "err-no-from": [("error", {"code": "404", "text": "item-not-found"})],
    "res-no-from": [],
}
NO_FROM = ("err-no-from", "res-no-from")
ERROR_CONTENTS = sorted(k for k in CONTENTS if k != "res-no-from")
# result replies to a contact sync, written the other ways the <sync> child can be: a chunk that is not flagged as
# the last one, no flag at all, a later index (each parsable by the reply-entity parser).  They REPLACE the default result children.
_USER = ("in", {}, [("user", {"jid": JID}, b"+4915100000001")])
SYNC_CONTENTS = {
    "sync-last-false": ("sync", {"index": "0", "last": "false", "sid": "1", "version": "1"}, [_USER]),
    "sync-no-last": ("sync", {"index": "0", "sid": "1", "version": "1"}, [_USER]),
    "sync-index-3": ("sync", {"index": "3", "last": "false", "sid": "1", "version": "1"}, [_USER]),
}
RESULT_CONTENTS = ["err-backoff-3600", "err-only-backoff", "err-two-plain-backoff"]   # malformed but possible


def unparsable(origin, kind, typ, content):
    """error replies the reply-entity parser of the forwarding callback rejects (ErrorIqProtocolEntity.
    fromProtocolTreeNode: int(backoff) / the <error> child must exist): outside the property's domain (reply
    parsing is not modelled).  The library's closures take the node as it is."""
    if typ != "error" or content not in ("err-backoff-abc", "err-none"):
        return False
    return origin == "app" or kind == "libping"


def _tree(t):
    tag, attrs = t[0], t[1]
    rest = t[2] if len(t) > 2 else None
    if isinstance(rest, bytes):
        return N(tag, dict(attrs), None, rest)
    return N(tag, dict(attrs), [_tree(c) for c in (rest or [])])


def content_children(content):
    if content in SYNC_CONTENTS:
        return [_tree(SYNC_CONTENTS[content])]
    return [N(tag, dict(attrs)) for tag, attrs in CONTENTS[content]]
SHAPES = ["plain", "sync", "sping"]
# layers, in the order of the Coq `layer` constructors
LAYERS = ["presence", "ib", "iq", "contacts", "groups", "media", "privacy", "profiles",
          "ctl", "send", "recv"]


def mk_request(kind):
    k = kind
    if k == "ping": return PingIqProtocolEntity()
    if k == "lastseen": return LastseenIqProtocolEntity(JID)
    if k == "picget": return GetPictureIqProtocolEntity(JID)
    if k == "picset": return SetPictureIqProtocolEntity(JID, b"prev", b"pic")
    if k == "privget": return GetPrivacyIqProtocolEntity()
    if k == "privset": return SetPrivacyIqProtocolEntity("all")
    if k == "statget": return GetStatusesIqProtocolEntity([JID])
    if k == "statset": return SetStatusIqProtocolEntity(b"hi")
    if k == "gcreate": return CreateGroupsIqProtocolEntity("subj", participants=[JID])
    if k == "ginfo": return InfoGroupsIqProtocolEntity(GJID)
    if k == "gleave": return LeaveGroupsIqProtocolEntity([GJID])
    if k == "glist": return ListGroupsIqProtocolEntity()
    if k == "gsubject": return SubjectGroupsIqProtocolEntity(GJID, b"subj")
    if k == "gparts": return ParticipantsGroupsIqProtocolEntity(GJID, [JID], "add")
    if k == "gadd": return AddParticipantsIqProtocolEntity(GJID, [JID])
    if k == "gpromote": return PromoteParticipantsIqProtocolEntity(GJID, [JID])
    if k == "gdemote": return DemoteParticipantsIqProtocolEntity(GJID, [JID])
    if k == "gremove": return RemoveParticipantsIqProtocolEntity(GJID, [JID])
    if k == "sync": return GetSyncIqProtocolEntity(["+4915100000001"])
    if k == "upload": return RequestUploadIqProtocolEntity("image", b64Hash="aGFzaA==", size=10)
    if k == "push": return PushIqProtocolEntity()
    if k == "props": return PropsIqProtocolEntity()
    if k == "clean": return CleanIqProtocolEntity("groups", SERVER)
    if k == "privlist": return PrivacyListIqProtocolEntity()
    raise ValueError(kind)


def N(tag, attrs=None, children=None, data=None):
    return ProtocolTreeNode(tag, attrs or {}, children, data)


GROUP_ATTRS = {"id": "4915100000000-1400000000", "creation": "1400000000", "creator": JID,
               "subject": "s", "s_t": "1400000001", "s_o": JID}


def result_children(kind):
    """children of a well-formed result reply for a request of this kind"""
    k = kind
    if k == "lastseen": return [N("query", {"seconds": "5"})]
    if k in ("picget", "picset"): return [N("picture", {"type": "preview", "id": "77"}, None, b"\x01\x02")]
    if k in ("privget", "privset"): return [N("privacy", {}, [N("category", {"name": "last", "value": "all"})])]
    if k == "statget": return [N("status", {}, [N("user", {"jid": JID, "t": "1400000000"}, None, b"st")])]
    if k == "gcreate": return [N("group", {"id": "4915100000000-1400000000"})]
    if k in ("ginfo", "groupinfo"):
        parts = [N("participant", {"jid": JID})] if k == "ginfo" else []
        return [N("group", dict(GROUP_ATTRS), parts)]
    if k == "gleave": return [N("leave", {}, [N("group", {"id": GJID})])]
    if k == "glist": return [N("groups", {}, [N("group", dict(GROUP_ATTRS), [N("participant", {"jid": JID})])])]
    if k == "gparts": return [N("participant", {"jid": JID})]
    if k == "gadd": return [N("add", {"type": "success", "participant": JID})]
    if k == "gremove": return [N("remove", {"type": "success", "participant": JID})]
    if k == "sync":
        return [N("sync", {"index": "0", "last": "true", "sid": "1", "version": "1"},
                  [N("in", {}, [N("user", {"jid": JID}, None, b"+4915100000001")])])]
    if k == "upload": return [N("encr_media", {"url": "https://mms.example/u"})]
    if k in ("fetch_ctl", "fetch_send", "fetch_recv"): return [N("list")]
    return []


def shape_of(kind):
    return "sync" if kind == "sync" else "plain"


class Bottom(YowLayer):
    """bottom recorder; `on_send` (set by the rig) is called from inside send(), after the stanza has been
    recorded and before send() returns: it may deliver stanzas upward synchronously"""
    def __init__(self):
        super(Bottom, self).__init__()
        self.sent = []
        self.log = None
        self.on_send = None

    def send(self, node):
        self.sent.append(node)
        if self.log is not None:
            self.log.append(("down", node))
        if self.on_send is not None:
            self.on_send(node)

    def receive(self, node):
        self.toUpper(node)


class GuardLock(object):
    """Stands in for a layer's `lock` (threading.Lock, taken by YowLayer.toLower): same mutual exclusion, but
    a second acquire by the thread that already holds it raises instead of blocking forever -- a delivery
    from inside a send whose processing sends down again would otherwise hang the single-threaded rig."""
    def __init__(self):
        self._lock = threading.Lock()
        self._owner = None

    def acquire(self, blocking=True, timeout=-1):
        if self._owner == threading.get_ident():
            raise RuntimeError("toLower re-entered by the thread that is inside it (would deadlock)")
        ok = self._lock.acquire(blocking, timeout)
        if ok:
            self._owner = threading.get_ident()
        return ok

    def release(self):
        self._owner = None
        self._lock.release()

    def locked(self):
        return self._lock.locked()

    def __enter__(self):
        self.acquire()
        return self

    def __exit__(self, *a):
        self.release()


def op_sync(op):
    """the stanzas delivered from inside the send of a request op"""
    if op[0] == "app":
        return op[7] if len(op) > 7 else []
    if op[0] == "lib":
        return op[2] if len(op) > 2 else []
    return []


class Tap(YowLayer):
    """between the protocol-layer group and the interface layer"""
    def __init__(self):
        super(Tap, self).__init__()
        self.log = None

    def receive(self, entity):
        if self.log is not None:
            self.log.append(("iface", entity))
        self.toUpper(entity)


class Top(YowLayer):
    def __init__(self):
        super(Top, self).__init__()
        self.log = None

    def receive(self, entity):
        if self.log is not None:
            self.log.append(("top", entity))


class App(YowInterfaceLayer):
    pass


class _SenderKey(object):
    def isEmpty(self):
        return True


class FakeManager(object):
    """stands in for yowsup.axolotl.manager.AxolotlManager (no crypto needed for C08)"""
    registration_id = 0x1234

    def __init__(self, keys):
        self.identity, self._spk, self._pks = keys
        self.log = None

    def level_prekeys(self, force=False):
        return []

    def load_unsent_prekeys(self):
        return []

    def create_session(self, *a, **kw):
        pass

    def set_prekeys_as_sent(self, prekeys):
        if self.log is not None:
            self.log.append(("keys_sent", tuple(p.getId() for p in prekeys)))

    def session_exists(self, recipient_id):
        return False

    def load_senderkey(self, gjid):
        return _SenderKey()

    def group_encrypt(self, gjid, data):
        return b"ciphertext"


class FakeProfile(object):
    username = OWN

    def __init__(self, manager):
        self.axolotl_manager = manager


_KEYS = None


def keys():
    global _KEYS
    if _KEYS is None:
        from axolotl.util.keyhelper import KeyHelper
        ident = KeyHelper.generateIdentityKeyPair()
        spk = KeyHelper.generateSignedPreKey(ident, 1)
        pks = KeyHelper.generatePreKeys(1, 16)
        _KEYS = (ident, spk, pks)
    return _KEYS


def id_counter_probe():
    """the current value of the process-wide id counter, through the public constructor"""
    return int(IqProtocolEntity(_type="get").getId())


class Rig(object):
    def __init__(self, groups=True, media=True, privacy=True, profiles=True, reader_thread=False):
        # reader_thread: the deliveries from inside a send are made by a SECOND thread while the sending
        # thread waits inside Bottom.send (the literal scenario); default: by the sending thread itself
        self.reader_thread = reader_thread
        self.manager = FakeManager(keys())
        layers = (Bottom, AxolotlControlLayer,
                  YowParallelLayer((AxolotlSendLayer, AxolotlReceivelayer)),
                  YowParallelLayer(YowStackBuilder.getProtocolLayers(
                      groups=groups, media=media, privacy=privacy, profiles=profiles)),
                  Tap, App, Top)
        self.stack = YowStack(layers, reversed=False,
                              props={YowIqProtocolLayer.PROP_PING_INTERVAL: 0,
                                     "profile": FakeProfile(self.manager)})
        self.bottom, self.ctl = self.stack.getLayer(0), self.stack.getLayer(1)
        self.send, self.recv = self.stack.getLayer(2).sublayers
        self.proto = {}
        for s in self.stack.getLayer(3).sublayers:
            self.proto[type(s).__name__] = s
        self.tap, self.app, self.top = (self.stack.getLayer(i) for i in (4, 5, 6))
        self.stack.emitEvent(YowLayerEvent(YowNetworkLayer.EVENT_STATE_CONNECTED))
        self.log = []
        for o in (self.bottom, self.tap, self.top, self.manager):
            o.log = self.log
        plain_lock = type(threading.Lock())
        for i in range(7):
            lay = self.stack.getLayer(i)
            for l in (lay,) + tuple(getattr(lay, "sublayers", ())):
                if isinstance(getattr(l, "lock", None), plain_lock):
                    l.lock = GuardLock()
        self.script = None      # stanzas the bottom delivers from inside its next send of a request
        self.cur_lib = None     # library request kind being issued (its id is known only at the bottom)
        self.bottom.on_send = self._on_bottom_send
        self.base = id_counter_probe()
        self.requests = {}     # real id -> (origin, kind, object)
        self.by_token = {}     # closure-captured token (prekey id / message id) -> real id
        self.npk = 0

    # ---- ids
    def rid(self, mid):
        return str(self.base + mid) if mid < FOREIGN else "1416174955-%d" % mid

    def mid(self, rid):
        try:
            return int(rid) - self.base
        except (TypeError, ValueError):
            try:
                return int(str(rid).rsplit("-", 1)[1])
            except Exception:
                return 99999

    def layer(self, name):
        if name in ("ctl", "send", "recv"):
            return getattr(self, name)
        cls = {"presence": "YowPresenceProtocolLayer", "ib": "YowIbProtocolLayer",
               "iq": "YowIqProtocolLayer", "contacts": "YowContactsIqProtocolLayer",
               "groups": "YowGroupsProtocolLayer", "media": "YowMediaProtocolLayer",
               "privacy": "YowPrivacyProtocolLayer", "profiles": "YowProfilesProtocolLayer"}[name]
        return self.proto.get(cls)

    # ---- ops
    def app_request(self, kind, hs, he, rs=0, re=0, budget=0):
        ent = mk_request(kind)
        rid = ent.getId()
        left = [int(budget)]

        def fired(which, retries, reply, orig):
            self.log.append(("appcb", reply.getId(), which, rid if orig is ent else None, reply.getType()))
            if retries and left[0] > 0:
                left[0] -= 1
                # the usual retry pattern: send the request handed to the callback again
                self.app._sendIq(orig, ok if hs else None, err if he else None)

        def ok(reply, orig):
            fired("success", rs, reply, orig)

        def err(reply, orig):
            fired("error", re, reply, orig)
        fire_and_forget = len(self.requests) % 2 == 1
        self.requests[rid] = ("app", kind, ent)
        if fire_and_forget:
            # every other request hands over bound methods of a helper object nothing else refers to (the usual
            # fire-and-forget request object): the outstanding request is what keeps its callbacks alive
            class _Req(object):
                def on_ok(self, reply, orig):
                    ok(reply, orig)

                def on_err(self, reply, orig):
                    err(reply, orig)
            h = _Req()
            self.app._sendIq(ent, h.on_ok if hs else None, h.on_err if he else None)
            del h                       # (reference counting frees it at once if nothing else holds it)
        else:
            self.app._sendIq(ent, ok if hs else None, err if he else None)
        return rid

    def _on_bottom_send(self, node):
        """called from inside Bottom.send: deliver the scripted stanzas upward before send() returns"""
        if not self.script or node.tag != "iq" or node["type"] not in ("get", "set"):
            return
        script, self.script = self.script, None
        if self.cur_lib is not None and node["id"] not in self.requests:
            self.requests[node["id"]] = ("lib", self.cur_lib, node)
        def deliver():
            for d in script:
                mid, typ = d[0], d[1]
                self.log.append(("nested", mid, typ))
                try:
                    self.bottom.toUpper(self.reply_node(*d))
                except Exception as e:   # a reader thread would see it; the sender does not
                    self.log.append(("exc", e, mid))
        if not self.reader_thread:
            return deliver()
        t = threading.Thread(target=deliver, name="c08-reader")
        t.daemon = True
        t.start()
        t.join(20)
        if t.is_alive():
            raise RuntimeError("reader thread blocked while the sender is inside send()")

    def lib_request(self, lkind):
        self.cur_lib = lkind
        try:
            return self._lib_request(lkind)
        finally:
            self.cur_lib = None

    def _lib_request(self, lkind):
        nested = bool(self.script)
        nsent = len(self.bottom.sent)
        tok = "%s#%d" % (lkind, len(self.requests))
        if lkind in ("fetch_ctl", "fetch_send", "fetch_recv"):
            lay = {"fetch_ctl": self.ctl, "fetch_send": self.send, "fetch_recv": self.recv}[lkind]
            jid = "49151%07d@s.whatsapp.net" % (len(self.requests) + 100)

            def res(success_jids, errors, _lay=lay, _jid=jid, _tok=tok):
                # the key-fetch closure walks the ORIGINAL request's jids: with an empty result
                # list it must have put exactly this request's jid on skipEncJids
                self.log.append(("libcb", lkind, "success", _tok if _jid in _lay.skipEncJids else None))

            def err(node, entity, _jid=jid, _tok=tok):
                self.log.append(("libcb", lkind, "error", _tok if entity.jids == [_jid] else None))
            lay.getKeysFor([jid], res, err)
        elif lkind == "keyupload":
            ident, spk, pks = keys()
            pk = pks[self.npk % len(pks)]
            self.npk += 1
            tok = ("pk", pk.getId())
            self.ctl.flush_keys(spk, [pk])
        elif lkind == "groupinfo":
            tok = ("msg", "m%d" % len(self.requests))
            msg = N("message", {"to": GJID, "type": "text", "id": tok[1]},
                    [N("proto", {}, None, b"\x0a\x02hi")])
            self.send.send(msg)
        elif lkind == "libping":
            # exactly what YowPingThread.run does: note the id as an outstanding keep-alive, then send
            ping = PingIqProtocolEntity()
            iq = self.layer("iq")
            iq.waitPong(ping.getId())
            iq.sendIq(ping)
        else:
            raise ValueError(lkind)
        new = self.bottom.sent[nsent:]
        assert new and new[0].tag == "iq" and (nested or len(new) == 1), "lib request %s sent %r" % (lkind, new)
        rid = new[0]["id"]
        self.by_token[tok] = rid
        self.requests[rid] = ("lib", lkind, new[0])
        return rid

    def reply_node(self, mid, typ, shape, content=None):
        rid = self.rid(mid)
        req = self.requests.get(rid)
        attrs = {"id": rid, "type": typ, "from": SERVER}
        children = []
        if typ == "error":
            children = content_children(content or "err-code-text")
        elif typ == "result":
            if req is not None:
                children = result_children(req[1])
                if req[1] in ("lastseen", "ginfo", "gadd", "gremove", "gparts", "groupinfo"):
                    attrs["from"] = JID if req[1] == "lastseen" else GJID
            elif shape == "sync":
                children = result_children("sync")
            if content in SYNC_CONTENTS:
                children = content_children(content)
            elif content:
                children = children + content_children(content)
        elif content:
            children = content_children(content)
        if content in NO_FROM:
            attrs.pop("from", None)
        if shape == "sping":
            attrs["xmlns"] = "urn:xmpp:ping"
        elif shape == "sync" and typ != "result":
            children = children + result_children("sync")
        return N("iq", attrs, children)

    def other_node(self, tag, mid):
        rid = self.rid(mid)
        if tag == "receipt":
            return N("receipt", {"id": rid, "from": JID, "t": "1400000000"})
        if tag == "ack":
            return N("ack", {"id": rid, "class": "message", "from": JID, "t": "1400000000"})
        if tag == "presence":
            return N("presence", {"from": JID, "id": rid})
        if tag == "chatstate":
            return N("chatstate", {"from": JID, "id": rid}, [N("composing")])
        raise ValueError(tag)

    def _req_mid(self, rid):
        return None if rid is None else self.mid(rid)

    def run_op(self, op):
        """execute one op; returns the canonical event list, in temporal order"""
        del self.log[:]
        if op[0] in ("app", "lib"):
            sync = [list(d) for d in op_sync(op)]
            self.script = sync or None
            try:
                rid = self.app_request(op[1], bool(op[2]), bool(op[3]), *[int(x) for x in op[4:7]]) \
                    if op[0] == "app" else self.lib_request(op[1])
            finally:
                self.script = None
            return [["issued", self.mid(rid)]] + self.decode_log(request=True)
        node = self.reply_node(*op[1:5]) if op[0] == "dlv" else self.other_node(op[1], op[2])
        try:
            self.stack.receive(node)
        except Exception as e:   # the key-upload error callback raises by design
            self.log.append(("exc", e, op[1] if op[0] == "dlv" else None))
        return self.decode_log()

    def decode_log(self, request=False):
        ev = []
        for rec in list(self.log):
            what = rec[0]
            if what == "nested":
                continue
            if what == "appcb":
                ev.append(["appcb", self.mid(rec[1]), rec[2], self._req_mid(rec[3]), rec[4]])
            elif what == "libcb":
                ev.append(["libcb", rec[1], rec[2], self._req_mid(self.by_token.get(rec[3]))])
            elif what == "keys_sent":
                rid = self.by_token.get(("pk", rec[1][0])) if len(rec[1]) == 1 else None
                ev.append(["libcb", "keyupload", "success", self._req_mid(rid)])
            elif what == "down":
                n = rec[1]
                if n.tag == "message" and n.getChild("enc") is not None:
                    # the send layer's group-info success closure encrypts and sends the ORIGINAL message
                    ev.append(["libcb", "groupinfo", "success", self._req_mid(self.by_token.get(("msg", n["id"])))])
                elif n.tag == "iq" and n["type"] == "result":
                    ev.append(["pong", self.mid(n["id"])])
                elif n.tag == "iq":
                    ev.append(["sent", self.mid(n["id"])])   # a request going down (first time or re-sent)
                else:
                    ev.append(["down", n.tag])
            elif what in ("iface", "top"):
                e = rec[1]
                if e.getTag() == "iq":
                    ev.append([what, self.mid(e.getId()), e.getType()] if what == "iface" else [what, self.mid(e.getId())])
                else:
                    ev.append([what + "-other", e.getTag()])
            elif what == "exc":
                exc = rec[1]
                if str(exc) == "Sent keys were not accepted":
                    # AxolotlControlLayer.onSentKeysError (the registered error callback) raises by design;
                    # it carries no request, so the request is taken to be the delivered id
                    ev.append(["libcb", "keyupload", "error", rec[2]])
                else:
                    ev.append(["exception", type(exc).__name__, str(exc)[:120]])
        return ev

    def registries(self):
        """{layer name: sorted model ids registered}; 'app' is the interface layer's registry"""
        out = {}
        for name in LAYERS:
            lay = self.layer(name)
            out[name] = sorted(self.mid(k) for k in lay.iqRegistry.keys()) if lay is not None else []
        out["app"] = sorted(self.mid(k) for k in self.app.iqRegistry.keys())
        return out

    def run(self, history):
        return [self.run_op(op) for op in history]
