"""C12 fault-injection rig on the REAL default yowsup stack (DESIGN.md, "### C12", Tie).

The stack is ``YowStackBuilder.getDefaultLayers()`` plus an application layer on top:

    idx short name         instance
    0   network            YowNetworkLayer          (fake dispatcher below it)
    1   segments           YowNoiseSegmentsLayer
    2   noise              YowNoiseLayer            (also owns ``_flush_lock``)
    3   coder              YowCoderLayer
    4   logger             YowLoggerLayer
    5   axolotl_control    AxolotlControlLayer
    6   axolotl_parallel   YowParallelLayer((AxolotlSendLayer, AxolotlReceivelayer))   one lock
    7   protocol_parallel  YowParallelLayer(15 protocol layers)                      one lock
    8   top                _Top(YowInterfaceLayer)  (recorder; its entity callbacks can be armed to raise)

Nothing of yowsup is replaced except (a) ``AsyncoreConnectionDispatcher`` in
``yowsup.layers.network.layer``'s namespace (fake dispatcher, records ``sendData``), and (b) one-shot
wrappers that ``arm`` puts on ONE instance method (``send``/``receive``) of ONE layer.  Locks are never
replaced; ``lock_table`` only reads ``Lock.locked()``.

How the transport state is reached: the REAL path.  ``EVENT_STATE_CONNECT`` is broadcast from the top,
the network layer creates the (fake) dispatcher, the rig calls ``onConnected()``; the auth layer then
broadcasts ``EVENT_AUTH``, the noise layer writes the ``WA\\x04\\x00`` prologue and starts its real
``WANoiseProtocolHandshakeWorker`` thread.  The rig's ``_Peer`` is a Noise responder built from the same
dissononce primitives consonance uses (XX on the first connect, IK on reconnects because the noise layer
persisted the server static key); it answers the client hello through ``network.onRecvData`` and keeps
the resulting CipherState pair, so it decrypts what the stack writes strictly in order (a reordered or
torn frame is a real decrypt failure) and encrypts what it feeds in.  ``<success>`` is never delivered,
so the axolotl control layer does not start its key upload and the ping thread is never started
(``PROP_PING_INTERVAL`` = 0 as well); ordinary stanzas flow both ways regardless.

API deviations / conventions (see also the final docstrings):
  * op_send("raw_node"): a bare ``ProtocolTreeNode`` handed to the protocol group raises
    ``AttributeError`` (no ``getTag``) in YowProtocolLayer.send -- that is available as
    op_send("bare_node").  "raw_node" therefore wraps the node in ``_RawIq`` (a real
    ``IqProtocolEntity`` subclass, xmlns "w", whose ``toProtocolTreeNode`` returns the given node), which
    the real iq layer forwards with ``toLower(entity.toProtocolTreeNode())``.
  * Real causes are special op kinds; ``arm`` with a real cause records that the NEXT op of that
    direction is replaced by the special kind (one-shot), whatever ``kind`` the caller passes:
        down  unencodable   -> op_send("unencodable")      AttributeError ('int' object has no attribute 'index')
                               in coder: WriteEncoder.writeString via writeAttributes (int attribute value)
        down  oversize      -> op_send("oversize")         ValueError     in segments.send   (see OVERSIZE note)
        down  not_transport -> arm() calls self.disconnect() at once; every send until reconnect()
                               raises transitions.core.MachineError in noise.send (not one-shot by nature)
        up    not_transport -> arm() calls self.disconnect() at once; every incoming frame until
                               reconnect() raises MachineError in noise._flush_incoming_buffer (the network
                               layer does not check `connected` on receive).  NOTE: the undecrypted segment
                               stays in noise._incoming_segments_queue, so the next handshake worker reads
                               it as the server hello: reconnect() then fails (RigError) -- real behaviour.
        up    undecodable   -> op_recv("garbage")          builtins Exception("invalid list size in readListSize:
                               token 250") from ReadDecoder.readListSize in coder.receive
        up    handler_valueerror -> op_recv("notification_unsupported")  ValueError in protocol_parallel
        up    app_callback  -> top layer's entity callback raises RuntimeError("app callback") once
        up    decrypt_fail  -> op_recv("decrypt_fail")     dissononce DecryptFailedException (wraps InvalidTag) in
                               noise._flush_incoming_buffer -> WANoiseTransport.recv; the stack's nonce is
                               not advanced and the peer's real send state is untouched, so later frames decrypt
    The ``layer`` field of a real-cause site is ignored (the cause fixes the layer); ``rig.cause_layer``
    maps cause -> short layer name.
  * Result dicts have two extra keys: "wire_tags" (tags of the newly written stanzas as decoded by the
    peer, "?" if the peer could not decode) and "wire_error" (None, or the class name of the peer-side
    decrypt error that stopped in-order reading).

OVERSIZE note: the node is ``<iq><big>DATA</big></iq>`` with 2**24 bytes of data, sent from the top; it
passes the real encoder, the real noise encryption and reaches ``YowNoiseSegmentsLayer.send`` which raises
``ValueError("data too large to write")`` (called from noise._handle_stream_event -> noise.toLower, i.e.
with the noise lock taken).  Measured 0.7 s per op, no patching of any length check.

Stream desynchronisation (faithfully reported, not a rig bug): a fault BELOW the point of encryption
(down at segments/network: the frame was already encrypted, the send nonce advanced, the bytes never hit
the wire) makes every later frame undecryptable for the in-order peer ("wire_error":
"DecryptFailedException", wire_frames 0).  Symmetrically a frame lost on the way up before decryption
(up generic at network/segments/noise) makes the next incoming frame raise DecryptFailedException in the
noise layer.  ``Rig.resync_peer()`` copies the stack's nonces to the peer for callers who want to look at
locks/progress only.
"""
import os
import sys
import threading
import time

SHORT_NAMES = ("network", "segments", "noise", "coder", "logger", "axolotl_control",
               "axolotl_parallel", "protocol_parallel", "top")

SEND_KINDS = ("iq_ping", "presence", "raw_node", "bare_node", "unencodable", "oversize", "oversize_exact", "largest_ok")
RECV_KINDS = ("iq_ping_from_server", "pong", "receipt", "ack", "presence", "notification_unsupported",
              "garbage", "decrypt_fail")

DOWN_CAUSES = ("generic", "unencodable", "oversize", "not_transport")
UP_CAUSES = ("generic", "undecodable", "handler_valueerror", "app_callback", "decrypt_fail", "not_transport")
REAL_CAUSES = (("down", "unencodable"), ("down", "oversize"), ("down", "not_transport"),
               ("up", "undecodable"), ("up", "handler_valueerror"),
               ("up", "app_callback"), ("up", "decrypt_fail"), ("up", "not_transport"))

SERVER = "s.whatsapp.net"
PHONE = "4915200000012"
PEER_JID = "4915200000077@s.whatsapp.net"

class RigError(Exception):
    """The rig itself could not do its job (e.g. the handshake did not reach transport state)."""


_process = {}   # per-process cache: static keypairs (generated once; nothing in results depends on them)


def _keys():
    if not _process:
        from consonance.structs.keypair import KeyPair
        from dissononce.dh.x25519.x25519 import X25519DH
        _process["client"] = KeyPair.generate()
        _process["server"] = X25519DH().generate_keypair()
    return _process


# ----------------------------------------------------------------------------------------------
# fake dispatcher
# ----------------------------------------------------------------------------------------------
class FakeDispatcher(object):
    """Stands in for AsyncoreConnectionDispatcher.  Contract kept: disconnect() yields
    callbacks.onDisconnected() synchronously.  connect() only records; the rig fires onConnected()."""
    def __init__(self, callbacks):
        self.callbacks = callbacks
        self.cond = threading.Condition()
        self.chunks = []    # bytes passed to sendData, in call order
        self.endpoint = None
        self.open = False
        self.fail_write_in = None   # n: the (n+1)-th next write fails as a lost connection
        self.write_failures = 0

    def connect(self, endpoint):
        self.endpoint = endpoint
        self.open = True

    def disconnect(self):
        self.open = False
        self.callbacks.onDisconnected()

    def sendData(self, data):
        if self.fail_write_in is not None:
            # the socket write fails with a connection-lost error: both shipped dispatchers report that
            # SYNCHRONOUSLY, from inside sendData on the sending thread (asyncore: send() maps EPIPE / ECONNRESET to
            # handle_close() -> connectionCallbacks.onDisconnected(); the socket dispatcher calls disconnect())
            if self.fail_write_in == 0:
                self.fail_write_in = None
                self.write_failures += 1
                self.open = False
                self.callbacks.onDisconnected()
                return
            self.fail_write_in -= 1
        with self.cond:
            self.chunks.append(bytes(data))
            self.cond.notify_all()


# ----------------------------------------------------------------------------------------------
# peer = server side (Noise responder + stanza codec)
# ----------------------------------------------------------------------------------------------
class _Peer(object):
    PROLOGUE = b"WA\x04\x00"

    def __init__(self):
        from yowsup.layers.coder.encoder import WriteEncoder
        from yowsup.layers.coder.decoder import ReadDecoder
        from yowsup.layers.coder.tokendictionary import TokenDictionary
        self._enc = WriteEncoder(TokenDictionary())
        self._dec = ReadDecoder(TokenDictionary())
        self.reset(None)

    def reset(self, dispatcher):
        self.dispatcher = dispatcher
        self._nchunks = 0
        self._buf = bytearray()
        self._prologue_seen = False
        self.recv_cs = None     # decrypts what the client wrote
        self.send_cs = None     # encrypts what the client will read
        self.client_payload = None
        self.wire_error = None
        self.last_plain = []

    # -- byte plumbing -------------------------------------------------------------------------
    def _pull(self):
        d = self.dispatcher
        with d.cond:
            new = d.chunks[self._nchunks:]
            self._nchunks = len(d.chunks)
        for c in new:
            self._buf.extend(c)

    def _next_frame(self):
        """One whole frame payload from the buffered client bytes, or None."""
        self._pull()
        if not self._prologue_seen:
            if len(self._buf) < 4:
                return None
            if bytes(self._buf[:4]) != self.PROLOGUE:
                raise RigError("peer: bad prologue %r" % bytes(self._buf[:4]))
            del self._buf[:4]
            self._prologue_seen = True
        if len(self._buf) < 3:
            return None
        n = (self._buf[0] << 16) | (self._buf[1] << 8) | self._buf[2]
        if len(self._buf) < 3 + n:
            return None
        payload = bytes(self._buf[3:3 + n])
        del self._buf[:3 + n]
        return payload

    def wait_frame(self, timeout=5.0):
        end = time.time() + timeout
        while True:
            f = self._next_frame()
            if f is not None:
                return f
            left = end - time.time()
            if left <= 0:
                raise RigError("peer: no frame from the stack within %.1fs" % timeout)
            with self.dispatcher.cond:
                if len(self.dispatcher.chunks) == self._nchunks:
                    self.dispatcher.cond.wait(min(left, 0.05))

    @staticmethod
    def frame(payload):
        n = len(payload)
        return bytes(bytearray([(n >> 16) & 0xFF, (n >> 8) & 0xFF, n & 0xFF])) + bytes(payload)

    # -- handshake -----------------------------------------------------------------------------
    def _handshakestate(self):
        from dissononce.processing.impl.handshakestate import HandshakeState
        from dissononce.processing.impl.cipherstate import CipherState
        from dissononce.cipher.aesgcm import AESGCMCipher
        from dissononce.hash.sha256 import SHA256Hash
        from dissononce.dh.x25519.x25519 import X25519DH
        from consonance.dissononce_extras.processing.symmetricstate_wa import WASymmetricState

        class Sym(WASymmetricState):
            # WA variant, decrypt side: no mix_hash while the cipherstate has no key
            def decrypt_and_hash(self, ciphertext):
                plaintext = self._cipherstate.decrypt_with_ad(self._h, ciphertext)
                if self._cipherstate.has_key():
                    self.mix_hash(ciphertext)
                return plaintext
        return HandshakeState(Sym(CipherState(AESGCMCipher()), SHA256Hash()), X25519DH())

    def _certificate(self):
        from consonance.proto import wa20_pb2
        det = wa20_pb2.NoiseCertificate.Details()
        det.serial = 1
        det.issuer = "WhatsAppLongTerm1"
        det.subject = "rig"
        det.key = _keys()["server"].public.data
        cert = wa20_pb2.NoiseCertificate()
        cert.details = det.SerializeToString()
        cert.signature = b"\x00" * 64     # invalid signature is only logged by the client
        return cert.SerializeToString()

    def handshake(self, feed, corrupt=False):
        """Serve one handshake. `feed(bytes)` delivers bytes to the stack (network.onRecvData).
        corrupt=True: one byte of the server hello's encrypted part is flipped and nothing else is served."""
        from consonance.proto import wa20_pb2
        from dissononce.processing.handshakepatterns.interactive.XX import XXHandshakePattern
        from dissononce.processing.handshakepatterns.interactive.IK import IKHandshakePattern
        msg = wa20_pb2.HandshakeMessage()
        msg.ParseFromString(self.wait_frame())
        hello = msg.client_hello
        hs = self._handshakestate()
        out = wa20_pb2.HandshakeMessage()
        if hello.HasField("static"):
            # IK: client knows our static key (reconnect)
            self.pattern = "IK"
            hs.initialize(IKHandshakePattern(), False, self.PROLOGUE, s=_keys()["server"])
            payload = bytearray()
            hs.read_message(hello.ephemeral + hello.static + hello.payload, payload)
            buf = bytearray()
            pair = hs.write_message(b"", buf)
            out.server_hello.ephemeral = bytes(buf[:32])
            out.server_hello.payload = bytes(buf[32:])
            if corrupt:
                out.server_hello.payload = bytes([buf[32] ^ 0x5A]) + bytes(buf[33:])
                feed(self.frame(out.SerializeToString()))
                return
            feed(self.frame(out.SerializeToString()))
        else:
            self.pattern = "XX"
            hs.initialize(XXHandshakePattern(), False, self.PROLOGUE, s=_keys()["server"])
            hs.read_message(hello.ephemeral, bytearray())
            buf = bytearray()
            hs.write_message(self._certificate(), buf)
            out.server_hello.ephemeral = bytes(buf[:32])
            out.server_hello.static = bytes(buf[32:80])
            out.server_hello.payload = bytes(buf[80:])
            if corrupt:
                out.server_hello.static = bytes([buf[32] ^ 0x5A]) + bytes(buf[33:80])
                feed(self.frame(out.SerializeToString()))
                return
            feed(self.frame(out.SerializeToString()))
            fin = wa20_pb2.HandshakeMessage()
            fin.ParseFromString(self.wait_frame())
            payload = bytearray()
            pair = hs.read_message(fin.client_finish.static + fin.client_finish.payload, payload)
        # responder: pair[0] = initiator->responder (our receive), pair[1] = responder->initiator (our send)
        self.recv_cs, self.send_cs = pair[0], pair[1]
        cp = wa20_pb2.ClientPayload()
        cp.ParseFromString(bytes(payload))
        self.client_payload = cp

    # -- transport -----------------------------------------------------------------------------
    def encode(self, node):
        return bytes(bytearray(self._enc.protocolTreeNodeToBytes(node)))

    def encrypt_frame(self, plaintext):
        return self.frame(self.send_cs.encrypt_with_ad(b"", bytes(plaintext)))

    def wrong_key_frame(self, plaintext):
        from dissononce.processing.impl.cipherstate import CipherState
        from dissononce.cipher.aesgcm import AESGCMCipher
        cs = CipherState(AESGCMCipher())
        cs.initialize_key(b"\x42" * 32)
        return self.frame(cs.encrypt_with_ad(b"", bytes(plaintext)))

    def read_new(self):
        """Whole new frames the stack wrote, decrypted strictly in order with the real cipher state.
        Returns (count, tags). Stops at the first decrypt failure (recorded in wire_error)."""
        n, tags = 0, []
        self.last_plain = []
        if self.recv_cs is None or self.wire_error is not None:
            return n, tags
        while True:
            f = self._next_frame()
            if f is None:
                break
            try:
                plain = self.recv_cs.decrypt_with_ad(b"", f)
            except Exception as e:          # peer side (not the system under test)
                self.wire_error = e.__class__.__name__
                break
            n += 1
            self.last_plain.append(bytes(plain))
            try:
                node = self._dec.getProtocolTreeNode(bytearray(plain))
                tags.append(node.tag if node is not None else "?")
            except Exception:
                tags.append("?")
        return n, tags


# ----------------------------------------------------------------------------------------------
# the rig
# ----------------------------------------------------------------------------------------------
def _make_top_class():
    from yowsup.layers.interface import YowInterfaceLayer, ProtocolEntityCallback

    class _Top(YowInterfaceLayer):
        """Application layer: records what arrives, can be armed so that the callback raises once."""
        TAGS = ("iq", "receipt", "ack", "notification", "presence", "message", "success", "failure",
                "chatstate", "ib", "call", "stream:error", "stream:features")

        def __init__(self):
            super(_Top, self).__init__()
            self.seen = []
            self.seen_ids = []
            self.raise_ids = set()
            self.block_ids = {}        # stanza id -> (entered Event, go Event, raise afterwards?)
            self.raise_once = False
            for t in self.TAGS:
                self.entity_callbacks[t] = self._on_entity

        def _on_entity(self, entity):
            self.seen.append("%s:%s" % (entity.getTag(), entity.__class__.__name__))
            eid = entity.getId() if hasattr(entity, "getId") else None
            self.seen_ids.append(eid)
            if eid in self.block_ids:
                entered, go, fail = self.block_ids.pop(eid)
                entered.set()
                go.wait(10.0)
                if fail:
                    raise RuntimeError("app callback")
            if eid in self.raise_ids:
                self.raise_ids.discard(eid)
                raise RuntimeError("app callback")
            if self.raise_once:
                self.raise_once = False
                raise RuntimeError("app callback")

        def __str__(self):
            return "Rig Top Layer"
    return _Top


class Rig(object):
    cause_layer = {"unencodable": "coder", "oversize": "segments", "oversize_exact": "segments", "not_transport": "noise",   # both dirs
                   "undecodable": "coder", "handler_valueerror": "protocol_parallel",
                   "app_callback": "top", "decrypt_fail": "noise"}

    def __init__(self, scratch, seed=0):
        from harness import env
        env.setup(scratch)
        t0 = time.time()
        self.scratch = scratch
        self.seed = seed
        import yowsup.layers.network.layer as netmod
        from yowsup.stacks.yowstack import YowStackBuilder, YowStack
        from yowsup.layers.protocol_iq import YowIqProtocolLayer
        from yowsup.layers.protocol_iq.layer import YowIqProtocolLayer as _IqCls
        from yowsup.axolotl.manager import AxolotlManager
        from yowsup.profile.profile import YowProfile
        from yowsup.config.v1.config import Config
        from yowsup.common.tools import StorageTools

        netmod.AsyncoreConnectionDispatcher = FakeDispatcher
        AxolotlManager.COUNT_GEN_PREKEYS = 2
        self._YowStack = YowStack

        profile_name = "rig%d" % seed
        StorageTools.getStorageForProfile(profile_name + "/x")     # creates <scratch>/yowsup/<profile>/
        config = Config(phone=PHONE, client_static_keypair=_keys()["client"])
        self.profile = YowProfile(profile_name, config)

        Top = _make_top_class()
        layers = YowStackBuilder.getDefaultLayers() + (Top,)
        self.stack = YowStack(layers, reversed=False,
                              props={"profile": self.profile, YowIqProtocolLayer.PROP_PING_INTERVAL: 0})
        self.layers = [(SHORT_NAMES[i], self.stack.getLayer(i)) for i in range(len(SHORT_NAMES))]
        self.by_name = dict(self.layers)
        self.net = self.by_name["network"]
        self.noise = self.by_name["noise"]
        self.top = self.by_name["top"]
        self.iq = [s for s in self.by_name["protocol_parallel"].sublayers if isinstance(s, _IqCls)][0]
        self.peer = _Peer()
        self._next_override = {"down": None, "up": None}
        self._seq = 0
        self.connected = False
        self._connect()
        self.build_seconds = time.time() - t0

    # -- lifecycle -----------------------------------------------------------------------------
    def _drain_detached(self):
        q = self._YowStack._YowStack__detachedQueue
        while True:
            try:
                fn = q.get(False)
            except Exception:
                break
            fn()

    def _connect(self, stop_before_server_hello=False):
        from yowsup.layers import YowLayerEvent
        from yowsup.layers.network import YowNetworkLayer
        old = self.net._dispatcher
        self.stack.broadcastEvent(YowLayerEvent(YowNetworkLayer.EVENT_STATE_CONNECT))
        self._drain_detached()
        self.dispatcher = self.net._dispatcher
        if self.dispatcher is old or not isinstance(self.dispatcher, FakeDispatcher):
            raise RigError("network layer did not create a (fake) dispatcher")
        self.peer.reset(self.dispatcher)
        # yowsup's AxolotlManager.level_prekeys writes progress to sys.stdout; keep check output clean
        import io
        import contextlib
        with contextlib.redirect_stdout(io.StringIO()):
            self.net.onConnected()       # -> EVENT_STATE_CONNECTED up -> EVENT_AUTH down -> handshake worker
        if stop_before_server_hello:
            return                       # the worker has written its hello and waits: protocol state "handshake"
        self._connect_finish()

    def _connect_finish(self, corrupt=False):
        """Second half of a connect: the peer answers the client hello.  corrupt=True: the server hello does not
        authenticate, the handshake fails (a <failure> goes up, protocol state error) and RigError is NOT raised."""
        try:
            self.peer.handshake(self.net.onRecvData, corrupt=corrupt)
        except RigError:
            raise
        except Exception as e:
            raise RigError("peer handshake failed: %s: %s" % (e.__class__.__name__, e))
        w = self.noise._handshake_worker
        if w is not None:
            w.join(5.0)
        self._drain_detached()
        if corrupt:
            if self.noise._wa_noiseprotocol.state == "transport":
                raise RigError("handshake completed although the server hello was corrupted")
            return
        if self.noise._wa_noiseprotocol.state != "transport":
            raise RigError("noise layer state %r after handshake" % self.noise._wa_noiseprotocol.state)
        self.connected = True

    def arm_socket_failure(self, nth_write=0):
        """the (nth_write+1)-th next dispatcher write fails: connection lost, reported from inside sendData"""
        self.dispatcher.fail_write_in = nth_write

    def after_socket_failure(self):
        """the stack loop delivers the deferred DISCONNECTED; the rig forgets the connection"""
        fired = self.dispatcher.write_failures
        self.dispatcher.fail_write_in = None
        if fired:
            self._drain_detached()
            self.connected = False
        return fired

    def disconnect(self):
        from yowsup.layers import YowLayerEvent
        from yowsup.layers.network import YowNetworkLayer
        self.stack.broadcastEvent(YowLayerEvent(YowNetworkLayer.EVENT_STATE_DISCONNECT, reason="rig"))
        self._drain_detached()
        self.connected = False

    def reconnect(self, drop_stale_segments=False):
        """disconnect (if connected) + connect + fresh handshake (IK: the noise layer saved the server key).
        yowsup keeps undecrypted segments in noise._incoming_segments_queue across a reconnect (they arrive
        there when a frame comes in while not in transport state); the next handshake worker then reads the
        stale segment as the server hello and the handshake fails -> RigError.  That is real behaviour and
        the default; drop_stale_segments=True empties that queue first (rig intervention, for callers that
        only care about locks)."""
        if self.connected:
            self.disconnect()
        if drop_stale_segments:
            q = self.noise._incoming_segments_queue
            while q.qsize():
                q.get(False)
        self._connect()

    def close(self):
        try:
            if self.connected and not any(l.lock.locked() for _, l in self.layers):
                self.disconnect()
        except Exception:
            pass

    # -- observation ---------------------------------------------------------------------------
    def lock_table(self):
        t = {}
        for name, inst in self.layers:
            t[name] = inst.lock.locked()
        t["noise._flush_lock"] = self.noise._flush_lock.locked()
        t["iq._pingQueueLock"] = self.iq._pingQueueLock.locked()
        return t

    def locked(self):
        return sorted(k for k, v in self.lock_table().items() if v)

    def noise_state(self):
        return self.noise._wa_noiseprotocol.state

    def resync_peer(self):
        """Copy the stack's cipher nonces to the peer (after a frame was lost below the point of
        encryption / before decryption) so that later frames decrypt again.  Reads private fields of the
        real WANoiseTransport; changes nothing in the stack."""
        tr = self.noise._wa_noiseprotocol._transport
        if tr is None or self.peer.recv_cs is None:
            return False
        self.peer._pull()
        del self.peer._buf[:]
        self.peer.recv_cs._nonce = tr._send_cipherstate._nonce
        self.peer.send_cs._nonce = tr._recv_cipherstate._nonce
        self.peer.wire_error = None
        return True

    # -- fault arming --------------------------------------------------------------------------
    def arm(self, site):
        layer, d, cause = site.get("layer"), site["dir"], site.get("cause", "generic")
        if cause == "generic":
            inst = self.by_name[layer]
            attr = "send" if d == "down" else "receive"

            def once(data, _inst=inst, _attr=attr):
                del _inst.__dict__[_attr]          # one-shot: restore the class's method first
                raise RuntimeError("injected")
            assert attr not in inst.__dict__, "fault already armed on %s.%s" % (layer, attr)
            inst.__dict__[attr] = once
            return
        if d == "down":
            if cause == "not_transport":
                self.disconnect()
            elif cause in ("unencodable", "oversize", "oversize_exact"):
                self._next_override["down"] = cause
            else:
                raise ValueError("unknown down cause %r" % cause)
        else:
            if cause == "not_transport":
                self.disconnect()
            elif cause == "app_callback":
                self.top.raise_once = True
            elif cause == "undecodable":
                self._next_override["up"] = "garbage"
            elif cause == "handler_valueerror":
                self._next_override["up"] = "notification_unsupported"
            elif cause == "decrypt_fail":
                self._next_override["up"] = "decrypt_fail"
            else:
                raise ValueError("unknown up cause %r" % cause)

    # -- operations ----------------------------------------------------------------------------
    def _id(self, prefix):
        self._seq += 1
        return "%s-%d" % (prefix, self._seq)

    def _result(self, outcome, exc, top0):
        n, tags = self.peer.read_new() if self.peer.dispatcher is not None else (0, [])
        return {"outcome": outcome, "exc": exc, "wire_frames": n, "top": list(self.top.seen[top0:]),
                "wire_tags": tags, "wire_error": self.peer.wire_error}

    def _send_payload(self, kind):
        from yowsup.structs import ProtocolTreeNode
        from yowsup.layers.protocol_iq.protocolentities import PingIqProtocolEntity, IqProtocolEntity
        from yowsup.layers.protocol_presence.protocolentities import PresenceProtocolEntity

        class _RawIq(IqProtocolEntity):
            def __init__(self, node):
                super(_RawIq, self).__init__("w", _id=node["id"], _type="get", to=SERVER)
                self._node = node

            def toProtocolTreeNode(self):
                return self._node
        if kind == "iq_ping":
            self.last_ping_id = self._id("ping")
            return PingIqProtocolEntity(to=SERVER, _id=self.last_ping_id)
        if kind == "presence":
            return PresenceProtocolEntity(_type="available", name="rig")
        if kind in ("msg_a", "msg_b"):
            # a text message to a 1:1 contact the store has no session with: the axolotl send layer keeps the
            # plaintext and sends a get-keys iq down instead (state is created ABOVE the layers that may fail)
            from yowsup.layers.protocol_messages.protocolentities import TextMessageProtocolEntity
            return TextMessageProtocolEntity("hello", to="4915200000%d@s.whatsapp.net" % (1 if kind == "msg_a" else 2))
        if kind == "raw_node":
            return _RawIq(ProtocolTreeNode("iq", {"id": self._id("raw"), "type": "get", "xmlns": "w", "to": SERVER}))
        if kind == "bare_node":
            return ProtocolTreeNode("iq", {"id": self._id("bare"), "type": "get", "xmlns": "w", "to": SERVER})
        if kind == "unencodable":
            # an int attribute value: WriteEncoder.writeString has no branch for it
            return _RawIq(ProtocolTreeNode("iq", {"id": self._id("raw"), "type": "get", "xmlns": "w", "to": SERVER,
                                                  "count": 7}))
        if kind == "oversize":
            return _RawIq(ProtocolTreeNode("iq", {"id": self._id("raw"), "type": "get", "xmlns": "w", "to": SERVER},
                                           [ProtocolTreeNode("big", {}, None, b"\x00" * (2 ** 24))]))
        if kind in ("oversize_exact", "largest_ok"):
            # the boundary itself: the encoded frame is exactly the first length the segment layer cannot carry once
            # the 16-byte tag is appended (2^24 - 16), or one byte less (the largest frame that does fit)
            target = (1 << 24) - 16 - (1 if kind == "largest_ok" else 0)
            nid = self._id("raw")

            def mk(n):
                return ProtocolTreeNode("iq", {"id": nid, "type": "get", "xmlns": "w", "to": SERVER},
                                        [ProtocolTreeNode("big", {}, None, b"\x00" * n)])
            n = target - 200
            n += target - len(self.peer.encode(mk(n)))
            node = mk(n)
            assert len(self.peer.encode(node)) == target
            return _RawIq(node)
        raise ValueError("unknown send kind %r" % kind)

    def op_send(self, kind):
        """Send from the top layer (top.send -> top.toLower) on the calling thread."""
        if self._next_override["down"]:
            kind, self._next_override["down"] = self._next_override["down"], None
        payload = self._send_payload(kind)
        top0 = len(self.top.seen)
        # what the peer must read for this send: the stanza's own encoding, nothing else (kinds that pass the layers
        # unchanged; a stand-alone encoder instance)
        want = None
        if kind in ("iq_ping", "presence", "raw_node", "bare_node"):
            try:
                want = self.peer.encode(payload.toProtocolTreeNode() if hasattr(payload, "toProtocolTreeNode")
                                        else payload)
            except Exception:
                want = None
        try:
            self.top.send(payload)
        except Exception as e:
            return self._result("raise", e.__class__.__name__, top0)
        r = self._result("ok", None, top0)
        if want is not None and r["wire_frames"] == 1 and not r["wire_error"]:
            got = self.peer.last_plain[0]
            r["wire_match"] = got == want
            if got != want:
                r["wire_got"], r["wire_want"] = got.hex()[:400], want.hex()[:400]
        return r

    def _recv_bytes(self, kind):
        from yowsup.structs import ProtocolTreeNode
        p = self.peer
        if kind == "iq_ping_from_server":
            node = ProtocolTreeNode("iq", {"type": "get", "xmlns": "urn:xmpp:ping", "from": SERVER,
                                           "id": self._id("sping")})
        elif kind == "pong":
            # the server's answer to the application's last ping (a ping the keep-alive bookkeeping never saw)
            node = ProtocolTreeNode("iq", {"type": "result", "from": SERVER,
                                           "id": getattr(self, "last_ping_id", None) or "no-such-ping"})
        elif kind == "receipt":
            node = ProtocolTreeNode("receipt", {"id": self._id("rcpt"), "from": PEER_JID, "t": "1500000000"})
        elif kind == "ack":
            node = ProtocolTreeNode("ack", {"id": self._id("ack"), "class": "message", "from": PEER_JID,
                                            "t": "1500000000"})
        elif kind == "presence":
            node = ProtocolTreeNode("presence", {"from": PEER_JID, "type": "unavailable", "last": "1500000000"})
        elif kind == "notification_unsupported":
            # type="picture" with neither <set> nor <delete>: YowNotificationsProtocolLayer.raiseErrorForNode
            node = ProtocolTreeNode("notification", {"id": self._id("ntf"), "type": "picture", "from": PEER_JID,
                                                     "t": "1500000000"})
        elif kind == "garbage":
            # flags byte 0, then list-start tag 250: no such list tag
            return p.encrypt_frame(b"\x00\xfa\x01\x02\x03")
        elif kind == "decrypt_fail":
            node = ProtocolTreeNode("presence", {"from": PEER_JID})
            return p.wrong_key_frame(p.encode(node))
        else:
            raise ValueError("unknown recv kind %r" % kind)
        return p.encrypt_frame(p.encode(node))

    def recv_frame(self, kind, app_raises=False):
        """One framed, encrypted stanza from the peer (not delivered yet).  Returns (bytes, stanza id or None).
        app_raises: the application callback will raise when this stanza reaches it."""
        before = self._seq
        data = self._recv_bytes(kind)
        sid = None
        if self._seq != before:
            sid = "%s-%d" % ({"ack": "ack", "receipt": "rcpt", "iq_ping_from_server": "sping",
                              "notification_unsupported": "ntf"}.get(kind, "?"), self._seq)
        if app_raises:
            self.top.raise_ids.add(sid)
        return data, sid

    def feed(self, data):
        """Raw bytes of one network read enter through network.onRecvData on the calling thread."""
        top0 = len(self.top.seen)
        try:
            self.net.onRecvData(data)
        except Exception as e:
            return self._result("raise", e.__class__.__name__, top0)
        return self._result("ok", None, top0)

    def op_recv(self, kind):
        """Peer encrypts a stanza; the framed bytes enter through network.onRecvData on the calling thread."""
        if self._next_override["up"]:
            kind, self._next_override["up"] = self._next_override["up"], None
        top0 = len(self.top.seen)
        try:
            data = self._recv_bytes(kind)
        except Exception as e:       # peer side cannot encrypt (e.g. disconnected): not a stack outcome
            return {"outcome": "rig_error", "exc": e.__class__.__name__, "wire_frames": 0, "top": [],
                    "wire_tags": [], "wire_error": self.peer.wire_error}
        try:
            self.net.onRecvData(data)
        except Exception as e:
            return self._result("raise", e.__class__.__name__, top0)
        return self._result("ok", None, top0)

    # -- threads -------------------------------------------------------------------------------
    def run_in_thread(self, fn, timeout=2.0):
        box = {}

        def run():
            try:
                box["r"] = fn()
            except BaseException as e:     # fn is normally op_send/op_recv which do not raise
                box["r"] = {"outcome": "raise", "exc": e.__class__.__name__}
        t = threading.Thread(target=run)
        t.daemon = True
        t.start()
        t.join(timeout)
        if t.is_alive():
            return ("blocked", None)
        return ("done", box.get("r"))


# ----------------------------------------------------------------------------------------------
# self-demo
# ----------------------------------------------------------------------------------------------
def _short(r):
    if r is None:
        return "-"
    s = r["outcome"] + ("(%s)" % r["exc"] if r.get("exc") else "")
    s += " wire=%d%s" % (r.get("wire_frames", 0), r.get("wire_tags", []))
    if r.get("wire_error"):
        s += " WIRE_ERROR=%s" % r["wire_error"]
    if r.get("top"):
        s += " top=%s" % r["top"]
    return s


def demo_one(scratch, site, seed=0, timeout=1.5, reconnect=False, drop_stale=False):
    rig = Rig(scratch, seed)
    d = site["dir"]
    ok0 = rig.op_send("iq_ping") if d == "down" else rig.op_recv("receipt")
    rig.arm(site)
    r = rig.op_send("iq_ping") if d == "down" else rig.op_recv("receipt")
    held = rig.locked()
    if reconnect:
        def _rc():
            try:
                rig.reconnect(drop_stale_segments=drop_stale)
                return "ok" + ("(stale segments dropped)" if drop_stale else "")
            except RigError as e:
                return "RigError(%s)" % e
        st, rr = rig.run_in_thread(_rc, timeout=8.0)
        rec = " reconnect=%s:%s/%s" % (st, rr, rig.noise_state())
    else:
        rec = ""
    f1 = rig.run_in_thread(lambda: rig.op_send("presence"), timeout)
    f2 = rig.run_in_thread(lambda: rig.op_recv("ack"), timeout)
    f3 = rig.run_in_thread(lambda: rig.op_recv("iq_ping_from_server"), timeout)
    print("%-17s %-4s %-18s | pre: %s | FAULT OP: %s | HELD=%s%s | then send: %s %s | then recv ack: %s %s "
          "| then recv ping: %s %s" % (
              site.get("layer") or rig.cause_layer.get(site["cause"]), d, site["cause"], _short(ok0), _short(r),
              held, rec, f1[0], _short(f1[1]), f2[0], _short(f2[1]), f3[0], _short(f3[1])))
    sys.stdout.flush()
    rig.close()
    return rig


if __name__ == "__main__":
    import tempfile
    from harness import env
    scratch = tempfile.mkdtemp(prefix="c12rig-")
    env.setup(scratch)
    print("tree: %s" % env.REPO)
    t0 = time.time()
    r0 = Rig(scratch, 0)
    print("first Rig build: %.1f ms" % (r0.build_seconds * 1000))
    r1 = Rig(scratch, 0)
    print("second Rig build: %.1f ms (peer saw %s, client username %s)" % (
        r1.build_seconds * 1000, r1.peer.pattern, r1.peer.client_payload.username))
    print("layers: %s" % ", ".join("%d=%s" % (i, n) for i, (n, _) in enumerate(r1.layers)))
    r0.close()
    r1.close()
    print("--- generic faults")
    for name in SHORT_NAMES:
        for d in ("down", "up"):
            demo_one(scratch, {"layer": name, "dir": d, "cause": "generic"})
    print("--- real causes")
    for d, c in REAL_CAUSES:
        demo_one(scratch, {"layer": None, "dir": d, "cause": c}, reconnect=(c == "not_transport"))
    demo_one(scratch, {"layer": None, "dir": "up", "cause": "not_transport"}, reconnect=True, drop_stale=True)
    print("--- generic fault at coder/down, then disconnect+reconnect, then follow-ups")
    demo_one(scratch, {"layer": "coder", "dir": "down", "cause": "generic"}, reconnect=True)
    print("total %.1fs" % (time.time() - t0))
    sys.stdout.flush()
    os._exit(0)     # blocked daemon threads may be left behind
