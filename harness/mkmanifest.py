import json, os
from .env import VERIF

BASE = "cd /repo && /venv/bin/python -m pytest -ra -q -p no:cacheprovider --timeout=900 --continue-on-collection-errors"


def load():
    d = os.path.join(VERIF, "harness", "manifest")
    claimed, notyet = {}, {}
    ready = set(open(os.path.join(d, "READY")).read().split())
    for fn in sorted(os.listdir(d)):
        if fn.endswith(".json"):
            j = json.load(open(os.path.join(d, fn)))
            if fn[:-5] not in ready:
                continue
            if j.get("not_applicable"):
                notyet[fn[:-5]] = j["not_applicable"]
            else:
                claimed[fn[:-5]] = j
    return claimed, notyet


def main():
    CLAIMED, NOT_YET = load()
    props = [json.loads(l)["id"] for l in open(os.path.join(VERIF, "properties.jsonl"))]
    checks = []
    for pid in props:
        if pid not in CLAIMED:
            continue
        c = CLAIMED[pid]
        checks.append({
            "property_id": pid,
            "quick_cmd": "./check %s --tier quick" % pid,
            "thorough_cmd": "./check %s --tier thorough" % pid,
            "evidence_file": "/verif/evidence/%s.json" % pid,
            "replay_cmd_template": "./check %s --replay {path}" % pid,
            "engine": "+".join(c.get("engines", ["coq", "model-runner"])),
            "level_claimed": {"category": "proof", "text": c["text"], "design_ref": c["design_ref"]},
            "level_note": c["note"],
            "technique": c["technique"],
        })
    na = [{"property_id": p, "reason": NOT_YET.get(p, "check not built yet in this development (planned, see DESIGN.md section 8); not claimed")}
          for p in props if p not in CLAIMED]
    man = {
        "version": 1,
        "setup_cmd": "cd /verif && ./setup.sh",
        "hooks": {"guard": "TGALAL_YOWSUP_VERIF", "enable": "no hooks: checks drive /repo's working tree from outside (PYTHONPATH=/repo)",
                  "baseline_off_cmd": BASE, "source_commits": [], "add_only": True},
        "engines": [
            {"name": "coq", "path": "coq/", "serves_properties": sorted(CLAIMED), "kind_free_text": "Coq 8.16.1 models, proofs, Properties/Cxx.v re-checked by every check"},
            {"name": "model-runner", "path": "harness/modelrun.py + ocaml/sxdriver.ml", "serves_properties": sorted(CLAIMED), "kind_free_text": "extracts each model to OCaml (ExtrOcamlBasic) and runs it against the implementation"},
        ],
        "checks": checks,
        "not_applicable": na,
        "notes": "All checks: ./check Cxx --tier quick|thorough; VERIF_SEED honoured; evidence rewritten every run.",
    }
    with open(os.path.join(VERIF, "MANIFEST.json"), "w") as f:
        json.dump(man, f, indent=1)
    print("claimed:", [c["property_id"] for c in checks])


if __name__ == "__main__":
    main()
