"""sx line format shared with ocaml/sxdriver.ml:  N<dec> | B<hex> | ( ... )"""


def dumps(v):
    out = []
    _d(v, out)
    return "".join(out)


def _d(v, out):
    if isinstance(v, bool):
        out.append("N1" if v else "N0")
    elif isinstance(v, int):
        if v < 0:
            raise ValueError("negative int in sx")
        out.append("N%d" % v)
    elif isinstance(v, (bytes, bytearray)):
        out.append("B" + bytes(v).hex())
    elif isinstance(v, (list, tuple)):
        out.append("(")
        first = True
        for x in v:
            if not first:
                out.append(" ")
            first = False
            _d(x, out)
        out.append(")")
    elif v is None:
        out.append("()")
    else:
        raise TypeError("cannot encode %r" % (type(v),))


def loads(s):
    pos = 0
    n = len(s)
    stack = [[]]
    while pos < n:
        c = s[pos]
        if c == " ":
            pos += 1
        elif c == "(":
            stack.append([])
            pos += 1
        elif c == ")":
            l = stack.pop()
            stack[-1].append(l)
            pos += 1
        elif c == "N":
            e = pos + 1
            while e < n and s[e].isdigit():
                e += 1
            stack[-1].append(int(s[pos + 1:e]))
            pos = e
        elif c == "B":
            e = pos + 1
            while e < n and s[e] not in " )":
                e += 1
            stack[-1].append(bytes.fromhex(s[pos + 1:e]))
            pos = e
        else:
            raise ValueError("bad sx at %d: %r" % (pos, s[pos:pos + 20]))
    assert len(stack) == 1 and len(stack[0]) == 1, "unbalanced sx"
    return stack[0][0]
