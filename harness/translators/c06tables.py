"""Fail-closed ast translator for C06/C07.

Regenerates, from the *current* source under env.REPO on every run:

  coq/Gen/C06Layers.v      YOWSUP_PROTOCOL_LAYERS_BASIC, the flag-guarded appends of
                           YowStackBuilder.getProtocolLayers, and the shape of the part of
                           getDefaultLayers above the core layers
  coq/Gen/C06HandleMaps.v  for every protocol layer class: the keys of the handleMap literal in
                           its __init__ and whether the recv / send slot is a handler or None

Anything it does not recognise raises TranslateError (tie broken).
"""
import ast, os, glob

CLASS2LID = {
    "YowAuthenticationProtocolLayer": "LAuth", "YowMessagesProtocolLayer": "LMessages",
    "YowReceiptProtocolLayer": "LReceipts", "YowAckProtocolLayer": "LAcks",
    "YowPresenceProtocolLayer": "LPresence", "YowIbProtocolLayer": "LIb", "YowIqProtocolLayer": "LIq",
    "YowNotificationsProtocolLayer": "LNotifications", "YowContactsIqProtocolLayer": "LContacts",
    "YowChatstateProtocolLayer": "LChatstate", "YowCallsProtocolLayer": "LCalls",
    "YowGroupsProtocolLayer": "LGroups", "YowMediaProtocolLayer": "LMedia",
    "YowPrivacyProtocolLayer": "LPrivacy", "YowProfilesProtocolLayer": "LProfiles",
    "AxolotlControlLayer": "LAxControl", "AxolotlSendLayer": "LAxSend", "AxolotlReceivelayer": "LAxRecv",
}
FLAGS = ("groups", "media", "privacy", "profiles")


class TranslateError(Exception):
    pass


def _fail(msg):
    raise TranslateError(msg)


def _names_tuple(node, what):
    if not isinstance(node, ast.Tuple):
        _fail("%s: expected a tuple literal" % what)
    out = []
    for e in node.elts:
        if not isinstance(e, ast.Name) or e.id not in CLASS2LID:
            _fail("%s: unknown layer class %s" % (what, ast.dump(e)[:60]))
        out.append(CLASS2LID[e.id])
    return out


def _coq_str(s):
    if not all(32 <= ord(c) < 127 for c in s):
        _fail("non-ascii handleMap key %r" % s)
    return '"' + s.replace('"', '""') + '"'


def translate_stack(repo):
    path = os.path.join(repo, "yowsup", "stacks", "yowstack.py")
    tree = ast.parse(open(path).read(), path)
    basic = None
    builder = None
    for n in tree.body:
        if isinstance(n, ast.Assign) and len(n.targets) == 1 and isinstance(n.targets[0], ast.Name) \
                and n.targets[0].id == "YOWSUP_PROTOCOL_LAYERS_BASIC":
            basic = _names_tuple(n.value, "YOWSUP_PROTOCOL_LAYERS_BASIC")
        if isinstance(n, ast.ClassDef) and n.name == "YowStackBuilder":
            builder = n
    if basic is None or builder is None:
        _fail("yowstack.py: YOWSUP_PROTOCOL_LAYERS_BASIC or YowStackBuilder not found")
    fns = dict((f.name, f) for f in builder.body if isinstance(f, ast.FunctionDef))
    # ---- getProtocolLayers
    f = fns.get("getProtocolLayers") or _fail("getProtocolLayers not found")
    argn = [a.arg for a in f.args.args]
    if tuple(argn) != FLAGS or len(f.args.defaults) != 4 or \
            not all(isinstance(d, ast.Constant) and d.value is True for d in f.args.defaults):
        _fail("getProtocolLayers: signature is not (groups=True, media=True, privacy=True, profiles=True)")
    body = [s for s in f.body if not (isinstance(s, ast.Expr) and isinstance(s.value, ast.Constant))]
    s0 = body[0]
    if not (isinstance(s0, ast.Assign) and isinstance(s0.targets[0], ast.Name) and s0.targets[0].id == "layers"
            and isinstance(s0.value, ast.Name) and s0.value.id == "YOWSUP_PROTOCOL_LAYERS_BASIC"):
        _fail("getProtocolLayers: first statement is not layers = YOWSUP_PROTOCOL_LAYERS_BASIC")
    appends = []
    for s in body[1:-1]:
        ok = isinstance(s, ast.If) and isinstance(s.test, ast.Name) and s.test.id in FLAGS and not s.orelse \
            and len(s.body) == 1 and isinstance(s.body[0], ast.AugAssign) and isinstance(s.body[0].op, ast.Add) \
            and isinstance(s.body[0].target, ast.Name) and s.body[0].target.id == "layers"
        if not ok:
            _fail("getProtocolLayers: unrecognised statement at line %d" % s.lineno)
        appends.append((s.test.id, _names_tuple(s.body[0].value, "getProtocolLayers append")))
    last = body[-1]
    if not (isinstance(last, ast.Return) and isinstance(last.value, ast.Name) and last.value.id == "layers"):
        _fail("getProtocolLayers: does not end with return layers")
    # ---- getDefaultLayers: what sits between the core layers and the application
    g = fns.get("getDefaultLayers") or _fail("getDefaultLayers not found")
    if tuple(a.arg for a in g.args.args) != FLAGS:
        _fail("getDefaultLayers: signature changed")
    shape = []
    saw_core = saw_proto = False
    for s in g.body:
        if isinstance(s, ast.Assign) and isinstance(s.targets[0], ast.Name):
            t = s.targets[0].id
            src = ast.unparse(s.value).replace(" ", "")
            if t == "coreLayers" and src == "YowStackBuilder.getCoreLayers()":
                saw_core = True
            elif t == "protocolLayers" and src == \
                    "YowStackBuilder.getProtocolLayers(groups=groups,media=media,privacy=privacy,profiles=profiles)":
                saw_proto = True
            elif t == "allLayers" and src == "coreLayers":
                pass
            else:
                _fail("getDefaultLayers: unrecognised assignment at line %d" % s.lineno)
        elif isinstance(s, ast.AugAssign) and isinstance(s.target, ast.Name) and s.target.id == "allLayers" \
                and isinstance(s.op, ast.Add) and isinstance(s.value, ast.Tuple) and len(s.value.elts) == 1:
            e = s.value.elts[0]
            if isinstance(e, ast.Name) and e.id in CLASS2LID:
                shape.append("SOne %s" % CLASS2LID[e.id])
            elif isinstance(e, ast.Call) and isinstance(e.func, ast.Name) and e.func.id == "YowParallelLayer" \
                    and len(e.args) == 1 and not e.keywords:
                a = e.args[0]
                if isinstance(a, ast.Name) and a.id == "protocolLayers":
                    shape.append("SProtocolGroup")
                else:
                    shape.append("SPar [%s]" % "; ".join(_names_tuple(a, "getDefaultLayers parallel group")))
            else:
                _fail("getDefaultLayers: unrecognised layer at line %d" % s.lineno)
        elif isinstance(s, ast.Return) and isinstance(s.value, ast.Name) and s.value.id == "allLayers":
            pass
        elif isinstance(s, ast.Expr) and isinstance(s.value, ast.Constant):
            pass
        else:
            _fail("getDefaultLayers: unrecognised statement at line %d" % s.lineno)
    if not (saw_core and saw_proto):
        _fail("getDefaultLayers: core/protocol layer calls not found")
    out = ["(* GENERATED by harness/translators/c06tables.py from yowsup/stacks/yowstack.py - do not edit *)",
           "From YV Require Import C06.C06Base.", "",
           "Definition basic_layers : list lid := [%s]." % "; ".join(basic), "",
           "Definition protocol_layers (c : flags) : list lid :=", "  basic_layers"]
    for flag, ls in appends:
        out.append("  ++ (if fl_%s c then [%s] else [])" % (flag, "; ".join(ls)))
    out[-1] += "."
    out += ["", "Definition default_upper : list sitem := [%s]." % "; ".join(shape), ""]
    return "\n".join(out), basic + [l for _, ls in appends for l in ls]


def _layer_files(repo):
    files = {}
    for p in glob.glob(os.path.join(repo, "yowsup", "layers", "*", "layer*.py")):
        try:
            tree = ast.parse(open(p).read(), p)
        except SyntaxError as e:
            _fail("%s: %s" % (p, e))
        for n in tree.body:
            if isinstance(n, ast.ClassDef) and n.name in CLASS2LID:
                files[n.name] = (p, n)
    return files


def translate_handlemaps(repo, lids):
    files = _layer_files(repo)
    rows = {}
    for cls, lid in CLASS2LID.items():
        if lid.startswith("LAx"):
            continue
        if cls not in files:
            if lid in lids:
                _fail("class %s not found under yowsup/layers" % cls)
            continue
        path, node = files[cls]
        init = [f for f in node.body if isinstance(f, ast.FunctionDef) and f.name == "__init__"]
        if len(init) != 1:
            _fail("%s: no unique __init__" % cls)
        hm = [s for s in ast.walk(init[0]) if isinstance(s, ast.Assign) and len(s.targets) == 1
              and isinstance(s.targets[0], ast.Name) and s.targets[0].id == "handleMap"]
        if len(hm) != 1 or not isinstance(hm[0].value, ast.Dict):
            _fail("%s: handleMap is not one dict literal" % cls)
        # the dict must be what is handed to YowProtocolLayer.__init__
        sup = [c for c in ast.walk(init[0]) if isinstance(c, ast.Call) and isinstance(c.func, ast.Attribute)
               and c.func.attr == "__init__" and any(isinstance(a, ast.Name) and a.id == "handleMap" for a in c.args)]
        if len(sup) != 1:
            _fail("%s: handleMap is not passed to the base class constructor" % cls)
        ents = []
        for k, v in zip(hm[0].value.keys, hm[0].value.values):
            if not (isinstance(k, ast.Constant) and isinstance(k.value, str)):
                _fail("%s: non-literal handleMap key" % cls)
            if not (isinstance(v, ast.Tuple) and len(v.elts) == 2):
                _fail("%s: handleMap[%s] is not a pair" % (cls, k.value))
            slots = []
            for e in v.elts:
                if isinstance(e, ast.Constant) and e.value is None:
                    slots.append("false")
                elif isinstance(e, ast.Attribute) and isinstance(e.value, ast.Name) and e.value.id == "self":
                    slots.append("true")
                else:
                    _fail("%s: handleMap[%s] slot is neither self.<method> nor None" % (cls, k.value))
            ents.append("(%s, %s, %s)" % (_coq_str(k.value), slots[0], slots[1]))
        if len(set(e.split(",")[0] for e in ents)) != len(ents):
            _fail("%s: duplicate handleMap key" % cls)
        rows[lid] = ents
    out = ["(* GENERATED by harness/translators/c06tables.py from yowsup/layers/*/layer*.py - do not edit *)",
           "From YV Require Import C06.C06Base.", "",
           "(* per layer: (tag, has a receive handler, has a send handler) *)",
           "Definition handle_map (l : lid) : list (string * bool * bool) :=", "  match l with"]
    for lid in sorted(rows):
        out.append("  | %s => [%s]" % (lid, "; ".join(rows[lid])))
    out += ["  | _ => []", "  end.", ""]
    return "\n".join(out)


def regenerate(repo, gendir):
    os.makedirs(gendir, exist_ok=True)
    layers_v, lids = translate_stack(repo)
    hm_v = translate_handlemaps(repo, lids)
    for name, txt in (("C06Layers.v", layers_v), ("C06HandleMaps.v", hm_v)):
        p = os.path.join(gendir, name)
        old = open(p).read() if os.path.exists(p) else None
        if old != txt:
            with open(p, "w") as f:
                f.write(txt)
    return {"C06Layers.v": layers_v, "C06HandleMaps.v": hm_v}
