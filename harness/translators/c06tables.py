"""Fail-closed ast translator for C06/C07.

Regenerates, from the *current* source under env.REPO on every run:

  coq/Gen/C06Layers.v      YOWSUP_PROTOCOL_LAYERS_BASIC, the flag-guarded appends of
                           YowStackBuilder.getProtocolLayers, and the shape of the part of
                           getDefaultLayers above the core layers
  coq/Gen/C06HandleMaps.v  for every protocol layer class: the keys of the handleMap literal in
                           its __init__ and whether the recv / send slot is a handler or None

Robustness (design_notes/C06.md, "Translator robustness"): the stack-builder helpers are total
functions of the four module flags and a handleMap is a finite table, so next to the syntactic
extraction both are EVALUATED in a fresh interpreter (harness/translators/stack_eval.py; every
helper value is the first call of a process, later calls are compared with it; every protocol
layer class is instantiated and the keys / filled slots of its handleMap are read).
  * source shape recognised: the syntactic result must agree with the evaluated table on every
    selection / every layer; the Gen files are the syntactic result, byte for byte as before;
  * source shape not recognised: the Gen files are generated from the evaluated table (the same
    text when the table factorises as basic ++ one block per flag, a 16-row match otherwise);
  * neither works (import error, a helper raising, a non-class entry, an unknown layer class):
    TranslateError (tie broken).
"""
import ast, os, glob
from . import stack_eval

CLASS2LID = {
    "YowAuthenticationProtocolLayer": "LAuth", "YowMessagesProtocolLayer": "LMessages",
    "YowReceiptProtocolLayer": "LReceipts", "YowAckProtocolLayer": "LAcks",
    "YowPresenceProtocolLayer": "LPresence", "YowIbProtocolLayer": "LIb", "YowIqProtocolLayer": "LIq",
    "YowNotificationsProtocolLayer": "LNotifications", "YowContactsIqProtocolLayer": "LContacts",
    "YowChatstateProtocolLayer": "LChatstate", "YowCallsProtocolLayer": "LCalls",
    "YowGroupsProtocolLayer": "LGroups", "YowMediaProtocolLayer": "LMedia",
    "YowPrivacyProtocolLayer": "LPrivacy", "YowProfilesProtocolLayer": "LProfiles",
    "AxolotlControlLayer": "LAxControl", "AxolotlSendLayer": "LAxSend", "AxolotlReceivelayer": "LAxRecv",
}
FLAGS = ("groups", "media", "privacy", "profiles")


class TranslateError(Exception):
    pass


def _fail(msg):
    raise TranslateError(msg)


def _names_tuple(node, what):
    if not isinstance(node, ast.Tuple):
        _fail("%s: expected a tuple literal" % what)
    out = []
    for e in node.elts:
        if not isinstance(e, ast.Name) or e.id not in CLASS2LID:
            _fail("%s: unknown layer class %s" % (what, ast.dump(e)[:60]))
        out.append(CLASS2LID[e.id])
    return out


def _coq_str(s):
    if not all(32 <= ord(c) < 127 for c in s):
        _fail("non-ascii handleMap key %r" % s)
    return '"' + s.replace('"', '""') + '"'


def parse_stack(repo):
    """syntactic: (basic lids, [(flag, lids)], shape items)"""
    path = os.path.join(repo, "yowsup", "stacks", "yowstack.py")
    tree = ast.parse(open(path).read(), path)
    basic = None
    builder = None
    for n in tree.body:
        if isinstance(n, ast.Assign) and len(n.targets) == 1 and isinstance(n.targets[0], ast.Name) \
                and n.targets[0].id == "YOWSUP_PROTOCOL_LAYERS_BASIC":
            basic = _names_tuple(n.value, "YOWSUP_PROTOCOL_LAYERS_BASIC")
        if isinstance(n, ast.ClassDef) and n.name == "YowStackBuilder":
            builder = n
    if basic is None or builder is None:
        _fail("yowstack.py: YOWSUP_PROTOCOL_LAYERS_BASIC or YowStackBuilder not found")
    fns = dict((f.name, f) for f in builder.body if isinstance(f, ast.FunctionDef))
    # ---- getProtocolLayers
    f = fns.get("getProtocolLayers") or _fail("getProtocolLayers not found")
    argn = [a.arg for a in f.args.args]
    if tuple(argn) != FLAGS or len(f.args.defaults) != 4 or \
            not all(isinstance(d, ast.Constant) and d.value is True for d in f.args.defaults):
        _fail("getProtocolLayers: signature is not (groups=True, media=True, privacy=True, profiles=True)")
    body = [s for s in f.body if not (isinstance(s, ast.Expr) and isinstance(s.value, ast.Constant))]
    s0 = body[0]
    if not (isinstance(s0, ast.Assign) and isinstance(s0.targets[0], ast.Name) and s0.targets[0].id == "layers"
            and isinstance(s0.value, ast.Name) and s0.value.id == "YOWSUP_PROTOCOL_LAYERS_BASIC"):
        _fail("getProtocolLayers: first statement is not layers = YOWSUP_PROTOCOL_LAYERS_BASIC")
    appends = []
    for s in body[1:-1]:
        ok = isinstance(s, ast.If) and isinstance(s.test, ast.Name) and s.test.id in FLAGS and not s.orelse \
            and len(s.body) == 1 and isinstance(s.body[0], ast.AugAssign) and isinstance(s.body[0].op, ast.Add) \
            and isinstance(s.body[0].target, ast.Name) and s.body[0].target.id == "layers"
        if not ok:
            _fail("getProtocolLayers: unrecognised statement at line %d" % s.lineno)
        appends.append((s.test.id, _names_tuple(s.body[0].value, "getProtocolLayers append")))
    last = body[-1]
    if not (isinstance(last, ast.Return) and isinstance(last.value, ast.Name) and last.value.id == "layers"):
        _fail("getProtocolLayers: does not end with return layers")
    # ---- getDefaultLayers: what sits between the core layers and the application
    g = fns.get("getDefaultLayers") or _fail("getDefaultLayers not found")
    if tuple(a.arg for a in g.args.args) != FLAGS:
        _fail("getDefaultLayers: signature changed")
    shape = []
    saw_core = saw_proto = False
    for s in g.body:
        if isinstance(s, ast.Assign) and isinstance(s.targets[0], ast.Name):
            t = s.targets[0].id
            src = ast.unparse(s.value).replace(" ", "")
            if t == "coreLayers" and src == "YowStackBuilder.getCoreLayers()":
                saw_core = True
            elif t == "protocolLayers" and src == \
                    "YowStackBuilder.getProtocolLayers(groups=groups,media=media,privacy=privacy,profiles=profiles)":
                saw_proto = True
            elif t == "allLayers" and src == "coreLayers":
                pass
            else:
                _fail("getDefaultLayers: unrecognised assignment at line %d" % s.lineno)
        elif isinstance(s, ast.AugAssign) and isinstance(s.target, ast.Name) and s.target.id == "allLayers" \
                and isinstance(s.op, ast.Add) and isinstance(s.value, ast.Tuple) and len(s.value.elts) == 1:
            e = s.value.elts[0]
            if isinstance(e, ast.Name) and e.id in CLASS2LID:
                shape.append("SOne %s" % CLASS2LID[e.id])
            elif isinstance(e, ast.Call) and isinstance(e.func, ast.Name) and e.func.id == "YowParallelLayer" \
                    and len(e.args) == 1 and not e.keywords:
                a = e.args[0]
                if isinstance(a, ast.Name) and a.id == "protocolLayers":
                    shape.append("SProtocolGroup")
                else:
                    shape.append("SPar [%s]" % "; ".join(_names_tuple(a, "getDefaultLayers parallel group")))
            else:
                _fail("getDefaultLayers: unrecognised layer at line %d" % s.lineno)
        elif isinstance(s, ast.Return) and isinstance(s.value, ast.Name) and s.value.id == "allLayers":
            pass
        elif isinstance(s, ast.Expr) and isinstance(s.value, ast.Constant):
            pass
        else:
            _fail("getDefaultLayers: unrecognised statement at line %d" % s.lineno)
    if not (saw_core and saw_proto):
        _fail("getDefaultLayers: core/protocol layer calls not found")
    return basic, appends, shape


def emit_layers(basic, appends, shape):
    out = ["(* GENERATED by harness/translators/c06tables.py from yowsup/stacks/yowstack.py - do not edit *)",
           "From YV Require Import C06.C06Base.", "",
           "Definition basic_layers : list lid := [%s]." % "; ".join(basic), "",
           "Definition protocol_layers (c : flags) : list lid :=", "  basic_layers"]
    for flag, ls in appends:
        out.append("  ++ (if fl_%s c then [%s] else [])" % (flag, "; ".join(ls)))
    out[-1] += "."
    out += ["", "Definition default_upper : list sitem := [%s]." % "; ".join(shape), ""]
    return "\n".join(out)


def emit_layers_rows(rows, shape):
    """the evaluated table does not factorise as basic ++ one block per flag: one row per selection"""
    out = ["(* GENERATED by harness/translators/c06tables.py from yowsup/stacks/yowstack.py - do not edit *)",
           "(* evaluated table (harness/translators/stack_eval.py): the value of getProtocolLayers per selection *)",
           "From YV Require Import C06.C06Base.", "",
           "Definition basic_layers : list lid := [%s]." % "; ".join(rows["0000"]), "",
           "Definition protocol_layers (c : flags) : list lid :=",
           "  match fl_groups c, fl_media c, fl_privacy c, fl_profiles c with"]
    for key in sorted(rows, reverse=True):
        out.append("  | %s => [%s]" % (", ".join("true" if ch == "1" else "false" for ch in key), "; ".join(rows[key])))
    out += ["  end.", "", "Definition default_upper : list sitem := [%s]." % "; ".join(shape), ""]
    return "\n".join(out)


def syn_rows(basic, appends):
    """the syntactic result as a table: selection key -> lids"""
    rows = {}
    for sel in stack_eval.SELECTIONS:
        rows[stack_eval.skey(sel)] = basic + [l for flag, ls in appends if sel[flag] for l in ls]
    return rows


def _lids(what, res):
    if "exc" in res:
        _fail("%s raised %s" % (what, res["exc"]))
    bad = stack_eval.bad_entries(res)
    if bad:
        _fail("%s: %s" % (what, "; ".join(bad)))
    out = []
    for x in res["val"]:
        if not isinstance(x, str) or x not in CLASS2LID:
            _fail("%s: unknown layer class %r" % (what, x))
        out.append(CLASS2LID[x])
    return out


def table_stack(table):
    """evaluated: (rows: selection key -> lids, shape items).  TranslateError when not usable."""
    for h, want_true in (("getProtocolLayers", True), ("getDefaultLayers", False)):
        ps = table.sig[h]
        if tuple(p[0] for p in ps) != FLAGS or not all(p[2] for p in ps) or \
                (want_true and not all(p[1] == "true" for p in ps)):
            _fail("%s: signature is not (groups=True, media=True, privacy=True, profiles=True)" % h)
    lab = lambda h, sel: stack_eval.call_label([h, sel, "none"])
    rows = {}
    for sel in stack_eval.SELECTIONS:
        rows[stack_eval.skey(sel)] = _lids(lab("getProtocolLayers", sel), table.value("getProtocolLayers", sel))
    if "exc" in table.core or stack_eval.bad_entries(table.core):
        _fail("getCoreLayers(): %s" % (table.core.get("exc") or stack_eval.bad_entries(table.core)))
    core = table.core["val"]
    shapes = {}
    for sel in stack_eval.SELECTIONS:
        what = lab("getDefaultLayers", sel)
        res = table.value("getDefaultLayers", sel)
        if "exc" in res:
            _fail("%s raised %s" % (what, res["exc"]))
        bad = stack_eval.bad_entries(res)
        if bad:
            _fail("%s: %s" % (what, "; ".join(bad)))
        v = res["val"]
        if v[:len(core)] != core:
            _fail("%s does not start with the layers of getCoreLayers()" % what)
        proto = table.value("getProtocolLayers", sel)["val"]
        shape = []
        for x in v[len(core):]:
            if isinstance(x, str):
                if x not in CLASS2LID:
                    _fail("%s: unknown layer class %r" % (what, x))
                shape.append("SOne %s" % CLASS2LID[x])
            elif x[0] == "par" and x[1] == proto:
                shape.append("SProtocolGroup")
            elif x[0] == "par" and all(isinstance(y, str) and y in CLASS2LID for y in x[1]):
                shape.append("SPar [%s]" % "; ".join(CLASS2LID[y] for y in x[1]))
            else:
                _fail("%s: entry %r cannot be expressed" % (what, x))
        shapes[stack_eval.skey(sel)] = shape
    if len(set(tuple(v) for v in shapes.values())) != 1:
        _fail("getDefaultLayers: the layers above the core layers are not the same shape for every selection")
    return rows, shapes["1111"]


def factorise(rows):
    """rows == basic ++ one block per flag (in some fixed order)?  -> (basic, appends) or None"""
    import itertools
    basic = rows["0000"]
    blocks = {}
    for f in FLAGS:
        r = rows[stack_eval.skey(dict((g, g == f) for g in FLAGS))]
        if r[:len(basic)] != basic:
            return None
        blocks[f] = r[len(basic):]
    for order in itertools.permutations(FLAGS):
        appends = [(f, blocks[f]) for f in order]
        if syn_rows(basic, appends) == rows:
            return basic, appends
    return None


def _layer_files(repo):
    files = {}
    for p in glob.glob(os.path.join(repo, "yowsup", "layers", "*", "layer*.py")):
        try:
            tree = ast.parse(open(p).read(), p)
        except SyntaxError as e:
            _fail("%s: %s" % (p, e))
        for n in tree.body:
            if isinstance(n, ast.ClassDef) and n.name in CLASS2LID:
                files[n.name] = (p, n)
    return files


def _parse_handlemap(cls, node):
    init = [f for f in node.body if isinstance(f, ast.FunctionDef) and f.name == "__init__"]
    if len(init) != 1:
        _fail("%s: no unique __init__" % cls)
    hm = [s for s in ast.walk(init[0]) if isinstance(s, ast.Assign) and len(s.targets) == 1
          and isinstance(s.targets[0], ast.Name) and s.targets[0].id == "handleMap"]
    if len(hm) != 1 or not isinstance(hm[0].value, ast.Dict):
        _fail("%s: handleMap is not one dict literal" % cls)
    # the dict must be what is handed to YowProtocolLayer.__init__
    sup = [c for c in ast.walk(init[0]) if isinstance(c, ast.Call) and isinstance(c.func, ast.Attribute)
           and c.func.attr == "__init__" and any(isinstance(a, ast.Name) and a.id == "handleMap" for a in c.args)]
    if len(sup) != 1:
        _fail("%s: handleMap is not passed to the base class constructor" % cls)
    ents = []
    for k, v in zip(hm[0].value.keys, hm[0].value.values):
        if not (isinstance(k, ast.Constant) and isinstance(k.value, str)):
            _fail("%s: non-literal handleMap key" % cls)
        if not (isinstance(v, ast.Tuple) and len(v.elts) == 2):
            _fail("%s: handleMap[%s] is not a pair" % (cls, k.value))
        slots = []
        for e in v.elts:
            if isinstance(e, ast.Constant) and e.value is None:
                slots.append(False)
            elif isinstance(e, ast.Attribute) and isinstance(e.value, ast.Name) and e.value.id == "self":
                slots.append(True)
            else:
                _fail("%s: handleMap[%s] slot is neither self.<method> nor None" % (cls, k.value))
        ents.append((k.value, slots[0], slots[1]))
    if len(set(e[0] for e in ents)) != len(ents):
        _fail("%s: duplicate handleMap key" % cls)
    return ents


def parse_handlemaps(repo, lids):
    """syntactic: ({lid: [(tag, recv?, send?)]}, {class name: reason it was not recognised})"""
    files = _layer_files(repo)
    rows, errors = {}, {}
    for cls, lid in CLASS2LID.items():
        if lid.startswith("LAx"):
            continue
        if cls not in files:
            if lid in lids:
                errors[cls] = "class %s not found under yowsup/layers" % cls
            continue
        try:
            rows[lid] = _parse_handlemap(cls, files[cls][1])
        except TranslateError as e:
            errors[cls] = str(e)
    return rows, errors


def table_handlemaps(table):
    """evaluated: ({lid: [(tag, recv?, send?)]}, {class name: why not usable})"""
    rows, errors = {}, {}
    for cls, d in (table.handlemaps or {}).items():
        if cls not in CLASS2LID:
            continue
        if "rows" in d:
            rows[CLASS2LID[cls]] = [tuple(r) for r in d["rows"]]
        else:
            errors[cls] = d.get("bad", "not evaluated")
    return rows, errors


def emit_handlemaps(rows):
    out = ["(* GENERATED by harness/translators/c06tables.py from yowsup/layers/*/layer*.py - do not edit *)",
           "From YV Require Import C06.C06Base.", "",
           "(* per layer: (tag, has a receive handler, has a send handler) *)",
           "Definition handle_map (l : lid) : list (string * bool * bool) :=", "  match l with"]
    for lid in sorted(rows):
        out.append("  | %s => [%s]" % (lid, "; ".join(
            "(%s, %s, %s)" % (_coq_str(k), "true" if r else "false", "true" if sd else "false") for k, r, sd in rows[lid])))
    out += ["  | _ => []", "  end.", ""]
    return "\n".join(out)


LID2CLASS = dict((v, k) for k, v in CLASS2LID.items())


def analyse(repo, scratch=None):
    """-> dict: the two texts + which path produced them + disagreements + call-history findings.
    Raises TranslateError when neither the syntactic nor the evaluated extraction is usable."""
    table, ev_err = None, None
    try:
        table = stack_eval.evaluate(repo, scratch)
    except stack_eval.EvalError as e:
        ev_err = str(e)
    rep = {"tie_problems": [], "history_findings": table.history_findings if table else [], "eval": None}
    if table:
        rep["eval"] = {"first_calls_each_in_its_own_process": table.n_calls, "calls_in_histories": table.n_history_calls,
                       "history_dependent_results": len(table.history_findings),
                       "layer_classes_instantiated": len(table.handlemaps or {}), "wall_s": table.wall_s}
    # ---------------- layer lists
    syn, syn_err = None, None
    try:
        syn = parse_stack(repo)
    except (TranslateError, SyntaxError, OSError) as e:
        syn_err = str(e)
    ev, ev_stack_err = None, ev_err
    if table:
        try:
            ev = table_stack(table)
        except TranslateError as e:
            ev_stack_err = "evaluated table not usable: %s" % e
    if syn is not None:
        basic, appends, shape = syn
        layers_v = emit_layers(basic, appends, shape)
        lids = basic + [l for _, ls in appends for l in ls]
        if ev is None:
            rep["layers_path"] = "syntactic only (EVALUATION FAILED: %s)" % ev_stack_err
            rep["tie_problems"].append(("translator:c06tables.evaluation", {"detail": ev_stack_err}))
        else:
            rows, eshape = ev
            srows = syn_rows(basic, appends)
            dis = [{"helper": "getProtocolLayers", "selection": stack_eval.sel_of(k), "syntactic": srows[k],
                    "evaluated": rows[k]} for k in sorted(rows) if rows[k] != srows[k]]
            if eshape != shape:
                dis.append({"helper": "getDefaultLayers", "selection": "layers above the core layers",
                            "syntactic": shape, "evaluated": eshape})
            rep["layers_path"] = "syntactic+evaluated (agree)" if not dis else \
                "syntactic+evaluated (DISAGREE on %d points)" % len(dis)
            rep["tie_problems"] += [("translator:c06tables.syntactic-vs-evaluated", d) for d in dis]
    elif ev is not None:
        rows, shape = ev
        fac = factorise(rows)
        layers_v = emit_layers(fac[0], fac[1], shape) if fac else emit_layers_rows(rows, shape)
        lids = sorted(set(l for r in rows.values() for l in r))
        rep["layers_path"] = "evaluated only (source shape not recognised: %s)" % syn_err
    else:
        _fail("layer lists: syntactic: %s; evaluated: %s" % (syn_err, ev_stack_err))
    # ---------------- handleMaps
    srows, serrs = parse_handlemaps(repo, lids)
    erows, eerrs = table_handlemaps(table) if table else ({}, {})
    final, used_eval = dict(srows), []
    for cls, why in sorted(serrs.items()):
        lid = CLASS2LID[cls]
        if lid in erows:
            final[lid] = erows[lid]
            used_eval.append("%s (%s)" % (cls, why))
        else:
            _fail("handleMap: syntactic: %s; evaluated: %s" % (why, eerrs.get(cls) or ev_err or "class not returned by "
                                                               "getProtocolLayers for any selection"))
    if table is None or table.handlemaps is None:
        why = ev_err or (table.handlemaps_error if table else None) or "no result"
        rep["handlemaps_path"] = "syntactic only (EVALUATION FAILED: %s)" % why
        rep["tie_problems"].append(("translator:c06tables.handlemap-evaluation", {"detail": why}))
    else:
        dis = []
        for cls, why in sorted(eerrs.items()):
            if CLASS2LID[cls] in srows:
                dis.append({"layer": cls, "syntactic": srows[CLASS2LID[cls]], "evaluated": "not usable: " + why})
        for lid in sorted(erows):
            if lid in srows and dict((k, (r, sd)) for k, r, sd in srows[lid]) != dict((k, (r, sd)) for k, r, sd in erows[lid]):
                dis.append({"layer": LID2CLASS[lid], "syntactic": srows[lid], "evaluated": erows[lid]})
        for lid in lids:
            if lid in srows and lid not in erows and not lid.startswith("LAx") and LID2CLASS[lid] not in eerrs:
                dis.append({"layer": LID2CLASS[lid], "syntactic": srows[lid], "evaluated": "class not instantiated"})
        rep["handlemaps_path"] = ("syntactic+evaluated (agree)" if not used_eval else
                                  "evaluated for %s; syntactic+evaluated (agree) for the others" % ", ".join(used_eval)) \
            if not dis else "syntactic+evaluated (DISAGREE on %d layers)" % len(dis)
        rep["tie_problems"] += [("translator:c06tables.handlemap-syntactic-vs-evaluated", d) for d in dis]
    rep["C06Layers.v"] = layers_v
    rep["C06HandleMaps.v"] = emit_handlemaps(final)
    return rep


def regenerate(repo=None, gendir=None, scratch=None):
    if repo is None or gendir is None:
        from ..env import REPO, VERIF
        repo = repo or REPO
        gendir = gendir or os.path.join(VERIF, "coq", "Gen")
    os.makedirs(gendir, exist_ok=True)
    rep = analyse(repo, scratch)
    for name in ("C06Layers.v", "C06HandleMaps.v"):
        txt = rep[name]
        p = os.path.join(gendir, name)
        old = open(p).read() if os.path.exists(p) else None
        if old != txt:
            with open(p, "w") as f:
                f.write(txt)
    return rep
