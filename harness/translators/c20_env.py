"""Fail-closed translator: the registration constants of yowsup/env/env_android.py
(AndroidYowsupEnv._KEY / _SIGNATURE / _MD5_CLASSES, the three inputs of getToken)
->  coq/Gen/C20Env.v   (three byte lists holding the base64 *text* exactly as written).

Accepted source shape: inside `class AndroidYowsupEnv`, exactly one class-level assignment
`<NAME> = <string literal>` per constant (adjacent-literal concatenation is one literal for
`ast`; `+` between literals and `"sep".join([literals])` are accepted too).  Each value must be canonical base64 (alphabet
A-Za-z0-9+/, length a multiple of 4, '=' only as the last one or two characters) so that
Python's lenient `base64.b64decode` and the strict decoder of coq/C20/C20Model.v mean the same.
Anything else raises TranslateError; the caller then writes a stub with empty constants, the
theorems over the generated file fail and the tie is reported broken.
"""
import ast, os, re
from ..env import VERIF, REPO

OUT = os.path.join(VERIF, "coq", "Gen", "C20Env.v")
REF = os.path.join(VERIF, "coq", "C20", "C20Ref.v")
SRC_REL = os.path.join("yowsup", "env", "env_android.py")
NAMES = [("_KEY", "key_b64"), ("_SIGNATURE", "sig_b64"), ("_MD5_CLASSES", "cls_b64")]
B64 = re.compile(r"^(?:[A-Za-z0-9+/]{4})*(?:[A-Za-z0-9+/]{2}==|[A-Za-z0-9+/]{3}=)?$")


class TranslateError(Exception):
    pass


def _const_str(node):
    if isinstance(node, ast.Constant) and isinstance(node.value, str):
        return node.value
    if isinstance(node, ast.BinOp) and isinstance(node.op, ast.Add):
        return _const_str(node.left) + _const_str(node.right)
    # "<sep>".join([<literal>, ...]) / .join((<literal>, ...))
    if (isinstance(node, ast.Call) and isinstance(node.func, ast.Attribute) and node.func.attr == "join"
            and len(node.args) == 1 and not node.keywords and isinstance(node.args[0], (ast.List, ast.Tuple))):
        return _const_str(node.func.value).join(_const_str(e) for e in node.args[0].elts)
    raise TranslateError("line %s: not a string literal" % getattr(node, "lineno", "?"))


def extract(repo=None):
    """{'_KEY': str, '_SIGNATURE': str, '_MD5_CLASSES': str} from the current source"""
    path = os.path.join(repo or REPO, SRC_REL)
    try:
        tree = ast.parse(open(path).read(), path)
    except (OSError, SyntaxError) as e:
        raise TranslateError("cannot parse %s: %s" % (path, e))
    classes = [n for n in tree.body if isinstance(n, ast.ClassDef) and n.name == "AndroidYowsupEnv"]
    if len(classes) != 1:
        raise TranslateError("expected exactly one class AndroidYowsupEnv, found %d" % len(classes))
    found = {}
    for st in classes[0].body:
        targets = []
        if isinstance(st, ast.Assign):
            targets, value = st.targets, st.value
        elif isinstance(st, ast.AnnAssign) and st.value is not None:
            targets, value = [st.target], st.value
        elif isinstance(st, ast.AugAssign):
            targets, value = [st.target], None
        for t in targets:
            for sub in ast.walk(t):
                if isinstance(sub, ast.Name) and sub.id in dict(NAMES):
                    if not isinstance(t, ast.Name) or value is None:
                        raise TranslateError("line %d: unsupported assignment form for %s" % (st.lineno, sub.id))
                    if sub.id in found:
                        raise TranslateError("line %d: %s assigned twice" % (st.lineno, sub.id))
                    found[sub.id] = _const_str(value)
    for py, _ in NAMES:
        if py not in found:
            raise TranslateError("constant %s not found in class AndroidYowsupEnv" % py)
        if not found[py] or not B64.match(found[py]):
            raise TranslateError("constant %s is not canonical base64 text" % py)
    # the constants must not be rebound anywhere else in the module (methods, module level)
    for node in ast.walk(tree):
        if isinstance(node, ast.Attribute) and node.attr in dict(NAMES) and isinstance(node.ctx, (ast.Store, ast.Del)):
            raise TranslateError("line %d: %s is re-assigned through an attribute" % (node.lineno, node.attr))
    return found


def _coq_list(text):
    nums = ["%d" % b for b in text.encode("ascii")]
    lines, cur = [], "  ["
    for i, n in enumerate(nums):
        piece = n + ("; " if i + 1 < len(nums) else "")
        if len(cur) + len(piece) > 96:
            lines.append(cur.rstrip())
            cur = "   "
        cur += piece
    lines.append(cur + "]")
    return "\n".join(lines)


def render(consts, header):
    out = [header,
           "From Coq Require Import NArith List.", "Import ListNotations.", "Local Open Scope N_scope.", ""]
    for py, coq in NAMES:
        out.append("(* %s : %d characters of base64 text *)" % (py, len(consts[py])))
        out.append("Definition %s : list N :=\n%s." % (coq, _coq_list(consts[py])))
        out.append("")
    return "\n".join(out)


GEN_HEADER = "(* GENERATED on every run by harness/translators/c20_env.py from yowsup/env/env_android.py. Do not edit. *)"
REF_HEADER = ("(* Pinned reference copy of the registration constants (the pinned commit's own values; there is no\n"
              "   network to obtain WhatsApp's).  Written once with harness/translators/c20_env.py:write_ref(). *)")


def _write(path, text):
    os.makedirs(os.path.dirname(path), exist_ok=True)
    old = open(path).read() if os.path.exists(path) else None
    if old != text:
        with open(path, "w") as f:
            f.write(text)


def write_stub(reason):
    consts = {py: "" for py, _ in NAMES}
    _write(OUT, render(consts, GEN_HEADER + "\n(* STUB: translator failed closed: %s *)" %
                       reason.replace("*)", "* )")))


def regenerate(repo=None):
    """Rewrite coq/Gen/C20Env.v from the current source; returns the constants.
    Raises TranslateError after writing a stub when the source is not recognised."""
    try:
        consts = extract(repo)
    except TranslateError as e:
        write_stub(str(e))
        raise
    _write(OUT, render(consts, GEN_HEADER))
    return consts


def write_ref(repo=None):
    _write(REF, render(extract(repo), REF_HEADER))


def read_ref():
    """the pinned constants back from coq/C20/C20Ref.v (the harness's independent side uses them)"""
    src = open(REF).read()
    out = {}
    for py, coq in NAMES:
        m = re.search(r"Definition %s : list N :=\s*\[([^\]]*)\]\." % coq, src)
        if not m:
            raise TranslateError("C20Ref.v: %s not found" % coq)
        body = m.group(1).strip()
        out[py] = bytes(int(x) for x in body.split(";")).decode("ascii") if body else ""
    return out
