"""Evaluation-based extraction of the stack-builder helpers (shared by c18_layers and c06tables).

YowStackBuilder.getCoreLayers / getProtocolLayers / getDefaultLayers / getDefaultStack are total
functions of a FINITE input space: four module flags, plus `axolotl` and the optional top layer
for getDefaultStack.  Whatever way they are written, their meaning is the table of their values.
This module obtains that table from the real code:

* one fresh interpreter (`python stack_eval.py --driver`, PYTHONPATH = the tree under test, the six
  shim of harness/env.py, nothing of yowsup imported before) imports yowsup.stacks and then
  **forks once per call**: every table entry is the value of the FIRST call made in a process
  that has done nothing but the import, so the table is the function's value and never an
  artefact of earlier calls;
* call histories: in further forks the same helper is called again with the same selection, again
  after a call with the complementary selection and again after a call with everything selected;
  every later result is compared with the first-call table (a difference = the helper's value
  depends on the call history: a broken tie WITH a concrete failing call sequence);
* handleMaps: every protocol layer class returned for any selection is instantiated and the keys
  of its `handleMap` are read together with "receive slot is not None" / "send slot is not None".

Nothing here decides a property; the callers turn the table into coq/Gen files (when the source
shape is not recognised by the syntactic transcription) or compare it with the syntactic result.
Fail-closed: import error, a non-layer entry, an unexpected parameter -> EvalError / 'bad' entries.
"""
import itertools, json, os, shutil, subprocess, sys, tempfile, time

FLAGS = ("groups", "media", "privacy", "profiles")
HELPERS = ("getCoreLayers", "getProtocolLayers", "getDefaultLayers", "getDefaultStack")
TOP = "<top>"                      # marker of the optional application layer in a described stack
TOPKINDS = ("none", "class", "instance")
KNOWN_PARAMS = ("layer", "axolotl") + FLAGS


class EvalError(Exception):
    pass


def skey(sel):
    """selection dict -> '1010' (groups, media, privacy, profiles)"""
    return "".join("1" if sel[f] else "0" for f in FLAGS)


def sel_of(key):
    return dict((f, c == "1") for f, c in zip(FLAGS, key))


SELECTIONS = [sel_of("".join(b)) for b in itertools.product("01", repeat=4)]


def call_label(c):
    """human readable form of one call [helper, kwargs, topkind]"""
    h, kw, top = c
    args = ["%s=%s" % (k, kw[k]) for k in KNOWN_PARAMS if k in kw]
    if h == "getDefaultStack":
        args.insert(0, "layer=<%s>" % top)
    return "YowStackBuilder.%s(%s)" % (h, ", ".join(args))


# ------------------------------------------------------------------------------------------------
# the driver: runs inside the fresh interpreter
# ------------------------------------------------------------------------------------------------

def _driver():
    import importlib.util, inspect, signal
    here = os.path.dirname(os.path.abspath(__file__))
    sys.path[:] = [p for p in sys.path if os.path.abspath(p or ".") != here]
    job = json.load(sys.stdin)
    out = {"fatal": None}

    def finish():
        with open(job["out"], "w") as f:
            json.dump(out, f)
        sys.stdout.flush()
        os._exit(0)

    try:
        spec = importlib.util.spec_from_file_location("yv_env_for_stack_eval", job["env_py"])
        envmod = importlib.util.module_from_spec(spec)
        spec.loader.exec_module(envmod)
        envmod.setup(job["scratch"])
        import yowsup.stacks.yowstack as ys
        import yowsup.stacks as pkg
        from yowsup.layers import YowLayer, YowParallelLayer
        B = ys.YowStackBuilder
    except BaseException as e:          # ImportError, SyntaxError, SystemExit, ...
        out["fatal"] = "import of yowsup.stacks failed: %s: %s" % (type(e).__name__, e)
        finish()

    class YvTopLayer(YowLayer):
        pass

    def d_inst(x):
        if type(x) is YvTopLayer:
            return TOP
        if isinstance(x, YowParallelLayer):
            return ["par", [d_inst(s) for s in x.sublayers]]
        if isinstance(x, YowLayer):
            return type(x).__name__
        return ["bad", "%s object is not a YowLayer" % type(x).__name__]

    def d_item(x):
        if x is YvTopLayer:
            return TOP
        if inspect.isclass(x):
            if issubclass(x, YowLayer):
                return x.__name__
            return ["bad", "class %s is not a YowLayer subclass" % x.__name__]
        if type(x) is YvTopLayer:
            return TOP
        if isinstance(x, YowParallelLayer):
            return ["par", [d_inst(s) for s in x.sublayers]]
        if type(x) is tuple:
            return ["tup", [d_item(c) if inspect.isclass(c) else ["bad", "non-class in a tuple group"] for c in x]]
        if isinstance(x, YowLayer):
            return ["inst", type(x).__name__]
        return ["bad", "%s object is not a layer" % type(x).__name__]

    def d_seq(r, want_tuple=True):
        if type(r) is tuple or (type(r) is list and not want_tuple):
            return {"val": [d_item(x) for x in r], "type": type(r).__name__}
        return {"bad": "result is a %s, not a tuple" % type(r).__name__}

    def d_stack(st):
        if not isinstance(st, ys.YowStack):
            return {"bad": "result is a %s, not a YowStack" % type(st).__name__}
        items = []
        for i in range(256):
            try:
                items.append(d_inst(st.getLayer(i)))
            except IndexError:
                break
        return {"val": items, "type": "YowStack"}

    def mk_top(kind):
        return {"none": None, "class": YvTopLayer}.get(kind) if kind != "instance" else YvTopLayer()

    def do_call(c):
        h, kw, top = c
        kw = dict(kw)
        if h == "getDefaultStack":
            kw["layer"] = mk_top(top)
        try:
            r = getattr(B, h)(**kw)
        except Exception as e:
            return {"exc": "%s: %s" % (type(e).__name__, e)}
        return d_stack(r) if h == "getDefaultStack" else d_seq(r)

    def forked(fn):
        r, w = os.pipe()
        pid = os.fork()
        if pid == 0:
            code = 0
            try:
                os.close(r)
                signal.signal(signal.SIGALRM, signal.SIG_DFL)
                signal.alarm(20)
                try:
                    res = fn()
                except BaseException as e:
                    res = {"exc": "harness: %s: %s" % (type(e).__name__, e)}
                with os.fdopen(w, "wb") as f:
                    f.write(json.dumps(res).encode())
            except BaseException:
                code = 1
            finally:
                os._exit(code)
        os.close(w)
        with os.fdopen(r, "rb") as f:
            data = f.read()
        _, status = os.waitpid(pid, 0)
        if not data:
            return {"exc": "harness: the call did not return (status %d: crash, exit or hang)" % status}
        return json.loads(data)

    # ---- static facts (no helper is called here)
    def sig_of(f):
        ps = []
        for p in inspect.signature(f).parameters.values():
            d = p.default
            dv = "required" if d is inspect.Parameter.empty else \
                ("true" if d is True else "false" if d is False else "none" if d is None else "other")
            ps.append([p.name, dv, p.kind == inspect.Parameter.POSITIONAL_OR_KEYWORD])
        return ps
    try:
        out["sig"] = dict((h, sig_of(getattr(B, h))) for h in HELPERS)
        rp = inspect.signature(ys.YowStack.__init__).parameters.get("reversed")
        out["rev_default"] = rp.default if (rp is not None and isinstance(rp.default, bool)) else None

        def layerish(x):
            if inspect.isclass(x):
                return issubclass(x, YowLayer)
            if isinstance(x, YowLayer):
                return True
            return type(x) in (tuple, list) and any(layerish(y) for y in x)

        def consts(mod):
            # a capitalised module-level tuple / list is a layer constant when it is empty or mentions at least one
            # layer (class, instance, nested group); tables of anything else (dispatch rules, names, numbers) have
            # nothing to do with stack assembly and are not part of the model
            res = []
            for n, v in list(vars(mod).items()):
                if n.isupper() and type(v) in (tuple, list) and (len(v) == 0 or layerish(v)):
                    res.append([n, d_seq(v, want_tuple=False)])
            return res
        out["consts"] = {"yowstack": consts(ys), "init": consts(pkg)}
    except BaseException as e:
        out["fatal"] = "introspection failed: %s: %s" % (type(e).__name__, e)
        finish()

    # ---- first calls, one fork each
    out["calls"] = [forked(lambda c=c: do_call(c)) for c in job.get("calls", [])]
    # ---- histories, one fork each; every call of the sequence is described
    out["histories"] = [forked(lambda hs=hs: {"results": [do_call(c) for c in hs]}) for hs in job.get("histories", [])]

    # ---- handleMaps of every protocol layer class any selection returns
    def class_refs(sel):
        # first call of a process: the classes are named by (module, qualified name) so that the set of
        # classes does not depend on the order in which the selections are asked
        return {"refs": [[c.__module__, c.__qualname__] for c in B.getProtocolLayers(**sel) if inspect.isclass(c)]}

    def handlemaps():
        import importlib
        classes = []
        for sel in job.get("selections", []):
            for mod, qn in forked(lambda sel=sel: class_refs(sel)).get("refs", []):
                try:
                    c = importlib.import_module(mod)
                    for part in qn.split("."):
                        c = getattr(c, part)
                except Exception:
                    continue
                if inspect.isclass(c) and c not in classes:
                    classes.append(c)
        res = {}
        for c in classes:
            try:
                inst = c()
                hm = getattr(inst, "handleMap", None)
                if not isinstance(hm, dict):
                    res[c.__name__] = {"bad": "handleMap is %s" % type(hm).__name__}
                    continue
                rows = []
                bad = None
                for k, v in hm.items():
                    if not isinstance(k, str):
                        bad = "non-string handleMap key %r" % (k,)
                        break
                    if not (isinstance(v, (tuple, list)) and len(v) == 2):
                        bad = "handleMap[%s] is not a pair" % k
                        break
                    if any(s is not None and not callable(s) for s in v):
                        bad = "handleMap[%s] slot is neither None nor callable" % k
                        break
                    rows.append([k, v[0] is not None, v[1] is not None])
                res[c.__name__] = {"bad": bad} if bad else {"rows": rows}
            except Exception as e:
                res[c.__name__] = {"bad": "instantiation raised %s: %s" % (type(e).__name__, e)}
        return {"maps": res}
    if job.get("handlemaps"):
        out["handlemaps"] = forked(handlemaps)
    finish()


# ------------------------------------------------------------------------------------------------
# parent side
# ------------------------------------------------------------------------------------------------

def _verif():
    return os.path.dirname(os.path.dirname(os.path.dirname(os.path.abspath(__file__))))


def run_driver(repo, job, scratch=None, timeout=180):
    """run one job in a fresh interpreter against `repo`; returns the driver's result dict"""
    own = scratch is None
    base = tempfile.mkdtemp(prefix="yv-stackeval-") if own else tempfile.mkdtemp(prefix="stackeval-", dir=scratch)
    try:
        job = dict(job, env_py=os.path.join(_verif(), "harness", "env.py"), scratch=base,
                   out=os.path.join(base, "result.json"))
        env = {"PYTHONPATH": repo, "YV_REPO": repo, "HOME": base, "XDG_CONFIG_HOME": base,
               "PYTHONHASHSEED": "0", "PYTHONDONTWRITEBYTECODE": "1",
               "PATH": os.environ.get("PATH", "/usr/bin:/bin")}
        try:
            p = subprocess.run([sys.executable, os.path.abspath(__file__), "--driver"], input=json.dumps(job),
                               env=env, cwd=base, stdout=subprocess.PIPE, stderr=subprocess.STDOUT, text=True,
                               timeout=timeout)
        except subprocess.TimeoutExpired:
            raise EvalError("evaluation subprocess did not finish within %d s" % timeout)
        if not os.path.exists(job["out"]):
            raise EvalError("evaluation subprocess produced no result (exit %s): %s" % (p.returncode, p.stdout[-400:]))
        res = json.load(open(job["out"]))
        if res.get("fatal"):
            raise EvalError(res["fatal"])
        return res
    finally:
        shutil.rmtree(base, ignore_errors=True)


def _comp(sel):
    return dict((f, not sel[f]) for f in FLAGS)


ALL_ON = dict((f, True) for f in FLAGS)


def _plan():
    calls = [["getCoreLayers", {}, "none"]]
    for s in SELECTIONS:
        calls.append(["getProtocolLayers", s, "none"])
    for s in SELECTIONS:
        calls.append(["getDefaultLayers", s, "none"])
    for top in TOPKINDS:
        for ax in (False, True):
            for s in SELECTIONS:
                calls.append(["getDefaultStack", dict(s, axolotl=ax), top])
    hist = [[["getCoreLayers", {}, "none"]] * 3]
    for h in ("getProtocolLayers", "getDefaultLayers", "getDefaultStack"):
        for s in SELECTIONS:
            mk = (lambda x: [h, dict(x, axolotl=False), "none"]) if h == "getDefaultStack" else (lambda x: [h, dict(x), "none"])
            hist.append([mk(s), mk(s), mk(_comp(s)), mk(s), mk(ALL_ON), mk(s)])
    # across helpers: everything once with all modules, then every helper with every selection
    mixed = [["getProtocolLayers", dict(ALL_ON), "none"], ["getDefaultLayers", dict(ALL_ON), "none"],
             ["getDefaultStack", dict(ALL_ON, axolotl=False), "none"], ["getCoreLayers", {}, "none"]]
    for s in SELECTIONS:
        mixed += [["getProtocolLayers", dict(s), "none"], ["getDefaultLayers", dict(s), "none"],
                  ["getDefaultStack", dict(s, axolotl=True), "class"]]
    hist.append(mixed)
    return calls, hist


def _ckey(c):
    return json.dumps(c, sort_keys=True)


class Table(object):
    """the evaluated helpers: first-call values, signatures, constants, history findings, handleMaps"""

    def __init__(self, raw, calls, hist):
        self.sig = raw["sig"]
        self.rev_default = raw["rev_default"]
        self.consts = raw["consts"]
        self.first = dict((_ckey(c), r) for c, r in zip(calls, raw["calls"]))
        self.n_calls = len(calls)
        self.core = self.value("getCoreLayers", {}, "none")
        self.handlemaps = (raw.get("handlemaps") or {}).get("maps")
        self.handlemaps_error = (raw.get("handlemaps") or {}).get("exc")
        # ---- history dependence: any later result that differs from the first-call value
        self.history_findings = []
        self.n_history_calls = 0
        seen = set()
        for hs, hr in zip(hist, raw["histories"]):
            results = hr.get("results")
            if results is None:
                self.history_findings.append({"helper_calls": hs, "failing_index": len(hs) - 1,
                                              "problem": hr.get("exc", "no result"), "expected": None, "observed": None})
                continue
            for i, (c, r) in enumerate(zip(hs, results)):
                self.n_history_calls += 1
                exp = self.first.get(_ckey(c))
                if exp is None or same(exp, r):
                    continue
                seq = hs[:i + 1]
                sig = _ckey(seq)
                if sig in seen:
                    break
                seen.add(sig)
                self.history_findings.append({
                    "helper_calls": seq, "calls_text": [call_label(x) for x in seq], "failing_index": len(seq) - 1,
                    "expected": exp, "observed": r,
                    "problem": "%s returns a different value after earlier helper calls in the same process than as "
                               "the first call of a process" % call_label(c)})
                break

    def value(self, helper, sel, top="none", axolotl=None):
        kw = dict(sel)
        if helper == "getDefaultStack":
            kw["axolotl"] = bool(axolotl)
        return self.first[_ckey([helper, kw, top])]


def shrink_findings(repo, table, scratch=None, limit=3):
    """drop earlier calls of a recorded sequence while its last call still differs from the first-call
    value (one driver run per round, every candidate in its own fork)"""
    for f in table.history_findings[:limit]:
        seq = f["helper_calls"]
        if f.get("expected") is None:
            continue
        for _round in range(8):
            cands = [seq[:j] + seq[j + 1:] for j in range(len(seq) - 1)]
            if not cands:
                break
            try:
                raw = run_driver(repo, {"histories": cands}, scratch=scratch)
            except EvalError:
                break
            hit = None
            for cand, hr in zip(cands, raw["histories"]):
                rs = hr.get("results")
                if rs and not same(f["expected"], rs[-1]):
                    hit = (cand, rs[-1])
                    break
            if hit is None:
                break
            seq, f["observed"] = hit
        f["helper_calls"] = seq
        f["calls_text"] = [call_label(x) for x in seq]
        f["failing_index"] = len(seq) - 1


def same(a, b):
    """two described results are the same value (exception texts are not compared)"""
    if "exc" in a or "exc" in b:
        return "exc" in a and "exc" in b and a["exc"].split(":")[0] == b["exc"].split(":")[0]
    return a == b


def bad_entries(res):
    """list of reasons why a described result cannot be used as a table entry"""
    if "bad" in res:
        return [res["bad"]]
    out = []

    def walk(x):
        if isinstance(x, list):
            if x and x[0] == "bad":
                out.append(x[1])
            elif x and x[0] == "inst":
                out.append("a ready-made %s instance (not a class) in the result" % x[1])
            else:
                for y in x:
                    walk(y)
    walk(res.get("val", []))
    return out


_cache = {}


def evaluate(repo, scratch=None, use_cache=True):
    """-> Table.  Raises EvalError when the tree cannot be imported / introspected."""
    t0 = time.time()
    key = os.path.realpath(repo)
    if use_cache and key in _cache:
        return _cache[key]
    calls, hist = _plan()
    raw = run_driver(repo, {"calls": calls, "histories": hist, "handlemaps": True, "selections": SELECTIONS},
                     scratch=scratch)
    t = Table(raw, calls, hist)
    shrink_findings(repo, t, scratch)
    t.wall_s = round(time.time() - t0, 2)
    _cache[key] = t
    return t


def rerun_history(repo, helper_calls, scratch=None):
    """replay support: (first-call values, results of the sequence) in fresh interpreters"""
    raw = run_driver(repo, {"calls": helper_calls, "histories": [helper_calls]}, scratch=scratch)
    return raw["calls"], raw["histories"][0].get("results")


def replay_history(repo, case, pid, scratch=None):
    """re-run a recorded call sequence; 1 if the last call still differs from its first-call value"""
    hs = case["helper_calls"]
    try:
        firsts, results = rerun_history(repo, hs, scratch)
    except EvalError as e:
        print("replay: evaluation failed:", e)
        return 1
    for i, c in enumerate(hs):
        print("call %d: %s" % (i + 1, call_label(c)))
        print("   -> %s" % json.dumps(results[i] if results else None))
    exp = firsts[-1]
    got = results[-1] if results else None
    print("expected (the value of the same call as the FIRST call of a fresh process): %s" % json.dumps(exp))
    print("observed (after the calls above in one process):                          %s" % json.dumps(got))
    if got is None or not same(exp, got):
        print("VIOLATION property=%s replay=(replayed)" % pid)
        return 1
    print("property holds on this call sequence now")
    return 0


def flatnames(res):
    """class names in a described value, bottom first, groups flattened"""
    out = []
    for x in res.get("val", []):
        if isinstance(x, list):
            out += [y for y in x[1] if isinstance(y, str)] if x[0] in ("par", "tup") else []
        else:
            out.append(x)
    return out


if __name__ == "__main__":
    if "--driver" in sys.argv:
        _driver()
