"""Fail-closed translator: yowsup/axolotl/store/sqlite/lite*.py  ->  coq/Gen/C13Programs.v

A small symbolic interpreter of the five SQLite store classes.  For every method it computes the
sequence of SQL statements (classified by verb, table, key columns, extra WHERE conditions,
assigned columns) and commits the method executes, and writes them as the `store_def` the
theorems of coq/C13 are instantiated with.  SELECTs are dropped (they do not change the
database).

What the interpreter follows:
  * expressions are evaluated left to right; a value is a function of a parameter
    (`x.getA().getB()`), a constant, SQL text, the connection, a cursor, a tuple of values, the
    loop variable, or opaque;
  * calls of methods of the same class (`self.h(..)`, also @staticmethod/@classmethod helpers,
    positional/keyword/default arguments) are INLINED where they stand -- as statements, on the
    right of assignments, in return values, in SQL parameter tuples, in comparisons and `if`
    tests; the callee's database events are appended at that point and its return value
    (`return e`, `return a, b`, unpacked by the caller) is computed when the callee is
    straight-line up to `sys.version_info < (2, 7)` tests; a cursor / `self.dbConn.cursor()`
    passed as an argument is a cursor in the callee;
  * PUBLIC methods (what liteaxolotlstore.py delegates to, and every method whose name does not
    start with one underscore) must translate; private helpers need not translate standalone
    (they are skipped with a note and only interpreted at their call sites);
  * data-dependent code (`if`, conditional expressions, and/or, loops over rows, early returns)
    is accepted when everything under the condition only READS; a write or commit under a
    data-dependent condition, or a data-dependent exit before the last write/commit of a
    method, is Unrecognised (except an IntegrityError handler behind statements that cannot
    raise it, which is dropped with a note);
  * `for x in <list parameter>:` with exactly one write per iteration (SQL text may be bound
    outside, one cursor per iteration or a shared one), commit outside;
  * the guarded initialisation of LiteIdentityKeyStore.__init__: the guard is evaluated
    concretely for "own row missing" and "own row present" through private predicate helpers,
    early returns, `is None` / `is not None` / `not` / and / or, and must be true exactly when
    the row is missing (or, for `if <guard>: return`, exactly when it is present); the body
    may generate values (`name = <call without database events>`) and call helpers that do.
Anything else (unknown SQL, dynamic SQL text, executemany/executescript/rollback, calls on the
connection other than cursor/execute/commit, the connection / a cursor / self handed to code
that is not a method of the class, unknown decorators on public methods ...) raises
Unrecognised by this SYNTACTIC path.

Second path, MEASURED (harness/c13_tracecheck.py runs the real classes over a tracing connection
with sentinel arguments; `build_measured` / `measured_method` below turn the traces into the same
model).  `extract` decides: source recognised -> the syntactic model is written and must reproduce
everything measured ("syntactic+measured (agree)", else "... (DISAGREE)" = tie broken); source not
recognised -> the model is built from the measurement when every state variant of a method gives
one statement/commit skeleton ("measured only (source shape not recognised: ...)"); neither ->
Unrecognised, a store definition that fails `store_ok` is written and the tie is broken.  A JSON
side file tells the harness how each model argument is computed from the Python arguments
(parameter + accessor chain + column affinity) and which path produced it (`extraction`).
"""
import ast, os, re, json
from ..env import REPO, VERIF

GEN_V = os.path.join(VERIF, "coq", "Gen", "C13Programs.v")
GEN_JSON = os.path.join(VERIF, "coq", "Gen", "C13Programs.json")

STORE_DIR = "yowsup/axolotl/store/sqlite"
STORE_FILES = ["liteidentitykeystore.py", "liteprekeystore.py", "litesignedprekeystore.py",
               "litesessionstore.py", "litesenderkeystore.py"]
FACADE = "liteaxolotlstore.py"
KNOWN_TABLES = ["identities", "prekeys", "signed_prekeys", "sessions", "sender_keys"]
EVENT_ATTRS = ("execute", "executemany", "executescript", "commit", "rollback")


class Unrecognised(Exception):
    pass


def fail(where, what):
    raise Unrecognised("%s: %s" % (where, what))


# ---------------------------------------------------------------- canonical cells
def canon(value, affinity):
    """Canonical byte image of the value SQLite stores when `value` is bound to a column of
    the given affinity (and what the dump of that column gives back, text_factory=bytes)."""
    if value is None:
        return b"n"
    if isinstance(value, bool):
        value = int(value)
    if affinity in ("INTEGER", "NUMERIC"):
        if isinstance(value, int):
            return b"i%d" % value
        if isinstance(value, str):
            if re.fullmatch(r"-?(0|[1-9][0-9]*)", value):
                return b"i%d" % int(value)
            return b"b" + value.encode("utf-8")
        if isinstance(value, (bytes, bytearray)):
            return b"b" + bytes(value)
    elif affinity == "TEXT":
        if isinstance(value, int):
            return b"b" + str(value).encode()
        if isinstance(value, str):
            return b"b" + value.encode("utf-8")
        if isinstance(value, (bytes, bytearray)):
            return b"b" + bytes(value)
    else:  # BLOB / none
        if isinstance(value, int):
            return b"i%d" % value
        if isinstance(value, str):
            return b"b" + value.encode("utf-8")
        if isinstance(value, (bytes, bytearray)):
            return b"b" + bytes(value)
    raise ValueError("cannot canonicalise %r" % (value,))


def canon_out(value):
    """Canonical image of a value read back from SQLite (text_factory=bytes)."""
    if value is None:
        return b"n"
    if isinstance(value, int):
        return b"i%d" % value
    if isinstance(value, (bytes, bytearray)):
        return b"b" + bytes(value)
    if isinstance(value, str):
        return b"b" + value.encode("utf-8")
    return b"f" + repr(value).encode()


# ---------------------------------------------------------------- SQL
def _norm(sql):
    return re.sub(r"\s+", " ", sql.strip().rstrip(";").strip())


def _affinity(decl):
    d = decl.upper()
    if "INT" in d:
        return "INTEGER"
    if "CHAR" in d or "CLOB" in d or "TEXT" in d:
        return "TEXT"
    if "BLOB" in d or d == "":
        return "BLOB"
    if "REAL" in d or "FLOA" in d or "DOUB" in d:
        return "REAL"
    return "NUMERIC"


def parse_ddl(sql, tables, where):
    s = _norm(sql)
    m = re.fullmatch(r"CREATE TABLE IF NOT EXISTS (\w+) ?\((.*)\)", s, re.I)
    if m:
        name, cols = m.group(1), []
        if name in tables:
            fail(where, "table %s created twice" % name)
        for cd in m.group(2).split(","):
            parts = cd.strip().split()
            if not parts:
                fail(where, "empty column definition")
            cname, rest = parts[0], " ".join(parts[1:])
            up = rest.upper()
            typ = parts[1] if len(parts) > 1 else ""
            leftover = re.sub(r"PRIMARY KEY|AUTOINCREMENT|UNIQUE|NOT NULL", "", up).split()
            if leftover[1:] or (leftover and leftover[0] != typ.upper()):
                fail(where, "column constraint not understood: %r" % cd)
            cols.append({"name": cname, "affinity": _affinity(typ), "rowid": "PRIMARY KEY" in up,
                         "unique": "UNIQUE" in up and "PRIMARY KEY" not in up})
        if sum(1 for c in cols if c["rowid"]) != 1:
            fail(where, "expected exactly one rowid column in %s" % name)
        tables[name] = {"name": name, "cols": cols, "key": [c["name"] for c in cols if c["unique"]]}
        if len(tables[name]["key"]) > 1:
            fail(where, "several UNIQUE columns in %s" % name)
        return
    m = re.fullmatch(r"CREATE UNIQUE INDEX IF NOT EXISTS \w+ ON (\w+) ?\(([^)]*)\)", s, re.I)
    if m:
        name = m.group(1)
        if name not in tables:
            fail(where, "index on unknown table %s" % name)
        if tables[name]["key"]:
            fail(where, "second UNIQUE constraint on %s" % name)
        tables[name]["key"] = [c.strip() for c in m.group(2).split(",")]
        for c in tables[name]["key"]:
            if c not in [x["name"] for x in tables[name]["cols"]]:
                fail(where, "index on unknown column %s" % c)
        return
    fail(where, "DDL not understood: %r" % s)


def _conds(text, where):
    out = []
    for c in re.split(r"\s+AND\s+", text, flags=re.I):
        m = re.fullmatch(r"(\w+) ?= ?(\?|-?\d+)", c.strip())
        if not m:
            fail(where, "condition not understood: %r" % c)
        out.append((m.group(1), m.group(2)))
    return out


def parse_sql(sql, where):
    """-> dict(verb, table, key conds, ...) with placeholders numbered in textual order."""
    s = _norm(sql)
    m = re.fullmatch(r"INSERT( OR REPLACE)? INTO (\w+) ?\(([^)]*)\) ?VALUES ?\(([^)]*)\)", s, re.I)
    if m:
        cols = [c.strip() for c in m.group(3).split(",")]
        vals = [v.strip() for v in m.group(4).split(",")]
        if len(cols) != len(vals) or not all(re.fullmatch(r"\?|-?\d+", v) for v in vals):
            fail(where, "INSERT column/value lists not understood: %r" % s)
        return {"verb": "insert", "orreplace": bool(m.group(1)), "table": m.group(2),
                "assign": list(zip(cols, vals)), "conds": []}
    m = re.fullmatch(r"DELETE FROM (\w+) WHERE (.*)", s, re.I)
    if m:
        return {"verb": "delete", "table": m.group(1), "assign": [], "conds": _conds(m.group(2), where)}
    m = re.fullmatch(r"UPDATE (\w+) SET (.*?) WHERE (.*)", s, re.I)
    if m:
        assign = []
        for a in m.group(2).split(","):
            mm = re.fullmatch(r"(\w+) ?= ?(\?|-?\d+)", a.strip())
            if not mm:
                fail(where, "SET clause not understood: %r" % a)
            assign.append((mm.group(1), mm.group(2)))
        return {"verb": "update", "table": m.group(1), "assign": assign, "conds": _conds(m.group(3), where)}
    m = re.fullmatch(r"SELECT (.*?) FROM (\w+)( WHERE (.*))?", s, re.I)
    if m:
        return {"verb": "select", "table": m.group(2), "where": m.group(4) or "", "assign": [], "conds": []}
    fail(where, "SQL not understood: %r" % s)


# ---------------------------------------------------------------- symbolic values
class Val(object):
    """A value computed from a method parameter by a chain of zero-argument calls."""

    def __init__(self, root, chain=()):
        self.root, self.chain = root, tuple(chain)

    def key(self):
        return (self.root, self.chain)


class Const(object):
    def __init__(self, v):
        self.v = v


class Loop(object):
    pass


class Sql(object):
    def __init__(self, text):
        self.text = text


class Tup(object):
    """A tuple / list display (or the tuple a helper returns) of symbolic values."""

    def __init__(self, items):
        self.items = list(items)


CURSOR, OPAQUE, CONN, SELF = "cursor", "opaque", "conn", "self"
CONN_ATTRS = {}      # class name -> attribute its __init__ stores the connection in (default dbConn)


def conn_attr(cls):
    return CONN_ATTRS.get(cls, "dbConn")


CURSOR_READS = ("fetchone", "fetchall", "fetchmany", "close")
COMPS = (ast.ListComp, ast.SetComp, ast.DictComp, ast.GeneratorExp)


def is_py2_test(node):
    """sys.version_info < (2, 7)  -- always false on a supported interpreter"""
    return (isinstance(node, ast.Compare) and len(node.ops) == 1 and isinstance(node.ops[0], ast.Lt)
            and isinstance(node.left, ast.Attribute) and node.left.attr == "version_info"
            and isinstance(node.left.value, ast.Name) and node.left.value.id == "sys"
            and isinstance(node.comparators[0], ast.Tuple)
            and [getattr(e, "value", None) for e in node.comparators[0].elts] == [2, 7])


def has_events(node, cls=None):
    """Syntactic over-approximation: may evaluating `node` reach the database?  (a call of
    execute/commit/... on anything, or any call of a method of this class)"""
    for n in ast.walk(node):
        if isinstance(n, ast.Call) and isinstance(n.func, ast.Attribute):
            if n.func.attr in EVENT_ATTRS:
                return True
            if isinstance(n.func.value, ast.Name) and n.func.value.id in ("self", "cls", cls):
                return True
    return False


def jump_kind(nodes):
    """False | "return" | "exit": can the statements leave the enclosing method (return) or the
    whole call chain / loop (raise, break, continue)?"""
    kind = False
    for node in nodes:
        for n in ast.walk(node):
            if isinstance(n, (ast.Raise, ast.Break, ast.Continue)):
                return "exit"
            if isinstance(n, ast.Return):
                kind = "return"
    return kind


def assigned_names(nodes):
    out = set()
    for node in nodes:
        for n in ast.walk(node):
            if isinstance(n, (ast.Assign, ast.AugAssign, ast.AnnAssign, ast.For, ast.NamedExpr)):
                tgts = n.targets if isinstance(n, ast.Assign) else [n.target]
                for t in tgts:
                    for x in ast.walk(t):
                        if isinstance(x, ast.Name):
                            out.add(x.id)
            elif isinstance(n, ast.ExceptHandler) and n.name:
                out.add(n.name)
            elif isinstance(n, ast.withitem) and n.optional_vars is not None:
                for x in ast.walk(n.optional_vars):
                    if isinstance(x, ast.Name):
                        out.add(x.id)
    return out


def is_effect(e):
    """an event that changes the database or the transaction state"""
    return e[0] in ("commit", "each") or (e[0] == "sql" and e[1]["verb"] != "select")


def method_kind(fdef):
    """"instance" | "static" | "class" | None (a decorator the interpreter does not know)"""
    decs = fdef.decorator_list
    if not decs:
        return "instance"
    if len(decs) == 1 and isinstance(decs[0], ast.Name) and decs[0].id in ("staticmethod", "classmethod"):
        return "static" if decs[0].id == "staticmethod" else "class"
    return None


def is_private(name):
    return name.startswith("_") and not (name.startswith("__") and name.endswith("__"))


class Frame(object):
    """Where the interpreter is: local bindings, the event list being appended to, call depth
    and stack, and whether we are inside a `for` body."""

    def __init__(self, env, out, depth=0, in_loop=False, stack=()):
        self.env, self.out, self.depth, self.in_loop, self.stack = env, out, depth, in_loop, tuple(stack)
        self.w = ""

    def fork(self, env=None, out=None, **kw):
        f = Frame(self.env if env is None else env, self.out if out is None else out,
                  kw.get("depth", self.depth), kw.get("in_loop", self.in_loop), kw.get("stack", self.stack))
        f.w = self.w
        return f


class Interp(object):
    """Symbolic interpreter of one store class.

    Events (appended to Frame.out in execution order):
      ("sql", parsed, params|None, where)   one execute() of a literal statement
      ("each", loop parameter, parsed, params)   `for x in <list parameter>:` with one write
      ("commit",)
      ("branch", False|"return"|"exit", where)   data-dependent code without database writes;
                                            the flag says whether it can leave the method
      ("end", "return"|"raise", where)      unconditional end of the method body
      ("note", text)
    Expressions are evaluated left to right; calls of methods of the class are inlined at the
    point of the call (their events are appended there) and their return value is computed when
    the callee is straight-line.  Whatever is not understood raises Unrecognised.
    """

    def __init__(self, cls, methods, tables, where, init_ctx=False):
        self.cls, self.methods, self.tables, self.where, self.init_ctx = cls, methods, tables, where, init_ctx
        self.kinds = {n: method_kind(f) for n, f in methods.items()}
        self.gen_count = 0

    def has_events(self, node):
        return has_events(node, self.cls)

    # --- expressions
    def ev(self, node, fr):
        w = fr.w
        if isinstance(node, ast.Constant):
            if isinstance(node.value, str):
                return Sql(node.value)
            if isinstance(node.value, bool):
                return Const(int(node.value))
            if isinstance(node.value, int) or node.value is None:
                return Const(node.value)
            return OPAQUE
        if isinstance(node, ast.UnaryOp) and isinstance(node.op, ast.USub) and \
                isinstance(node.operand, ast.Constant) and isinstance(node.operand.value, int):
            return Const(-node.operand.value)
        if isinstance(node, ast.Name):
            if node.id == "self" and "self" not in fr.env:
                return SELF
            return fr.env.get(node.id, OPAQUE)
        if isinstance(node, ast.IfExp):
            if is_py2_test(node.test):
                return self.ev(node.orelse, fr)
            self.ev(node.test, fr)
            self.ev_conditional([node.body, node.orelse], fr, "conditional expression")
            return OPAQUE
        if isinstance(node, ast.Attribute):
            if isinstance(node.value, ast.Name) and node.value.id == "self" and "self" not in fr.env:
                return CONN if node.attr == conn_attr(self.cls) else OPAQUE
            self.ev(node.value, fr)
            return OPAQUE
        if isinstance(node, (ast.Tuple, ast.List)):
            if any(isinstance(e, ast.Starred) for e in node.elts):
                for e in node.elts:
                    self.ev(e, fr)
                return OPAQUE
            return Tup([self.ev(e, fr) for e in node.elts])
        if isinstance(node, ast.Call):
            return self.call(node, fr)
        if isinstance(node, ast.BoolOp):
            self.ev(node.values[0], fr)
            self.ev_conditional(node.values[1:], fr, "and/or operand")
            return OPAQUE
        if isinstance(node, (ast.Compare, ast.BinOp, ast.UnaryOp, ast.Subscript, ast.Slice, ast.JoinedStr,
                             ast.FormattedValue, ast.Starred)):
            for ch in ast.iter_child_nodes(node):
                if isinstance(ch, ast.expr):
                    self.ev(ch, fr)
            return OPAQUE
        if isinstance(node, COMPS):
            # the first iterable is evaluated once, where the comprehension stands
            self.ev(node.generators[0].iter, fr)
            rest = [g for g in node.generators[1:]] + [ast.Tuple(elts=list(node.generators[0].ifs), ctx=ast.Load())]
            rest.append(node.elt if not isinstance(node, ast.DictComp) else ast.Tuple(elts=[node.key, node.value], ctx=ast.Load()))
            if any(self.has_events(x) for x in rest):
                fail(w, "database call inside a comprehension")
            return OPAQUE
        if self.has_events(node):
            fail(w, "database call inside an expression that is not understood: %s" % type(node).__name__)
        return OPAQUE

    def ev_conditional(self, nodes, fr, what):
        """operands that are evaluated only under a data-dependent condition: reads only"""
        tmp = []
        f2 = fr.fork(out=tmp)
        for n in nodes:
            self.ev(n, f2)
        if any(is_effect(e) for e in tmp):
            fail(fr.w, "database write or commit under a condition (%s)" % what)
        fr.out.extend(tmp)
        if any(e[0] == "sql" for e in tmp):
            fr.out.append(("branch", False, fr.w))

    def escape_check(self, v, w, how):
        """the connection, a cursor or the store object handed to code the interpreter cannot see"""
        vs = v.items if isinstance(v, Tup) else [v]
        for x in vs:
            if isinstance(x, Tup):
                self.escape_check(x, w, how)
            elif x in (CONN, CURSOR, SELF):
                fail(w, "the %s is %s (code the translator cannot follow)" % (
                    {CONN: "connection", CURSOR: "cursor", SELF: "store object"}[x], how))
        return v

    def fresh_gen(self):
        self.gen_count += 1
        return Val("gen:value%d" % self.gen_count)

    def call(self, node, fr):
        w = fr.w
        f = node.func
        if isinstance(f, ast.Attribute):
            # self.other(args) / cls.other(args) / ClassName.other(args)
            if isinstance(f.value, ast.Name) and f.value.id not in fr.env and \
                    f.value.id in ("self", "cls", self.cls):
                if f.attr not in self.methods:
                    fail(w, "call of unknown method self.%s" % f.attr)
                return self.inline(f.attr, node, fr, via_class=(f.value.id != "self"))
            if f.attr in EVENT_ATTRS:
                base = self.ev(f.value, fr)
                if base not in (CONN, CURSOR):
                    fail(w, ".%s() on something that is not the connection or a cursor of it" % f.attr)
                if f.attr == "commit":
                    if base != CONN or node.args or node.keywords:
                        fail(w, "commit() shape not understood")
                    fr.out.append(("commit",))
                    return Const(None)
                if f.attr != "execute":
                    fail(w, "%s() is not supported" % f.attr)
                if not node.args or node.keywords or len(node.args) > 2 or \
                        any(isinstance(a, ast.Starred) for a in node.args):
                    fail(w, "execute() shape not understood")
                q = self.ev(node.args[0], fr)
                if not isinstance(q, Sql):
                    fail(w, "SQL text is not a string literal")
                sql = parse_sql(q.text, w)
                params = []
                if len(node.args) == 2:
                    p = self.ev(node.args[1], fr)
                    if isinstance(p, Tup):
                        params = p.items
                    elif sql["verb"] == "select":
                        params = None
                    else:
                        fail(w, "SQL parameters must be a tuple")
                fr.out.append(("sql", sql, params, w))
                return CURSOR
            base = self.ev(f.value, fr)
            args = [self.ev(a, fr) for a in node.args] + [self.ev(k.value, fr) for k in node.keywords]
            if base == CONN:
                if f.attr == "cursor" and not args:
                    return CURSOR
                fail(w, "call of .%s() on the connection is not understood" % f.attr)
            if base == CURSOR:
                if f.attr in CURSOR_READS:
                    for a in args:
                        self.escape_check(a, w, "passed to a cursor method")
                    return OPAQUE
                fail(w, "call of .%s() on a cursor is not understood" % f.attr)
            if base == SELF:
                fail(w, "call of unknown method self.%s" % f.attr)
            for a in args:
                self.escape_check(a, w, "passed to a call on another object")
            if isinstance(base, Val) and not args:
                return Val(base.root, base.chain + (f.attr,))
            return self.fresh_gen() if self.init_ctx else OPAQUE
        if not isinstance(f, ast.Name):
            self.escape_check(self.ev(f, fr), w, "called")
        for a in list(node.args) + [k.value for k in node.keywords]:
            self.escape_check(self.ev(a, fr), w, "passed to a function")
        return self.fresh_gen() if self.init_ctx else OPAQUE

    def inline(self, name, node, fr, via_class=False):
        w = fr.w
        kind = self.kinds[name]
        fdef = self.methods[name]
        a = fdef.args
        if kind is None or a.vararg or a.kwarg or a.kwonlyargs or a.posonlyargs:
            fail(w, "call of self.%s whose signature is not understood" % name)
        if via_class and kind == "instance":
            fail(w, "instance method %s called through the class" % name)
        if fr.depth > 6 or name in fr.stack:
            fail(w, "call nesting too deep or recursive (self.%s)" % name)
        params = [x.arg for x in a.args]
        if kind in ("instance", "class"):
            if not params:
                fail(w, "method %s has no receiver parameter" % name)
            params = params[1:]
        if any(isinstance(x, ast.Starred) for x in node.args) or any(k.arg is None for k in node.keywords):
            fail(w, "star arguments in self-call")
        if len(node.args) > len(params):
            fail(w, "argument count mismatch calling self.%s" % name)
        bound = {}
        for p, x in zip(params, node.args):          # left to right, events land in the caller's list
            bound[p] = self.ev(x, fr)
        for k in node.keywords:
            v = self.ev(k.value, fr)
            if k.arg not in params or k.arg in bound:
                fail(w, "keyword argument %s not understood calling self.%s" % (k.arg, name))
            bound[k.arg] = v
        defaults = dict(zip(params[len(params) - len(a.defaults):], a.defaults)) if a.defaults else {}
        for p in params:
            if p not in bound:
                if p not in defaults or self.has_events(defaults[p]):
                    fail(w, "argument count mismatch calling self.%s" % name)
                bound[p] = self.ev(defaults[p], Frame({}, []))
        inner = []
        f2 = Frame(bound, inner, fr.depth + 1, fr.in_loop, fr.stack + (name,))
        r = self.body(fdef.body, f2)
        if r is not None and r[0] == "raise":
            fail(w, "self.%s always raises" % name)
        # the `return` that ends the callee only ends the callee
        while inner and inner[-1][0] == "end":
            inner.pop()
        ret = r[1] if r is not None else Const(None)
        for i, e in enumerate(inner):
            if e[0] == "branch" and e[1] == "return":
                ret = OPAQUE      # the callee may have returned something else earlier
                if not any(is_effect(x) for x in inner[i + 1:]):
                    # leaving the callee early skips only reads: for the caller this is ordinary
                    # data-dependent code without writes
                    inner[i] = ("branch", False, e[2])
        fr.out.extend(inner)
        return ret

    # --- statements
    def body(self, stmts, fr):
        """-> None (fell through) | ("ret", value) | ("raise",); statements behind an unconditional
        return/raise are dead and not interpreted"""
        for st in stmts:
            r = self.stmt(st, fr)
            if r is not None:
                return r
        return None

    def invalidate(self, nodes, fr):
        """names assigned anywhere inside the statements `nodes` are unknown afterwards"""
        for n in assigned_names(nodes):
            fr.env[n] = OPAQUE

    def invalidate_target(self, target, fr):
        """names occurring in an assignment target are unknown afterwards"""
        for x in ast.walk(target):
            if isinstance(x, ast.Name) and isinstance(x.ctx, ast.Store):
                fr.env[x.id] = OPAQUE

    def bind(self, target, v, value_node, fr):
        w = fr.w
        if isinstance(target, ast.Name):
            if self.init_ctx and isinstance(v, Val) and v.root.startswith("gen:value") and not v.chain \
                    and isinstance(value_node, ast.Call):
                v = Val("gen:" + target.id)
            fr.env[target.id] = v
        elif isinstance(target, (ast.Tuple, ast.List)) and isinstance(v, Tup) and len(v.items) == len(target.elts) \
                and not any(isinstance(t, ast.Starred) for t in target.elts):
            for t, x in zip(target.elts, v.items):
                self.bind(t, x, None, fr)
        elif isinstance(target, ast.Attribute) and isinstance(target.value, ast.Name) and target.value.id == "self":
            if target.attr == conn_attr(self.cls):
                fail(w, "the connection attribute is reassigned")
            self.escape_check(v, w, "stored in an attribute")
        else:
            if self.has_events(target):
                fail(w, "database call inside an assignment target")
            self.escape_check(v, w, "stored in a container")
            self.invalidate_target(target, fr)

    def stmt(self, st, fr):
        w = fr.w = "%s line %d" % (self.where, getattr(st, "lineno", 0))
        out = fr.out
        if isinstance(st, ast.Expr) and isinstance(st.value, ast.Constant):
            return None
        if isinstance(st, ast.Assign):
            v = self.ev(st.value, fr)
            fr.w = w
            for t in st.targets:
                self.bind(t, v, st.value, fr)
            return None
        if isinstance(st, ast.AnnAssign):
            if st.value is not None:
                v = self.ev(st.value, fr)
                fr.w = w
                self.bind(st.target, v, st.value, fr)
            return None
        if isinstance(st, ast.AugAssign):
            self.escape_check(self.ev(st.value, fr), w, "used in an augmented assignment")
            if self.has_events(st.target):
                fail(w, "database call inside an assignment target")
            self.invalidate_target(st.target, fr)
            return None
        if isinstance(st, ast.Expr):
            self.ev(st.value, fr)
            return None
        if isinstance(st, ast.If):
            if is_py2_test(st.test):
                return self.body(st.orelse, fr)
            self.ev(st.test, fr)           # the test itself is evaluated unconditionally
            fr.w = w
            branches = st.body + st.orelse
            if not any(self.has_events(x) for x in branches):
                out.append(("branch", jump_kind(branches), w))
                self.invalidate(branches, fr)
                return None
            # database calls under a data-dependent condition: reads only
            for br in (st.body, st.orelse):
                tmp = []
                self.body(br, fr.fork(env=dict(fr.env), out=tmp))
                if any(is_effect(e) for e in tmp):
                    fail(w, "database write or commit under a condition")
                for e in tmp:
                    out.append(("branch", "return" if e[1] == "return" else "exit", e[2]) if e[0] == "end" else e)
            fr.w = w
            out.append(("branch", False, w))
            self.invalidate(branches, fr)
            return None
        if isinstance(st, ast.For):
            if not self.has_events(st):
                out.append(("branch", jump_kind([st]), w))
                self.invalidate([st], fr)
                return None
            if fr.in_loop or st.orelse or not isinstance(st.target, ast.Name):
                fail(w, "loop shape not understood")
            it = self.ev(st.iter, fr)
            if not (isinstance(it, Val) and not it.chain):
                fail(w, "loop must iterate over a parameter")
            env2 = dict(fr.env)
            env2[st.target.id] = Loop()
            inner = []
            r = self.body(st.body, fr.fork(env=env2, out=inner, in_loop=True))
            fr.w = w
            ws = [e for e in inner if e[0] == "sql" and e[1]["verb"] != "select"]
            if r is not None or len(ws) != 1 or any(e[0] in ("commit", "branch", "each", "end") for e in inner):
                fail(w, "loop body must be exactly one INSERT/UPDATE/DELETE")
            out.extend(e for e in inner if e[0] == "note")
            out.append(("each", it.root, ws[0][1], ws[0][2]))
            self.invalidate([st], fr)
            return None
        if isinstance(st, ast.Try):
            if st.orelse or st.finalbody and any(self.has_events(x) for x in st.finalbody):
                fail(w, "try/else/finally with database calls")
            inner = []
            r = self.body(st.body, fr.fork(out=inner))
            fr.w = w
            fallible = any(e[0] == "sql" and e[1]["verb"] == "insert" and not e[1]["orreplace"] for e in inner) \
                or any(e[0] == "each" and e[2]["verb"] == "insert" and not e[2]["orreplace"] for e in inner)
            for h in st.handlers:
                if self.has_events(h):
                    ok = (not fallible and isinstance(h.type, ast.Attribute) and h.type.attr == "IntegrityError")
                    if not ok:
                        fail(w, "exception handler with database calls that can be reached")
                    out.append(("note", "handler for IntegrityError at %s dropped: the guarded statements "
                                        "cannot raise it (no plain INSERT)" % w))
            out.extend(inner)
            self.invalidate(list(st.handlers) + list(st.finalbody), fr)
            return r
        if isinstance(st, ast.Return):
            v = Const(None)
            if st.value is not None:
                v = self.ev(st.value, fr)
                if fr.depth == 0:
                    self.escape_check(v, w, "returned to the caller of the store")
            out.append(("end", "return", w))
            return ("ret", v)
        if isinstance(st, ast.Raise):
            if self.has_events(st):
                fail(w, "database call inside raise")
            out.append(("end", "raise", w))
            return ("raise",)
        if isinstance(st, ast.Pass):
            return None
        if self.has_events(st):
            fail(w, "statement with database calls not understood: %s" % type(st).__name__)
        out.append(("branch", jump_kind([st]), w))
        self.invalidate([st], fr)
        return None


# ---------------------------------------------------------------- the initialisation guard
class GuardUnknown(Exception):
    pass


G_NONE, G_SOME, G_EMPTY = "none", "some", "empty"      # None | an object / non-NULL value | falsy, not None


class GuardEval(object):
    """Concrete evaluation of the guard of the identity store's guarded initialisation, once with
    the looked-up row ABSENT and once with it PRESENT.  Values: None, "something" (a row, a
    column of it -- assumed non-NULL --, an object built from it), an empty/zero value, True,
    False, cursors, SQL text.  Every SELECT met must look ONE constant key of a table up; the
    rows looked up are collected in `rows`.  Follows self-calls, early returns, `is None`,
    `is not None`, `not`, `and`/`or`, conditional expressions.  GuardUnknown = cannot analyse."""

    def __init__(self, cls, methods, tables, present, rows, where):
        self.cls, self.methods, self.tables, self.present, self.rows, self.where = \
            cls, methods, tables, present, rows, where
        self.trusted = []

    def truth(self, v):
        if v in (G_NONE, G_EMPTY) or v is False:
            return False
        if v == G_SOME or v is True:
            return True
        raise GuardUnknown("truth value of %r" % (v,))

    def select(self, text, nparams):
        sql = parse_sql(text, self.where)
        if sql["verb"] != "select":
            fail(self.where, "the initialisation guard executes something other than a SELECT")
        mm = re.fullmatch(r"(\w+) ?= ?(-?\d+)", sql["where"].strip())
        T = self.tables.get(sql["table"])
        if not mm or T is None or T["key"] != [mm.group(1)] or nparams:
            fail(self.where, "guard SELECT does not look one constant key up")
        self.rows.add((sql["table"], int(mm.group(2))))

    def call_method(self, name, args, depth):
        fdef = self.methods[name]
        kind = method_kind(fdef)
        a = fdef.args
        if kind is None or a.vararg or a.kwarg or a.kwonlyargs or a.posonlyargs or a.defaults or depth > 6:
            raise GuardUnknown("signature of %s" % name)
        params = [x.arg for x in a.args][(0 if kind == "static" else 1):]
        if len(params) != len(args):
            raise GuardUnknown("arguments of %s" % name)
        try:
            r = self.body(fdef.body, dict(zip(params, args)), depth + 1)
            return r[1] if r is not None else G_NONE
        except GuardUnknown:
            if is_private(name):
                raise
            # a public reader whose body is not analysed: as before, it is taken to return None
            # exactly when the single constant-key row it SELECTs is missing
            ev = []
            try:
                Interp(self.cls, self.methods, self.tables, self.where).body(
                    fdef.body, Frame({p: Val(p) for p in params}, ev))
            except Unrecognised:
                raise GuardUnknown("reader %s" % name)
            sel = [e for e in ev if e[0] == "sql"]
            if len(sel) != 1 or sel[0][1]["verb"] != "select" or any(is_effect(e) for e in ev) or args:
                fail(self.where, "guard method %s is not a single SELECT" % name)
            self.select("SELECT x FROM %s WHERE %s" % (sel[0][1]["table"], sel[0][1]["where"]), 0)
            self.trusted.append(name)
            return G_SOME if self.present else G_NONE

    def body(self, stmts, env, depth):
        for st in stmts:
            if isinstance(st, ast.Expr) and isinstance(st.value, ast.Constant) or isinstance(st, ast.Pass):
                continue
            if isinstance(st, ast.Assign) and len(st.targets) == 1:
                v = self.ev(st.value, env, depth)
                t = st.targets[0]
                if isinstance(t, ast.Name):
                    env[t.id] = v
                elif isinstance(t, ast.Tuple) and all(isinstance(x, ast.Name) for x in t.elts) and v == G_SOME:
                    for x in t.elts:
                        env[x.id] = G_SOME
                else:
                    raise GuardUnknown("assignment")
                continue
            if isinstance(st, ast.Expr):
                self.ev(st.value, env, depth)
                continue
            if isinstance(st, ast.If):
                if is_py2_test(st.test):
                    taken = st.orelse
                else:
                    taken = st.body if self.truth(self.ev(st.test, env, depth)) else st.orelse
                r = self.body(taken, env, depth)
                if r is not None:
                    return r
                continue
            if isinstance(st, ast.Return):
                return ("ret", G_NONE if st.value is None else self.ev(st.value, env, depth))
            raise GuardUnknown(type(st).__name__)
        return None

    def ev(self, node, env, depth):
        if isinstance(node, ast.Constant):
            v = node.value
            if v is None:
                return G_NONE
            if isinstance(v, bool):
                return v
            if isinstance(v, str):
                return ("sql", v)
            if isinstance(v, int):
                return G_SOME if v else G_EMPTY
            raise GuardUnknown("constant")
        if isinstance(node, ast.Name):
            if node.id not in env:
                raise GuardUnknown("name %s" % node.id)
            return env[node.id]
        if isinstance(node, ast.Attribute):
            if isinstance(node.value, ast.Name) and node.value.id == "self" and node.attr == conn_attr(self.cls):
                return "conn"
            if self.ev(node.value, env, depth) == G_SOME:
                return G_SOME
            raise GuardUnknown("attribute")
        if isinstance(node, ast.UnaryOp) and isinstance(node.op, ast.Not):
            return not self.truth(self.ev(node.operand, env, depth))
        if isinstance(node, ast.BoolOp):
            v = None
            for x in node.values:
                v = self.ev(x, env, depth)
                if self.truth(v) != isinstance(node.op, ast.And):
                    return v
            return v
        if isinstance(node, ast.IfExp):
            if is_py2_test(node.test):
                return self.ev(node.orelse, env, depth)
            return self.ev(node.body if self.truth(self.ev(node.test, env, depth)) else node.orelse, env, depth)
        if isinstance(node, ast.Compare):
            if len(node.ops) == 1 and isinstance(node.ops[0], (ast.Is, ast.IsNot)) and \
                    isinstance(node.comparators[0], ast.Constant) and node.comparators[0].value is None:
                v = self.ev(node.left, env, depth)
                if v not in (G_NONE, G_SOME, G_EMPTY, True, False):
                    raise GuardUnknown("is None on %r" % (v,))
                return (v == G_NONE) == isinstance(node.ops[0], ast.Is)
            raise GuardUnknown("comparison")
        if isinstance(node, ast.Subscript):
            if self.ev(node.value, env, depth) == G_SOME:
                return G_SOME
            raise GuardUnknown("subscript")
        if isinstance(node, ast.Tuple):
            for x in node.elts:
                self.ev(x, env, depth)
            return G_SOME
        if isinstance(node, ast.Call):
            f = node.func
            if node.keywords and not all(k.arg for k in node.keywords):
                raise GuardUnknown("call")
            if isinstance(f, ast.Attribute):
                if isinstance(f.value, ast.Name) and f.value.id in ("self", "cls", self.cls):
                    if f.attr not in self.methods or node.keywords:
                        raise GuardUnknown("call of self.%s" % f.attr)
                    return self.call_method(f.attr, [self.ev(a, env, depth) for a in node.args], depth)
                base = self.ev(f.value, env, depth)
                if base == "conn" and f.attr == "cursor" and not node.args:
                    return ["cur", None]
                if (base == "conn" or isinstance(base, list)) and f.attr == "execute" and not node.keywords:
                    if not (1 <= len(node.args) <= 2):
                        raise GuardUnknown("execute")
                    q = self.ev(node.args[0], env, depth)
                    if not (isinstance(q, tuple) and q[0] == "sql"):
                        raise GuardUnknown("SQL text")
                    np = 0
                    if len(node.args) == 2:
                        if not isinstance(node.args[1], ast.Tuple):
                            raise GuardUnknown("SQL parameters")
                        np = len(node.args[1].elts)
                    self.select(q[1], np)
                    cur = base if isinstance(base, list) else ["cur", None]
                    cur[1] = self.present
                    return cur
                if isinstance(base, list) and f.attr in ("fetchone", "fetchall") and not node.args:
                    if base[1] is None:
                        raise GuardUnknown("fetch before execute")
                    return G_SOME if base[1] else (G_NONE if f.attr == "fetchone" else G_EMPTY)
                if base == "conn" or isinstance(base, list) or f.attr in EVENT_ATTRS:
                    fail(self.where, "the initialisation guard calls .%s() on the connection or a cursor" % f.attr)
            elif not isinstance(f, ast.Name):
                raise GuardUnknown("call")
            # a constructor / pure function over values: yields an object
            for a in list(node.args) + [k.value for k in node.keywords]:
                v = self.ev(a, env, depth)
                if v == "conn" or isinstance(v, list):
                    raise GuardUnknown("connection passed on")
            return G_SOME
        raise GuardUnknown(type(node).__name__)


def analyse_guard(test, cls, methods, tables, w):
    """-> (table, key, notes): the guard is true exactly when that row is missing; else Unrecognised"""
    rows, res, trusted = set(), {}, []
    for present in (False, True):
        ge = GuardEval(cls, methods, tables, present, rows, w)
        try:
            res[present] = ge.truth(ge.ev(test, {}, 0))
        except GuardUnknown as e:
            fail(w, "initialisation guard not understood (%s)" % e)
        trusted += ge.trusted
    if len(rows) != 1:
        fail(w, "guard must test exactly one row")
    notes = ["guard reader %s.%s not analysed statement by statement: taken to return None exactly when the row "
             "it SELECTs is missing" % (cls, n) for n in sorted(set(trusted))]
    return res[False], res[True], list(rows)[0], notes


# ---------------------------------------------------------------- assembling programs
class ProgBuilder(object):
    def __init__(self, tables, tids):
        self.tables, self.tids = tables, tids

    def build(self, events, where):
        """events -> (template statements as python tuples, scalar arg descriptors, loop param, notes)"""
        writes = [e for e in events if e[0] in ("sql", "each") and (e[1] if e[0] == "sql" else e[2])["verb"] != "select"]
        commits = [e for e in events if e[0] == "commit"]
        notes = [e[1] for e in events if e[0] == "note"]
        if not writes and not commits:
            return [], [], None, notes
        # a method that writes must be straight-line up to its last write/commit: no early exit, no
        # conditional code that can jump before that point (what follows the last write or commit
        # cannot change what the call does to the database)
        effective = [e for e in events if e[0] != "note"]
        while effective and effective[-1][0] == "end":
            effective.pop()
        last = max(i for i, e in enumerate(effective) if is_effect(e))
        for e in effective[:last]:
            if e[0] == "end" or (e[0] == "branch" and e[1]):
                fail(where, "early exit in a method that writes (%s)" % (e[-1],))
        effective = effective[:last + 1]
        self.begin()
        prog = []
        for e in effective:
            if e[0] == "commit":
                prog.append(("commit",))
            elif e[0] == "sql":
                if e[1]["verb"] != "select":
                    prog.append(("s", self.statement(e[1], e[2], e[3])))
            elif e[0] == "each":
                if self.loop not in (None, e[1]):
                    fail(where, "two different loop parameters")
                self.loop = e[1]
                prog.append(("each", self.statement(e[2], e[3], where)))
        return prog, self.args, self.loop, notes

    def begin(self):
        """start a new method: no argument registered yet"""
        self.args, self.loop, self.loop_aff = [], None, None

    def vref(self, sym, affinity, where):
        if isinstance(sym, Const):
            return ("const", canon(sym.v, affinity))
        if isinstance(sym, Loop):
            if self.loop_aff not in (None, affinity):
                fail(where, "loop variable used with two affinities")
            self.loop_aff = affinity
            return ("loop",)
        if isinstance(sym, Val):
            for i, a in enumerate(self.args):
                if (a["root"], tuple(a["chain"])) == sym.key():
                    if a["affinity"] != affinity:
                        fail(where, "argument used with two different column affinities")
                    return ("arg", i)
            self.args.append({"root": sym.root, "chain": list(sym.chain), "affinity": affinity})
            return ("arg", len(self.args) - 1)
        fail(where, "SQL parameter is not a function of the method's parameters")

    def statement(self, sql, params, where):
        tname = sql["table"]
        if tname not in self.tables:
            fail(where, "unknown table %s" % tname)
        T = self.tables[tname]
        colaff = {c["name"]: c["affinity"] for c in T["cols"]}
        nonkey = [c["name"] for c in T["cols"] if not c["rowid"] and c["name"] not in T["key"]]
        it = iter(params)
        nq = sum(1 for _, v in sql["assign"] + sql["conds"] if v == "?")
        if nq != len(params):
            fail(where, "%d placeholders but %d parameters" % (nq, len(params)))

        def val(col, v):
            if col not in colaff:
                fail(where, "unknown column %s.%s" % (tname, col))
            if v == "?":
                return self.vref(next(it), colaff[col], where)
            return ("const", canon(int(v), colaff[col]))
        assign = [(c, val(c, v)) for c, v in sql["assign"]]
        conds = [(c, val(c, v)) for c, v in sql["conds"]]
        tid = self.tids[tname]
        if sql["verb"] == "insert":
            d = dict(assign)
            if len(d) != len(assign) or any(c == "_id" for c in d) or not all(k in d for k in T["key"]):
                fail(where, "INSERT must set every key column once")
            return ("insert", sql["orreplace"], tid, [d[k] for k in T["key"]],
                    [(nonkey.index(c), v) for c, v in assign if c not in T["key"]])
        d = dict(conds)
        if len(d) != len(conds) or not all(k in d for k in T["key"]):
            fail(where, "WHERE must fix every key column of %s (key %s)" % (tname, T["key"]))
        extra = [(nonkey.index(c), v) for c, v in conds if c not in T["key"]]
        if sql["verb"] == "delete":
            return ("delete", tid, [d[k] for k in T["key"]], extra)
        if extra:
            fail(where, "UPDATE with extra conditions")
        if any(c in T["key"] or c == "_id" for c, _ in assign):
            fail(where, "UPDATE of a key column")
        return ("update", tid, [d[k] for k in T["key"]], [(nonkey.index(c), v) for c, v in assign])


# ---------------------------------------------------------------- Coq printing
def coq_cell(b):
    return "[" + "; ".join(str(x) for x in b) + "]%N"


def coq_vref(v):
    if v[0] == "arg":
        return "VArg %d" % v[1]
    if v[0] == "loop":
        return "VLoop"
    return "VConst %s" % coq_cell(v[1])


def coq_pairs(l):
    return "[" + "; ".join("(%d%%nat, %s)" % (i, coq_vref(v)) for i, v in l) + "]"


def coq_sstmt(s):
    if s[0] == "insert":
        return "TInsert %s %d [%s] %s" % ("true" if s[1] else "false", s[2],
                                          "; ".join(coq_vref(v) for v in s[3]), coq_pairs(s[4]))
    if s[0] == "delete":
        return "TDelete %d [%s] %s" % (s[1], "; ".join(coq_vref(v) for v in s[2]), coq_pairs(s[3]))
    return "TUpdate %d [%s] %s" % (s[1], "; ".join(coq_vref(v) for v in s[2]), coq_pairs(s[3]))


def coq_prog(p):
    items = []
    for t in p:
        if t[0] == "commit":
            items.append("TCommit")
        elif t[0] == "s":
            items.append("TS (%s)" % coq_sstmt(t[1]))
        else:
            items.append("TEach (%s)" % coq_sstmt(t[1]))
    return "[" + ";\n     ".join(items) + "]"


# ---------------------------------------------------------------- driver
def _class_of(path):
    tree = ast.parse(open(path).read(), path)
    classes = [n for n in tree.body if isinstance(n, ast.ClassDef)]
    if len(classes) != 1:
        fail(path, "expected exactly one class")
    return classes[0]


def _is_docstring(st):
    return isinstance(st, ast.Expr) and isinstance(st.value, ast.Constant)


def translate(repo=None):
    """syntactic path only: source -> (Coq text, meta)"""
    return emit(analyse(repo))


def analyse(repo=None):
    """The syntactic interpreter: source -> model dict (see emit)."""
    repo = repo or REPO
    tables, classes = {}, {}
    CONN_ATTRS.clear()
    # pass 1: schemas and method tables
    for fn in STORE_FILES:
        path = os.path.join(repo, STORE_DIR, fn)
        if not os.path.exists(path):
            fail(fn, "file missing")
        cls = _class_of(path)
        methods = {n.name: n for n in cls.body if isinstance(n, ast.FunctionDef)}
        for n in cls.body:
            if not isinstance(n, (ast.FunctionDef, ast.Expr, ast.Pass)):
                fail(fn, "class-level statement not understood: %s" % type(n).__name__)
        if len(methods) != sum(1 for n in cls.body if isinstance(n, ast.FunctionDef)):
            fail(fn, "a method is defined twice")
        classes[cls.name] = (fn, methods)
    for f in state_outside_db(repo):
        fail("%s:%s" % (f["file"], f["class"]), describe_state(f))
    # the facade: which methods are the store's API
    facade = translate_facade(repo, classes)
    api = set((v["class"], v["method"]) for v in facade["methods"].values())

    def is_public(cname, mname):
        return (cname, mname) in api or not is_private(mname)

    init_info = None
    for cname, (fn, methods) in classes.items():
        init = methods.get("__init__")
        if init is None:
            fail(fn, "no __init__")
        ia = init.args
        if method_kind(init) != "instance" or len(ia.args) != 2 or ia.vararg or ia.kwarg or ia.kwonlyargs or ia.defaults:
            fail("%s:%s.__init__" % (fn, cname), "signature not understood")
        connp = ia.args[1].arg
        attrs = [t.attr for st in init.body if isinstance(st, ast.Assign) for t in st.targets
                 if isinstance(t, ast.Attribute) and isinstance(t.value, ast.Name) and t.value.id == "self"
                 and isinstance(st.value, ast.Name) and st.value.id == connp]
        if len(attrs) != 1:
            fail("%s:%s.__init__" % (fn, cname), "the connection must be kept in exactly one attribute")
        CONN_ATTRS[cname] = attrs[0]
        for idx, st in enumerate(init.body):
            w = "%s:%s.__init__ line %d" % (fn, cname, st.lineno)
            if _is_docstring(st):
                continue
            if isinstance(st, ast.Assign) and not has_events(st, cname):
                continue
            if isinstance(st, ast.Expr) and isinstance(st.value, ast.Call) and \
                    isinstance(st.value.func, ast.Attribute) and st.value.func.attr == "execute":
                c = st.value
                tgt = c.func.value
                ok = (isinstance(tgt, ast.Name) and tgt.id == connp) or \
                     (isinstance(tgt, ast.Attribute) and isinstance(tgt.value, ast.Name) and tgt.value.id == "self"
                      and tgt.attr == attrs[0])
                if not ok or len(c.args) != 1 or c.keywords or not isinstance(c.args[0], ast.Constant) \
                        or not isinstance(c.args[0].value, str):
                    fail(w, "DDL call shape not understood")
                parse_ddl(c.args[0].value, tables, w)
                continue
            if isinstance(st, ast.If) and init_info is None:
                early = (len(st.body) == 1 and isinstance(st.body[0], ast.Return) and st.body[0].value is None)
                init_info = (cname, fn, st, w, init.body[idx + 1:] if early else None)
                if early:
                    break       # `if <own row present>: return` -- the rest of __init__ is the initialisation
                continue
            fail(w, "__init__ statement not understood: %s" % type(st).__name__)
    for t in tables.values():
        if not t["key"]:
            fail("schema", "table %s has no UNIQUE key" % t["name"])
    names = [t for t in KNOWN_TABLES if t in tables] + sorted(t for t in tables if t not in KNOWN_TABLES)
    tids = {n: i for i, n in enumerate(names)}
    pb = ProgBuilder(tables, tids)
    # pass 2: programs.  Public methods must translate; private helpers are interpreted by inlining
    # at their call sites and are additionally listed as methods of their own only when they
    # translate standalone, write, AND are transactions of their own (end committed).
    meths, notes, skipped = [], [], []
    for cname in sorted(classes):
        fn, methods = classes[cname]
        for mname in sorted(methods):
            if mname == "__init__":
                continue
            where = "%s:%s.%s" % (fn, cname, mname)
            fdef = methods[mname]
            public = is_public(cname, mname)
            try:
                kind = method_kind(fdef)
                a = fdef.args
                if kind is None or a.vararg or a.kwarg or a.kwonlyargs or a.posonlyargs:
                    fail(where, "signature not understood")
                params = [x.arg for x in a.args]
                if kind != "static":
                    if not params:
                        fail(where, "signature not understood")
                    params = params[1:]
                env = {p: Val(p) for p in params}
                it = Interp(cname, methods, tables, where)
                events = []
                it.body(fdef.body, Frame(env, events))
                prog, args, loop, nts = pb.build(events, where)
            except Unrecognised as e:
                if public:
                    raise
                skipped.append({"class": cname, "name": mname, "reason": str(e)})
                continue
            if not public and not prog:
                continue        # a private reader / pure helper: nothing to state about it on its own
            if not public and prog[-1] != ("commit",):
                skipped.append({"class": cname, "name": mname,
                                "reason": "writes without committing: only meaningful inside its callers"})
                continue
            meths.append({"class": cname, "name": mname, "params": params, "prog": prog,
                          "args": args, "loop": loop, "public": public})
            notes += nts
    for s in skipped:
        notes.append("private helper %s.%s is not a method of the model on its own (%s); it is interpreted "
                     "where it is called" % (s["class"], s["name"], s["reason"]))
    # the guarded initialisation of the identity store
    if init_info is None:
        fail("liteidentitykeystore.py", "no guarded initialisation found in any __init__")
    cname, fn, ifst, w, rest = init_info
    fn_, methods = classes[cname]
    if ifst.orelse:
        fail(w, "else branch in the initialisation guard")
    when_missing, when_present, (gtable, gkey), gnotes = analyse_guard(ifst.test, cname, methods, tables, w)
    notes += gnotes
    pol = "the guard is %s when the own row is missing and %s when it is present" % (when_missing, when_present)
    if rest is not None:
        if (when_missing, when_present) != (False, True):
            fail(w, "early return from __init__ expected exactly when the own row is present, but " + pol)
        ibody = [st for st in rest if not _is_docstring(st)]
    else:
        if (when_missing, when_present) != (True, False):
            fail(w, "initialisation expected exactly when the own row is missing, but " + pol)
        ibody = ifst.body
    it = Interp(cname, methods, tables, "%s:%s.__init__" % (fn, cname), init_ctx=True)
    events = []
    it.body(ibody, Frame({}, events))
    iprog, iargs, iloop, nts = pb.build(events, w)
    notes += nts
    if iloop is not None or not iprog:
        fail(w, "initialisation program not understood")
    for a in iargs:
        if not a["root"].startswith("gen:"):
            fail(w, "initialisation stores a value that is not generated there")
    for m in meths:
        m["static"] = method_kind(classes[m["class"]][1][m["name"]]) == "static"
    return {"tables": tables, "names": names, "meths": meths, "skipped": skipped, "facade": facade, "notes": notes,
            "init": {"class": cname, "gtable": gtable, "gkey": gkey, "args": iargs, "prog": iprog},
            "header": "from %s/*.py" % STORE_DIR}


def emit(model):
    """model dict -> (text of coq/Gen/C13Programs.v, meta for the harness).  Shared by the syntactic and
    the measured path: model = tables (name -> cols/key), names (table order), meths (class, name, params,
    prog, args, loop, public, static), init (class, gtable, gkey, args, prog), facade, notes, skipped."""
    tables, names, meths, notes = model["tables"], model["names"], model["meths"], model["notes"]
    tids = {n: i for i, n in enumerate(names)}
    for i, m in enumerate(meths):
        m["id"] = i
    cname, gtable, gkey = model["init"]["class"], model["init"]["gtable"], model["init"]["gkey"]
    iargs, iprog = model["init"]["args"], model["init"]["prog"]
    gaff = [c["affinity"] for c in tables[gtable]["cols"] if c["name"] == tables[gtable]["key"][0]][0]
    meta = {"tables": [{"id": tids[n], "name": n, "key": tables[n]["key"],
                        "nonkey": [c["name"] for c in tables[n]["cols"] if not c["rowid"] and c["name"] not in tables[n]["key"]],
                        "affinity": {c["name"]: c["affinity"] for c in tables[n]["cols"]}} for n in names],
            "methods": [{k: m[k] for k in ("id", "class", "name", "params", "args", "loop", "public", "prog", "static")}
                        | {"writes": bool(m["prog"]), "loop_affinity": None} for m in meths],
            "init": {"class": cname, "guard_table": tids[gtable], "guard_key": gkey, "args": iargs, "prog": iprog},
            "skipped": model["skipped"],
            "facade": model["facade"], "notes": notes}
    # loop affinities
    for m, mm in zip(meths, meta["methods"]):
        if m["loop"] is not None:
            for t in m["prog"]:
                if t[0] == "each":
                    s = t[1]
                    T = [x for x in meta["tables"] if x["id"] == (s[2] if s[0] == "insert" else s[1])][0]
                    keyv = s[3] if s[0] == "insert" else s[2]
                    for kc, v in zip(T["key"], keyv):
                        if v == ("loop",):
                            mm["loop_affinity"] = T["affinity"][kc]
                    rest_ = s[4] if s[0] == "insert" else s[3]
                    for ci, v in rest_:
                        if v == ("loop",):
                            mm["loop_affinity"] = T["affinity"][T["nonkey"][ci]]
    # Coq text
    L = ["(* GENERATED by harness/translators/c13_store.py %s -- do not edit *)" % model["header"],
         "From YV Require Import Common.Tac C13.C13Model.", ""]
    for t in meta["tables"]:
        L.append("(* table %d = %s   key %s   other columns %s *)" % (t["id"], t["name"], t["key"], t["nonkey"]))
    L.append("Definition gen_width (t : N) : nat := nth (N.to_nat t) [%s]%%nat 0%%nat." %
             "; ".join(str(len(t["nonkey"])) for t in meta["tables"]))
    L.append("Definition gen_ntables : N := %d." % len(names))
    L.append("")
    for m in meths:
        L.append("(* method %d = %s.%s(%s)%s *)" % (m["id"], m["class"], m["name"], ", ".join(m["params"]),
                 "".join("   arg%d = %s%s" % (i, a["root"], "".join("." + c + "()" for c in a["chain"]))
                         for i, a in enumerate(m["args"]))))
        L.append("Definition gen_prog_%d : prog :=\n    %s." % (m["id"], coq_prog(m["prog"])))
    L.append("")
    L.append("(* guarded initialisation in %s.__init__ *)" % cname)
    L.append("Definition gen_init_prog : prog :=\n    %s." % coq_prog(iprog))
    L.append("")
    L.append("Definition gen_store : store_def :=\n  mkStore gen_width\n    [%s]\n    (%d%%N, [%s])\n    gen_init_prog." % (
        ";\n     ".join("(%d%%N, gen_prog_%d)" % (m["id"], m["id"]) for m in meths),
        tids[gtable], coq_cell(canon(gkey, gaff))))
    for n in notes:
        L.append("(* note: %s *)" % n.replace("*)", "* )"))
    return "\n".join(L) + "\n", meta


def translate_facade(repo, classes):
    path = os.path.join(repo, STORE_DIR, FACADE)
    cls = _class_of(path)
    attr_class, out = {}, {}
    seen_connect = seen_factory = False
    for n in cls.body:
        if not isinstance(n, ast.FunctionDef):
            continue
        if n.name == "__init__":
            for st in n.body:
                src = ast.unparse(st)
                if re.fullmatch(r"\w+ = sqlite3\.connect\(\w+(, check_same_thread=False)?\)", src):
                    seen_connect = True
                elif re.fullmatch(r"\w+\.text_factory = bytes", src):
                    seen_factory = True
                elif isinstance(st, ast.Assign) and isinstance(st.value, ast.Call) and \
                        isinstance(st.value.func, ast.Name) and st.value.func.id in classes:
                    t = st.targets[0]
                    if not (isinstance(t, ast.Attribute) and len(st.value.args) == 1):
                        fail(FACADE, "store construction not understood: %s" % src)
                    attr_class[t.attr] = st.value.func.id
                elif has_events(st) or (isinstance(st, ast.Assign) and "self._db" not in src):
                    fail(FACADE, "__init__ statement not understood: %s" % src)
            continue
        if n.name.startswith("__"):
            continue
        if len(n.body) != 1 or not isinstance(n.body[0], (ast.Return, ast.Expr)):
            fail(FACADE, "%s is not a plain delegation" % n.name)
        c = n.body[0].value
        params = [a.arg for a in n.args.args][1:]
        ok = (isinstance(c, ast.Call) and isinstance(c.func, ast.Attribute)
              and isinstance(c.func.value, ast.Attribute) and isinstance(c.func.value.value, ast.Name)
              and c.func.value.value.id == "self" and not c.keywords
              and [getattr(a, "id", None) for a in c.args] == params)
        if not ok:
            fail(FACADE, "%s is not a plain delegation" % n.name)
        out[n.name] = {"attr": c.func.value.attr, "method": c.func.attr}
    if not (seen_connect and seen_factory):
        fail(FACADE, "sqlite3.connect / text_factory = bytes not found in __init__")
    if sorted(attr_class.values()) != sorted(classes):
        fail(FACADE, "the facade does not construct exactly the five stores on one connection")
    for k, v in out.items():
        if v["attr"] not in attr_class:
            fail(FACADE, "%s delegates to unknown attribute %s" % (k, v["attr"]))
        v["class"] = attr_class[v["attr"]]
        if v["method"] not in classes[v["class"]][1]:
            fail(FACADE, "%s delegates to missing method %s.%s" % (k, v["class"], v["method"]))
    return {"methods": out, "attrs": attr_class}


# ---------------------------------------------------------------- state outside the database (source check)
MUTATORS = ("append", "add", "pop", "popitem", "update", "setdefault", "clear", "remove", "discard", "extend",
            "insert", "appendleft", "popleft", "__setitem__", "__delitem__", "sort", "reverse")
MEASURE_REPEAT_CAP = 1000      # largest recognised constant the measurement repeats calls for


def _self_attr(n):
    return isinstance(n, ast.Attribute) and isinstance(n.value, ast.Name) and n.value.id in ("self", "cls")


def _int_consts(nodes):
    out = set()
    for st in nodes:
        if isinstance(st, ast.Assign) and isinstance(st.value, ast.Constant) and type(st.value.value) is int:
            out.add(st.value.value)
    return out


def state_outside_db(repo=None):
    """Source check, independent of whether the interpreter understands the class otherwise.
    An instance attribute of a store class (any class in the store files, mixins included), other than the
    attribute(s) holding the connection, is STATE OUTSIDE THE DATABASE when it is written after construction --
    assigned / augmented / deleted outside __init__, or (whatever __init__ put there) changed through a subscript
    store / delete or a container-mutating method -- and read anywhere in the class (public methods, private
    helpers, comparisons, arguments of calls, augmented assignments).  Attributes only set in __init__ and never
    changed (configuration, a kept cursor) and write-only flags are not.
    -> [{"class", "file", "attr", "written": [(method, line)], "read_by": [...], "steers": [(method, line, test
    source)], "constants": [ints the class / module compares against]}]"""
    repo = repo or REPO
    findings = []
    for fn in STORE_FILES:
        path = os.path.join(repo, STORE_DIR, fn)
        try:
            tree = ast.parse(open(path).read(), path)
        except Exception:
            continue
        module_consts = _int_consts(tree.body)
        for cls in [n for n in ast.walk(tree) if isinstance(n, ast.ClassDef)]:
            methods = {n.name: n for n in cls.body if isinstance(n, ast.FunctionDef)}
            conn_attrs = set()
            init = methods.get("__init__")
            if init is not None and len(init.args.args) >= 2:
                params = set(a.arg for a in init.args.args[1:])
                for st in ast.walk(init):
                    if isinstance(st, ast.Assign) and isinstance(st.value, ast.Name) and st.value.id in params:
                        conn_attrs |= set(t.attr for t in st.targets if _self_attr(t))
            written, changed, read = {}, {}, {}
            for mname, fdef in methods.items():
                for n in ast.walk(fdef):
                    if _self_attr(n) and n.attr not in methods and n.attr not in conn_attrs:
                        if isinstance(n.ctx, (ast.Store, ast.Del)):
                            written.setdefault(n.attr, []).append((mname, n.lineno))
                            if mname != "__init__":
                                changed.setdefault(n.attr, []).append((mname, n.lineno))
                        else:
                            read.setdefault(n.attr, set()).add(mname)
                    if isinstance(n, ast.AugAssign) and _self_attr(n.target):       # x += 1 reads x as well
                        read.setdefault(n.target.attr, set()).add(mname)
                    if isinstance(n, ast.Subscript) and isinstance(n.ctx, (ast.Store, ast.Del)) and _self_attr(n.value):
                        changed.setdefault(n.value.attr, []).append((mname, n.lineno))
                    if isinstance(n, ast.Call) and isinstance(n.func, ast.Attribute) and n.func.attr in MUTATORS \
                            and _self_attr(n.func.value):
                        changed.setdefault(n.func.value.attr, []).append((mname, n.lineno))
            consts = set(module_consts) | _int_consts(cls.body)
            for fdef in methods.values():
                for n in ast.walk(fdef):
                    if isinstance(n, ast.Compare):
                        for x in [n.left] + list(n.comparators):
                            if isinstance(x, ast.Constant) and type(x.value) is int:
                                consts.add(x.value)
            for attr in sorted(a for a in changed if a in read and a not in conn_attrs and a not in methods):
                steers = []
                for mname, fdef in methods.items():
                    tainted, grew = set(), True
                    uses = lambda e: any((_self_attr(x) and x.attr == attr) or (isinstance(x, ast.Name) and x.id in tainted)
                                         for x in ast.walk(e))
                    while grew:                                   # locals computed from the attribute
                        grew = False
                        for st in ast.walk(fdef):
                            if isinstance(st, ast.Assign) and uses(st.value):
                                for t in st.targets:
                                    for x in ast.walk(t):
                                        if isinstance(x, ast.Name) and x.id not in tainted:
                                            tainted.add(x.id)
                                            grew = True
                    for st in ast.walk(fdef):
                        if isinstance(st, (ast.If, ast.While, ast.IfExp, ast.Assert)) and uses(st.test):
                            steers.append((mname, st.lineno, ast.unparse(st.test)[:80]))
                findings.append({"class": cls.name, "file": fn, "attr": attr,
                                 "written": sorted(set(written.get(attr, []) + changed[attr]), key=lambda x: x[1]),
                                 "read_by": sorted(read[attr]), "steers": steers,
                                 "constants": sorted(k for k in consts if k >= 2)})
    return findings


def recognised_constants(repo=None):
    """integer constants (>= 2) the store modules define at module / class level or compare against"""
    repo = repo or REPO
    out = set()
    for fn in STORE_FILES:
        try:
            tree = ast.parse(open(os.path.join(repo, STORE_DIR, fn)).read())
        except Exception:
            continue
        out |= _int_consts(tree.body)
        for cls in [n for n in ast.walk(tree) if isinstance(n, ast.ClassDef)]:
            out |= _int_consts(cls.body)
            for n in ast.walk(cls):
                if isinstance(n, ast.Compare):
                    for x in [n.left] + list(n.comparators):
                        if isinstance(x, ast.Constant) and type(x.value) is int:
                            out.add(x.value)
    return sorted(k for k in out if k >= 2)


def describe_state(f):
    s = "state outside the database: instance attribute self.%s of %s (written in %s; read by %s)" % (
        f["attr"], f["class"], ", ".join("%s line %d" % w for w in f["written"][:4]), ", ".join(f["read_by"]))
    if f["steers"]:
        s += "; it steers " + "; ".join("`%s` in %s line %d" % (t, m, l) for m, l, t in f["steers"][:3])
    if f["constants"]:
        s += "; integer constants the class compares against: %s" % ", ".join(map(str, f["constants"][:8]))
    return s


# ---------------------------------------------------------------- objects between the stores and sqlite (source check)
CONN_API = ("commit", "rollback", "execute", "executemany", "executescript", "cursor", "__enter__", "__exit__")


def interposed_objects(repo=None):
    """Source check over every module of the store package: anything that stands between the table stores and a plain
    sqlite3.Connection -- a class that defines part of the connection interface (wrapper or subclass), an assignment
    to such a method / to isolation_level / autocommit of some object (monkey patch, mode change), a connect() call
    with factory= / isolation_level= / autocommit=, methods of the facade that are not delegations but begin / commit
    / abort helpers.  -> [description]"""
    repo = repo or REPO
    out = []
    d = os.path.join(repo, STORE_DIR)
    try:
        files = sorted(f for f in os.listdir(d) if f.endswith(".py"))
    except OSError:
        return out
    store_classes = set()
    for fn in files:
        try:
            tree = ast.parse(open(os.path.join(d, fn)).read())
        except Exception:
            continue
        for n in ast.walk(tree):
            if isinstance(n, ast.ClassDef):
                defs = sorted(m.name for m in n.body if isinstance(m, ast.FunctionDef) and m.name in CONN_API)
                bases = [ast.unparse(b) for b in n.bases]
                if defs or any("Connection" in b and "sqlite3" in b for b in bases):
                    out.append("%s: class %s%s defines %s of the connection interface%s" % (
                        fn, n.name, "(%s)" % ", ".join(bases) if bases else "", ", ".join(defs) or "nothing",
                        " and forwards everything else (__getattr__)" if any(
                            isinstance(m, ast.FunctionDef) and m.name == "__getattr__" for m in n.body) else ""))
            elif isinstance(n, (ast.Assign, ast.AugAssign)):
                for t in (n.targets if isinstance(n, ast.Assign) else [n.target]):
                    if isinstance(t, ast.Attribute) and t.attr in CONN_API + ("isolation_level", "autocommit"):
                        out.append("%s line %d: %s is assigned (commit / execute intercepted or transaction mode changed)" % (
                            fn, n.lineno, ast.unparse(t)))
            elif isinstance(n, ast.Call) and isinstance(n.func, ast.Attribute) and n.func.attr == "connect":
                for k in n.keywords:
                    if k.arg in ("factory", "isolation_level", "autocommit"):
                        out.append("%s line %d: connect(%s=%s)" % (fn, n.lineno, k.arg, ast.unparse(k.value)[:40]))
    # helpers on the facade that steer transactions
    try:
        tree = ast.parse(open(os.path.join(d, FACADE)).read())
        for cls in [n for n in tree.body if isinstance(n, ast.ClassDef)]:
            if any(isinstance(m, ast.FunctionDef) and m.name in CONN_API for m in cls.body):
                continue            # reported above as a wrapper
            for m in cls.body:
                if isinstance(m, ast.FunctionDef) and not m.name.startswith("_") and \
                        re.search(r"(?i)batch|transaction|commit|rollback|abort|begin", m.name):
                    out.append("%s: %s.%s() is a transaction helper on the facade" % (FACADE, cls.name, m.name))
    except Exception:
        pass
    return out


# ---------------------------------------------------------------- the MEASURED path
class Inconclusive(Unrecognised):
    """the measurement of a method says nothing (the sentinels made it raise something unrelated)"""


def _sym(d):
    if d[0] == "arg":
        return Val(d[1], d[2])
    if d[0] == "loop":
        return Loop()
    if d[0] == "const":
        v = d[1]
        if isinstance(v, dict):
            v = bytes.fromhex(v["b"]) if "b" in v else v["s"]
        return Const(v)
    return None


def _norm_items(items):
    """drop commits that cannot be observed: nothing was written since the previous commit"""
    out, dirty = [], False
    for it in items:
        if it[0] == "commit":
            if dirty:
                out.append(it)
            dirty = False
        else:
            out.append(it)
            dirty = True
    return out


def _show(items):
    def one(it):
        if it[0] == "commit":
            return "COMMIT"
        s = it[1]
        return "%s t%d%s" % (s[0].upper(), s[2] if s[0] == "insert" else s[1], "" if len(it) < 3 or it[2] is None else "[%d]" % it[2])
    return "[" + ", ".join(one(i) for i in items) + "]"


def _run_items(pb, run, where, loopp=None, ddl_ok=False, gen=None):
    """one traced run -> (items, ending).  items: ("s", statement, loop index | None) | ("commit",);
    ending: "normal" | "integrity" (IntegrityError propagated from the last statement, a plain INSERT)
    | "handled" (an IntegrityError was raised by a statement and the method went on) | "other:<exception>"."""
    items, raised_idx, notes = [], [], []
    began = False
    for e in run["events"]:
        k = e[0]
        if k == "BEGIN":
            began = True
            continue
        if k == "COMMIT":
            items.append(("commit",))
            continue
        if k == "ROLLBACK":
            if raised_idx and raised_idx[-1] == len(items) - 1:
                notes.append("ROLLBACK after the raising statement at %s ignored (the model leaves the transaction "
                             "open; what was pending is lost either way)" % where)
                continue
            fail(where, "a ROLLBACK is issued (not in the model language)")
        if k in ("OTHER", "UNATTRIBUTED", "BADSQL"):
            fail(where, "%s: %s" % ({"OTHER": "unsupported database call", "UNATTRIBUTED": "statement run behind the "
                                     "tracer's back", "BADSQL": "dynamic SQL"}[k], e[1]))
        sql, descs, exc = e[1], e[2], e[3]
        verb = (sql.lstrip().split(None, 1) or [""])[0].upper()
        if ddl_ok and verb == "CREATE":
            continue
        if verb in ("PRAGMA",):
            continue
        p = parse_sql(sql, where)
        if p["verb"] == "select":
            if exc:
                return items, "other:%s" % exc, notes
            continue
        if gen:
            descs = [_gen_desc(d, gen) for d in descs]
        bad = [d for d in descs if d[0] == "bad"]
        if bad:
            fail(where, "a parameter of %r is %s" % (_norm(sql)[:50], bad[0][1]))
        idx = set(d[2] for d in descs if d[0] == "loop")
        if len(idx) > 1 or any(d[0] == "loop" and d[1] != loopp for d in descs):
            fail(where, "loop elements mixed in one statement")
        stmt = pb.statement(p, [_sym(d) for d in descs], where)
        items.append(("s", stmt, idx.pop() if idx else None))
        began = False
        if exc:
            if exc != "IntegrityError":
                return items, "other:%s" % exc, notes
            raised_idx.append(len(items) - 1)
    exc = run["exc"][0] if run["exc"] else None
    if began:
        raise Inconclusive("%s: a transaction was opened but the statement that opened it was not seen (the call "
                           "raised %s)" % (where, exc))
    if raised_idx:
        last_is_plain_insert = items[-1][0] == "s" and items[-1][1][0] == "insert" and not items[-1][1][1]
        if exc == "IntegrityError" and raised_idx == [len(items) - 1] and last_is_plain_insert:
            return items, "integrity", notes
        return items, "handled", notes
    return items, ("normal" if exc is None else "other:%s" % exc), notes


def _gen_desc(d, gen):
    """constructor runs: a bound constant that is one of the generated values read back through the API"""
    if d[0] == "const" and gen:
        v = d[1]
        if isinstance(v, int) and not isinstance(v, bool) and v == gen.get("regid"):
            return ["arg", "gen:registration_id", []]
        if isinstance(v, dict) and "b" in v:
            for chain, hx in gen.items():
                if chain != "regid" and hx == v["b"]:
                    return ["arg", "gen:identity", chain.split(".")]
    return d


def _strip(items):
    return [(i[0],) if i[0] == "commit" else (i[0], i[1], i[2]) for i in items]


def measured_method(pb, cname, mname, m):
    """-> (prog, args, loop parameter, notes) from the traced runs of one public method"""
    where = "measured:%s.%s" % (cname, mname)
    if m.get("special"):
        fail(where, "special method of a store class")
    if m["error"]:
        fail(where, m["error"])
    if not m["runs"]:
        fail(where, "not measured")
    pb.begin()
    notes = []
    parsed = []
    for r in m["runs"]:
        try:
            items, ending, nts = _run_items(pb, r, where, m["loop"])
        except Inconclusive:
            raise
        except Unrecognised as e:
            if r["variant"] == "R":
                fail(where, "state outside the database: after %d identical calls on the same object the call does "
                            "something the first call does not (%s); instance attribute(s) changed by those calls: %s"
                     % (r.get("n") or 1, str(e).split(": ", 1)[-1][:200],
                        ", ".join("self." + a for a in (r.get("state_changed") or [])) or "none seen"))
            raise
        parsed.append((r, _norm_items(_strip(items)), ending))
        notes += nts
    label = lambda r: "%s%s%s" % (r["variant"], "x%d" % r["n"] if r.get("n") else "", "" if r["k"] is None else "/%d elements" % r["k"])
    if all(not it for _, it, _ in parsed):
        return [], [], None, notes             # never writes, whatever it raises
    if m["loop"] is None:
        r0, full, end0 = parsed[0]
        if end0 != "normal":
            if end0.startswith("other:"):
                raise Inconclusive("%s: raised %s with sentinel arguments" % (where, end0[6:]))
            fail(where, "raises IntegrityError on an empty store")
        for r, it, ending in parsed[1:]:
            if ending == "handled":
                fail(where, "behaviour depends on the stored state beyond what the model language expresses: in "
                            "variant %s an IntegrityError is handled by further statements %s (variant A: %s)"
                     % (label(r), _show(it), _show(full)))
            if ending == "integrity":
                if it != full[:len(it)]:
                    fail(where, "statement sequence differs between state variants: A %s, %s %s" % (_show(full), label(r), _show(it)))
            elif it != full:
                if ending.startswith("other:") and it == full[:len(it)]:
                    raise Inconclusive("%s: raised %s in variant %s" % (where, ending[6:], label(r)))
                if r["variant"] == "R":
                    fail(where, "state outside the database: the same call after %d identical calls on the same object "
                                "gives %s, the first call %s; instance attribute(s) changed by those calls: %s"
                         % (r.get("n") or 1, _show(it), _show(full), ", ".join("self." + a for a in (r.get("state_changed") or [])) or "none seen"))
                fail(where, "behaviour depends on the stored state beyond what the model language expresses: "
                            "variant A %s, variant %s %s" % (_show(full), label(r), _show(it)))
        prog = [("commit",) if i[0] == "commit" else ("s", i[1]) for i in full]
        return prog, pb.args, None, notes
    # a list parameter: one write per element, everything else outside
    one = next((it for r, it, e in parsed if r["k"] == 1 and r["variant"] == "A" and e == "normal"), None)
    if one is None:
        raise Inconclusive("%s: the run with one list element did not end normally" % where)
    pos = [i for i, x in enumerate(one) if x[0] == "s" and x[2] is not None]
    if len(pos) != 1:
        fail(where, "a list element is used by %d statements (the model language has one write per element)" % len(pos))
    for r, it, ending in parsed:
        if ending != "normal":
            fail(where, "variant %s does not end normally (%s)" % (label(r), ending))
        want = one[:pos[0]] + [("s", one[pos[0]][1], i) for i in range(r["k"])] + one[pos[0] + 1:]
        if it != _norm_items(want) and r["variant"] == "R":
            fail(where, "state outside the database: the same call after %d identical calls on the same object gives "
                        "%s, the first call %s; instance attribute(s) changed by those calls: %s"
                 % (r.get("n") or 1, _show(it), _show(_norm_items(want)), ", ".join("self." + a for a in (r.get("state_changed") or [])) or "none seen"))
        if it != _norm_items(want):
            fail(where, "statement sequence is not 'one write per element, the rest outside the loop': variant %s "
                        "gives %s, expected %s" % (label(r), _show(it), _show(_norm_items(want))))
    prog = [("commit",) if x[0] == "commit" else (("each" if x[2] is not None else "s"), x[1]) for x in one]
    return prog, pb.args, m["loop"], notes


def measured_tables(obs):
    tables = {}
    for t in obs["schema"]:
        cols = [{"name": c["name"], "affinity": _affinity(c["decl"].split("(")[0].strip()), "rowid": bool(c["pk"]),
                 "unique": False} for c in t["cols"]]
        if sum(1 for c in cols if c["rowid"]) != 1:
            fail("measured schema", "expected exactly one rowid column in %s" % t["name"])
        if len(t["unique"]) != 1:
            fail("measured schema", "table %s has %d UNIQUE constraints" % (t["name"], len(t["unique"])))
        tables[t["name"]] = {"name": t["name"], "cols": cols, "key": list(t["unique"][0])}
    return tables


def measured_facade(obs):
    attrs = obs["facade"]["attrs"]
    out = {}
    for fname, rec in sorted(obs["facade"]["methods"].items()):
        w = "measured:%s.%s" % (obs["facade"]["class"], fname)
        if rec.get("error"):
            fail(w, rec["error"])
        if rec["exc"] or len(rec["calls"]) != 1 or rec["events"]:
            fail(w, "is not a plain delegation to one sub-store method (%d calls, exception %s, %d database events)"
                 % (len(rec["calls"]), rec["exc"], len(rec["events"])))
        attr, meth, args, kw = rec["calls"][0]
        if kw or args != [["arg", p, []] for p in rec["params"]]:
            fail(w, "does not hand exactly its own arguments on, in order")
        out[fname] = {"attr": attr, "method": meth, "class": attrs[attr]}
    return {"methods": out, "attrs": attrs}


def measured_init(pb, obs):
    """-> (class, prog, args, gtable, gkey, notes): the guarded initialisation as observed"""
    inits = []
    for cname, info in sorted(obs["classes"].items()):
        where = "measured:%s.__init__" % cname
        runs = {r["variant"]: r for r in info["init"]}
        for r in info["init"]:
            if r["exc"]:
                fail(where, "constructor raised %s (%s)" % (r["exc"][0], r["variant"]))
        pb.begin()
        per = {}
        for v in ("fresh", "again", "wiped", "fresh2"):
            items, ending, _ = _run_items(pb, runs[v], where, ddl_ok=True, gen=runs[v]["gen"])
            if ending != "normal":
                fail(where, "constructor run '%s' ends with %s" % (v, ending))
            per[v] = _norm_items(_strip(items))
        if not any(per.values()):
            continue
        if per["again"]:
            fail(where, "the constructor writes although what it initialises is already stored: %s" % _show(per["again"]))
        if not per["fresh"] or per["fresh"] != per["wiped"] or per["fresh"] != per["fresh2"]:
            fail(where, "the constructor's writes differ between a fresh database %s, a second one %s and an emptied "
                        "one %s (a stored value that is neither constant nor read back through the API?)"
                 % (_show(per["fresh"]), _show(per["fresh2"]), _show(per["wiped"])))
        inits.append((cname, [("commit",) if i[0] == "commit" else ("s", i[1]) for i in per["fresh"]], list(pb.args)))
    if len(inits) != 1:
        fail("measured", "%d store classes initialise data in their constructor (expected the identity store only)" % len(inits))
    cname, prog, args = inits[0]
    first = next((i[1] for i in prog if i[0] == "s"), None)
    if first is None or first[0] != "insert" or len(first[3]) != 1 or first[3][0][0] != "const":
        fail("measured:%s.__init__" % cname, "the initialisation does not start by inserting one row under a constant key")
    cell = first[3][0][1]
    if not re.fullmatch(rb"i-?\d+", cell):
        fail("measured:%s.__init__" % cname, "the own row's key is not an integer constant")
    for a in args:
        if not a["root"].startswith("gen:"):
            fail("measured:%s.__init__" % cname, "initialisation stores a value that is not generated there")
    tname = [n for n, i in pb.tids.items() if i == first[2]][0]
    return cname, prog, args, tname, int(cell[1:])


def build_measured(obs, reason):
    """observation of harness/c13_tracecheck.py -> model dict (see emit); Unrecognised when what was observed
    cannot be written in the model language"""
    build_conn_only(obs)
    tables = measured_tables(obs)
    for t in tables.values():
        if not t["key"]:
            fail("measured schema", "table %s has no UNIQUE key" % t["name"])
    names = [t for t in KNOWN_TABLES if t in tables] + sorted(t for t in tables if t not in KNOWN_TABLES)
    tids = {n: i for i, n in enumerate(names)}
    pb = ProgBuilder(tables, tids)
    facade = measured_facade(obs)
    if len(facade["attrs"]) != len(STORE_FILES):
        fail("measured facade", "the facade holds %d sub-stores, expected %d" % (len(facade["attrs"]), len(STORE_FILES)))
    api = set((v["class"], v["method"]) for v in facade["methods"].values())
    meths, notes = [], []
    for cname in sorted(obs["classes"]):
        for mname, m in sorted(obs["classes"][cname]["methods"].items()):
            if not (m["public"] or (cname, mname) in api):
                continue
            prog, args, loop, nts = measured_method(pb, cname, mname, m)
            notes += nts
            meths.append({"class": cname, "name": mname, "params": m["params"], "prog": prog, "args": list(args),
                          "loop": loop, "public": True, "static": m["static"]})
    for (cn, mn) in sorted(api):
        if not any(x["class"] == cn and x["name"] == mn for x in meths):
            fail("measured facade", "delegates to %s.%s, which was not measured" % (cn, mn))
    icls, iprog, iargs, gtable, gkey = measured_init(pb, obs)
    notes.append("MEASURED programs (source shape not recognised by the syntactic interpreter: %s): every public "
                 "method run on the real class over a tracing connection in the state variants absent / present / "
                 "conflicting (lists: 0, 1, 3 elements), constructors on fresh / initialised / emptied databases; "
                 "private helpers are not methods of their own" % reason)
    return {"tables": tables, "names": names, "meths": meths, "skipped": [], "facade": facade, "notes": notes,
            "init": {"class": icls, "gtable": gtable, "gkey": gkey, "args": iargs, "prog": iprog},
            "header": "MEASURED on the classes of %s (harness/c13_tracecheck.py)" % STORE_DIR}


def _canon_prog(prog):
    """program up to unobservable commits, as comparable nested lists"""
    items = _norm_items([("commit",) if t[0] == "commit" else (t[0], t[1]) for t in prog])
    return json.loads(json.dumps(items, default=lambda b: b.hex() if isinstance(b, bytes) else str(b)))


def compare_models(syn, obs):
    """Does the syntactic model reproduce everything that was measured?
    -> {"compared", "agree", "inconclusive": [...], "disagreements": [...]}"""
    rep = {"compared": 0, "agree": 0, "inconclusive": [], "disagreements": []}

    def check(what, f):
        rep["compared"] += 1
        try:
            d = f()
        except Inconclusive as e:
            rep["inconclusive"].append("%s: %s" % (what, e))
            return
        except Unrecognised as e:
            d = "measured: %s" % e
        if d:
            rep["disagreements"].append({"what": what, "detail": str(d)[:600]})
        else:
            rep["agree"] += 1
    tables = syn["tables"]
    tids = {n: i for i, n in enumerate(syn["names"])}

    def conn():
        try:
            build_conn_only(obs)
        except Unrecognised as e:
            return str(e)
    check("connection", conn)

    def schema():
        mt = measured_tables(obs)
        view = lambda T: {n: (t["key"], [(c["name"], c["affinity"], c["rowid"]) for c in t["cols"]]) for n, t in T.items()}
        if view(mt) != view(tables):
            return "schema read back from SQLite %s differs from the CREATE statements in the source %s" % (view(mt), view(tables))
    check("schema", schema)

    def facade():
        mf = measured_facade(obs)
        if mf != syn["facade"]:
            diff = [k for k in set(mf["methods"]) | set(syn["facade"]["methods"])
                    if mf["methods"].get(k) != syn["facade"]["methods"].get(k)]
            return "facade delegations differ: %s" % sorted(diff)[:6]
    check("facade", facade)
    pb = ProgBuilder(tables, tids)
    smeth = {(m["class"], m["name"]): m for m in syn["meths"]}
    seen = set()
    for cname in sorted(obs["classes"]):
        for mname, m in sorted(obs["classes"][cname]["methods"].items()):
            if not m["public"]:
                continue
            seen.add((cname, mname))

            def one(cname=cname, mname=mname, m=m):
                sm = smeth.get((cname, mname))
                if sm is None:
                    return "public method found on the class but not by the syntactic interpreter"
                prog, args, loop, _ = measured_method(pb, cname, mname, m)
                a = (_canon_prog(prog), [(x["root"], list(x["chain"]), x["affinity"]) for x in args], loop)
                b = (_canon_prog(sm["prog"]), [(x["root"], list(x["chain"]), x["affinity"]) for x in sm["args"]], sm["loop"])
                if a != b:
                    return "measured %s  vs  syntactic %s" % (a, b)
            check("%s.%s" % (cname, mname), one)
    for (cn, mn), sm in sorted(smeth.items()):
        if sm["public"] and (cn, mn) not in seen:
            rep["compared"] += 1
            rep["disagreements"].append({"what": "%s.%s" % (cn, mn), "detail": "translated from the source but not found on the class"})

    def init():
        icls, iprog, iargs, gtable, gkey = measured_init(pb, obs)
        si = syn["init"]
        a = (icls, _canon_prog(iprog), [x["affinity"] for x in iargs], gtable, gkey)
        b = (si["class"], _canon_prog(si["prog"]), [x["affinity"] for x in si["args"]], si["gtable"], si["gkey"])
        if a != b:
            return "measured %s  vs  syntactic %s" % (a, b)
    check("guarded initialisation", init)
    return rep


def layout_from_obs(obs):
    """What the implementation-side oracles need to drive the real store when NO program could be extracted:
    tables (for the dumps), facade delegations and the parameter order of the public methods -- all measured.
    meta["layout_only"] = True: there are no model arguments / programs in it."""
    tables = measured_tables(obs)
    names = [t for t in KNOWN_TABLES if t in tables] + sorted(t for t in tables if t not in KNOWN_TABLES)
    try:
        facade = measured_facade(obs)
    except Unrecognised:
        facade = {"methods": {}, "attrs": obs["facade"]["attrs"]}
    methods = [{"id": -1, "class": c, "name": n, "params": m["params"], "args": [], "loop": None, "loop_affinity": None,
                "public": True, "static": m["static"], "writes": None, "prog": []}
               for c in sorted(obs["classes"]) for n, m in sorted(obs["classes"][c]["methods"].items())
               if m["public"] and m["params"] is not None]
    return {"tables": _meta_tables(tables, names), "methods": methods, "init": {"class": None, "args": [], "prog": []},
            "facade": facade, "notes": [], "skipped": [], "layout_only": True}


def _meta_tables(tables, names):
    return [{"id": i, "name": n, "key": tables[n]["key"],
             "nonkey": [c["name"] for c in tables[n]["cols"] if not c["rowid"] and c["name"] not in tables[n]["key"]],
             "affinity": {c["name"]: c["affinity"] for c in tables[n]["cols"]}} for i, n in enumerate(names)]


def build_conn_only(obs):
    c = obs["conn"]
    if c.get("interposed"):
        fail("measured connection", "the connection is not a plain sqlite3.Connection / commit is intercepted: "
             + "; ".join(c["interposed"][:4]))
    if not c["text_factory_bytes"]:
        fail("measured connection", "text_factory is not bytes")
    if c["isolation_level"] not in ("", "DEFERRED") or c["autocommit"] != -1:
        fail("measured connection", "not in sqlite3's default implicit-transaction mode (isolation_level=%r, "
                                    "autocommit=%r)" % (c["isolation_level"], c["autocommit"]))
    if c["in_transaction_after_init"]:
        fail("measured connection", "constructing the stores leaves a transaction open")


FALLBACK_V = """(* GENERATED: the translator failed closed (%s) *)
From YV Require Import Common.Tac C13.C13Model.
Definition gen_width (t : N) : nat := 0%%nat.
Definition gen_ntables : N := 0.
Definition gen_init_prog : prog := [TS (TDelete 0 [] [])].
Definition gen_store : store_def := mkStore gen_width [] (0%%N, []) gen_init_prog.
"""


def extract(repo=None, scratch=None):
    """Both extractions and the decision which one the generated file comes from.
    -> (text, meta) with meta["extraction"] = {path, syntactic_error, measure_error, measured_error, compared,
    agree, inconclusive, disagreements}.  path is one of
       "syntactic+measured (agree)"            the syntactic model reproduces everything measured
       "syntactic+measured (DISAGREE)"         it does not: tie broken (the syntactic file is still written)
       "syntactic only (measurement unavailable: ...)"   tie broken
       "measured only (source shape not recognised: ...)"
    Unrecognised (with .extraction) when neither path yields a model."""
    from .. import c13_tracecheck as tc
    repo = repo or REPO
    ex = {"path": None, "syntactic_error": None, "measure_error": None, "measured_error": None, "compared": 0,
          "agree": 0, "inconclusive": [], "disagreements": []}
    syn = obs = None
    state = state_outside_db(repo)
    ex["state_outside_db"] = [describe_state(f) for f in state]
    consts = recognised_constants(repo)
    repeat = sorted(set([1, 2] + [n for k in consts if k <= MEASURE_REPEAT_CAP for n in (k - 1, k)]))
    ex["repeat_counts"] = repeat
    try:
        syn = analyse(repo)
    except Unrecognised as e:
        ex["syntactic_error"] = str(e)
    if state:
        syn = None
        ex["syntactic_error"] = "; ".join(ex["state_outside_db"])
    inter = interposed_objects(repo)
    ex["interposed"] = inter
    if inter:
        syn = None
        ex["syntactic_error"] = "the connection is not a plain sqlite3.Connection / commit is intercepted: " + "; ".join(inter[:6])
    own = None
    if scratch is None:
        import tempfile
        own = scratch = tempfile.mkdtemp(prefix="c13-measure-")
    try:
        obs = tc.measure(repo, scratch, repeat=repeat)
    except tc.MeasureError as e:
        ex["measure_error"] = str(e)
    finally:
        if own:
            import shutil
            shutil.rmtree(own, ignore_errors=True)
    if syn is not None:
        if obs is None:
            ex["path"] = "syntactic only (measurement unavailable: %s)" % ex["measure_error"][:300]
        else:
            rep = compare_models(syn, obs)
            ex.update(rep)
            ex["path"] = "syntactic+measured (agree)" if not rep["disagreements"] else "syntactic+measured (DISAGREE)"
        text, meta = emit(syn)
    else:
        err = None
        if obs is None:
            err = "syntactic: %s; measurement unavailable: %s" % (ex["syntactic_error"], ex["measure_error"])
        else:
            try:
                model = build_measured(obs, ex["syntactic_error"])
                if inter:
                    raise Unrecognised("not used: an object stands between the stores and sqlite, what a commit does is "
                                       "not what the measured variants show")
                if state:
                    # the source keeps state outside the database: whatever the (finitely many) measured variants
                    # show, the programs are not a function of the database alone
                    raise Unrecognised("not used: the class keeps state outside the database; the measured variants "
                                       "(same call repeated %s times on one object) show no difference" % repeat)
                text, meta = emit(model)
                ex["path"] = "measured only (source shape not recognised: %s)" % ex["syntactic_error"][:300]
            except Unrecognised as e:
                ex["measured_error"] = str(e)
                err = "syntactic: %s; measured: %s" % (ex["syntactic_error"], e)
        if err is not None:
            ex["path"] = "none (%s)" % err[:600]
            u = Unrecognised(err)
            u.extraction = ex
            u.state = state
            u.layout = None
            if obs is not None:
                try:
                    u.layout = layout_from_obs(obs)
                except Exception:
                    pass
            raise u
    meta["extraction"] = ex
    return text, meta


def regenerate(repo=None, scratch=None):
    """Rewrite coq/Gen/C13Programs.{v,json}; returns the meta dict (meta["extraction"] says which path produced
    it).  When neither the syntactic interpreter nor the measurement yields a model, a store definition that
    fails `store_ok` is written (so no theorem can be instantiated) and Unrecognised is re-raised."""
    os.makedirs(os.path.dirname(GEN_V), exist_ok=True)
    try:
        text, meta = extract(repo, scratch)
    except Unrecognised as e:
        _write(GEN_V, FALLBACK_V % str(e).replace("*)", "* )"))
        _write(GEN_JSON, json.dumps({"error": str(e)}))
        raise
    _write(GEN_V, text)
    _write(GEN_JSON, json.dumps(meta, indent=1, default=lambda b: b.hex() if isinstance(b, bytes) else str(b)))
    return meta


def _write(path, text):
    old = open(path).read() if os.path.exists(path) else None
    if old != text:
        with open(path, "w") as f:
            f.write(text)


if __name__ == "__main__":
    print(json.dumps(regenerate(), indent=1, default=str)[:3000])
