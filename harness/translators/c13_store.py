"""Fail-closed translator: yowsup/axolotl/store/sqlite/lite*.py  ->  coq/Gen/C13Programs.v

For every method of the five SQLite store classes it extracts the sequence of SQL statements
(classified by verb, table, key columns, extra WHERE conditions, assigned columns) and
commits the method executes, inlining `self.other(...)` calls, and writes them as the
`store_def` the theorems of coq/C13 are instantiated with.  SELECTs are dropped (they do not
change the database).  Anything it does not recognise raises Unrecognised: the check then
treats the tie as broken.  A JSON side file tells the harness how each model argument is
computed from the Python arguments (parameter + accessor chain + column affinity).
"""
import ast, os, re, json
from ..env import REPO, VERIF

GEN_V = os.path.join(VERIF, "coq", "Gen", "C13Programs.v")
GEN_JSON = os.path.join(VERIF, "coq", "Gen", "C13Programs.json")

STORE_DIR = "yowsup/axolotl/store/sqlite"
STORE_FILES = ["liteidentitykeystore.py", "liteprekeystore.py", "litesignedprekeystore.py",
               "litesessionstore.py", "litesenderkeystore.py"]
FACADE = "liteaxolotlstore.py"
KNOWN_TABLES = ["identities", "prekeys", "signed_prekeys", "sessions", "sender_keys"]
EVENT_ATTRS = ("execute", "executemany", "executescript", "commit", "rollback")


class Unrecognised(Exception):
    pass


def fail(where, what):
    raise Unrecognised("%s: %s" % (where, what))


# ---------------------------------------------------------------- canonical cells
def canon(value, affinity):
    """Canonical byte image of the value SQLite stores when `value` is bound to a column of
    the given affinity (and what the dump of that column gives back, text_factory=bytes)."""
    if value is None:
        return b"n"
    if isinstance(value, bool):
        value = int(value)
    if affinity in ("INTEGER", "NUMERIC"):
        if isinstance(value, int):
            return b"i%d" % value
        if isinstance(value, str):
            if re.fullmatch(r"-?(0|[1-9][0-9]*)", value):
                return b"i%d" % int(value)
            return b"b" + value.encode("utf-8")
        if isinstance(value, (bytes, bytearray)):
            return b"b" + bytes(value)
    elif affinity == "TEXT":
        if isinstance(value, int):
            return b"b" + str(value).encode()
        if isinstance(value, str):
            return b"b" + value.encode("utf-8")
        if isinstance(value, (bytes, bytearray)):
            return b"b" + bytes(value)
    else:  # BLOB / none
        if isinstance(value, int):
            return b"i%d" % value
        if isinstance(value, str):
            return b"b" + value.encode("utf-8")
        if isinstance(value, (bytes, bytearray)):
            return b"b" + bytes(value)
    raise ValueError("cannot canonicalise %r" % (value,))


def canon_out(value):
    """Canonical image of a value read back from SQLite (text_factory=bytes)."""
    if value is None:
        return b"n"
    if isinstance(value, int):
        return b"i%d" % value
    if isinstance(value, (bytes, bytearray)):
        return b"b" + bytes(value)
    if isinstance(value, str):
        return b"b" + value.encode("utf-8")
    return b"f" + repr(value).encode()


# ---------------------------------------------------------------- SQL
def _norm(sql):
    return re.sub(r"\s+", " ", sql.strip().rstrip(";").strip())


def _affinity(decl):
    d = decl.upper()
    if "INT" in d:
        return "INTEGER"
    if "CHAR" in d or "CLOB" in d or "TEXT" in d:
        return "TEXT"
    if "BLOB" in d or d == "":
        return "BLOB"
    if "REAL" in d or "FLOA" in d or "DOUB" in d:
        return "REAL"
    return "NUMERIC"


def parse_ddl(sql, tables, where):
    s = _norm(sql)
    m = re.fullmatch(r"CREATE TABLE IF NOT EXISTS (\w+) ?\((.*)\)", s, re.I)
    if m:
        name, cols = m.group(1), []
        if name in tables:
            fail(where, "table %s created twice" % name)
        for cd in m.group(2).split(","):
            parts = cd.strip().split()
            if not parts:
                fail(where, "empty column definition")
            cname, rest = parts[0], " ".join(parts[1:])
            up = rest.upper()
            typ = parts[1] if len(parts) > 1 else ""
            leftover = re.sub(r"PRIMARY KEY|AUTOINCREMENT|UNIQUE|NOT NULL", "", up).split()
            if leftover[1:] or (leftover and leftover[0] != typ.upper()):
                fail(where, "column constraint not understood: %r" % cd)
            cols.append({"name": cname, "affinity": _affinity(typ), "rowid": "PRIMARY KEY" in up,
                         "unique": "UNIQUE" in up and "PRIMARY KEY" not in up})
        if sum(1 for c in cols if c["rowid"]) != 1:
            fail(where, "expected exactly one rowid column in %s" % name)
        tables[name] = {"name": name, "cols": cols, "key": [c["name"] for c in cols if c["unique"]]}
        if len(tables[name]["key"]) > 1:
            fail(where, "several UNIQUE columns in %s" % name)
        return
    m = re.fullmatch(r"CREATE UNIQUE INDEX IF NOT EXISTS \w+ ON (\w+) ?\(([^)]*)\)", s, re.I)
    if m:
        name = m.group(1)
        if name not in tables:
            fail(where, "index on unknown table %s" % name)
        if tables[name]["key"]:
            fail(where, "second UNIQUE constraint on %s" % name)
        tables[name]["key"] = [c.strip() for c in m.group(2).split(",")]
        for c in tables[name]["key"]:
            if c not in [x["name"] for x in tables[name]["cols"]]:
                fail(where, "index on unknown column %s" % c)
        return
    fail(where, "DDL not understood: %r" % s)


def _conds(text, where):
    out = []
    for c in re.split(r"\s+AND\s+", text, flags=re.I):
        m = re.fullmatch(r"(\w+) ?= ?(\?|-?\d+)", c.strip())
        if not m:
            fail(where, "condition not understood: %r" % c)
        out.append((m.group(1), m.group(2)))
    return out


def parse_sql(sql, where):
    """-> dict(verb, table, key conds, ...) with placeholders numbered in textual order."""
    s = _norm(sql)
    m = re.fullmatch(r"INSERT( OR REPLACE)? INTO (\w+) ?\(([^)]*)\) ?VALUES ?\(([^)]*)\)", s, re.I)
    if m:
        cols = [c.strip() for c in m.group(3).split(",")]
        vals = [v.strip() for v in m.group(4).split(",")]
        if len(cols) != len(vals) or not all(re.fullmatch(r"\?|-?\d+", v) for v in vals):
            fail(where, "INSERT column/value lists not understood: %r" % s)
        return {"verb": "insert", "orreplace": bool(m.group(1)), "table": m.group(2),
                "assign": list(zip(cols, vals)), "conds": []}
    m = re.fullmatch(r"DELETE FROM (\w+) WHERE (.*)", s, re.I)
    if m:
        return {"verb": "delete", "table": m.group(1), "assign": [], "conds": _conds(m.group(2), where)}
    m = re.fullmatch(r"UPDATE (\w+) SET (.*?) WHERE (.*)", s, re.I)
    if m:
        assign = []
        for a in m.group(2).split(","):
            mm = re.fullmatch(r"(\w+) ?= ?(\?|-?\d+)", a.strip())
            if not mm:
                fail(where, "SET clause not understood: %r" % a)
            assign.append((mm.group(1), mm.group(2)))
        return {"verb": "update", "table": m.group(1), "assign": assign, "conds": _conds(m.group(3), where)}
    m = re.fullmatch(r"SELECT (.*?) FROM (\w+)( WHERE (.*))?", s, re.I)
    if m:
        return {"verb": "select", "table": m.group(2), "where": m.group(4) or "", "assign": [], "conds": []}
    fail(where, "SQL not understood: %r" % s)


# ---------------------------------------------------------------- symbolic values
class Val(object):
    """A value computed from a method parameter by a chain of zero-argument calls."""

    def __init__(self, root, chain=()):
        self.root, self.chain = root, tuple(chain)

    def key(self):
        return (self.root, self.chain)


class Const(object):
    def __init__(self, v):
        self.v = v


class Loop(object):
    pass


class Sql(object):
    def __init__(self, text):
        self.text = text


CURSOR, OPAQUE, CONN = "cursor", "opaque", "conn"


def is_py2_test(node):
    """sys.version_info < (2, 7)  -- always false on a supported interpreter"""
    return (isinstance(node, ast.Compare) and len(node.ops) == 1 and isinstance(node.ops[0], ast.Lt)
            and isinstance(node.left, ast.Attribute) and node.left.attr == "version_info"
            and isinstance(node.left.value, ast.Name) and node.left.value.id == "sys"
            and isinstance(node.comparators[0], ast.Tuple)
            and [getattr(e, "value", None) for e in node.comparators[0].elts] == [2, 7])


def has_events(node):
    for n in ast.walk(node):
        if isinstance(n, ast.Call) and isinstance(n.func, ast.Attribute):
            if n.func.attr in EVENT_ATTRS:
                return True
            if isinstance(n.func.value, ast.Name) and n.func.value.id == "self":
                return True
    return False


def has_jump(node):
    return any(isinstance(n, (ast.Return, ast.Raise, ast.Break, ast.Continue)) for n in ast.walk(node))


class MethodTranslator(object):
    def __init__(self, cls, methods, tables, where):
        self.cls, self.methods, self.tables, self.where = cls, methods, tables, where

    # --- expressions
    def ev(self, node, env):
        if isinstance(node, ast.Constant):
            if isinstance(node.value, str):
                return Sql(node.value)
            if isinstance(node.value, int) or node.value is None:
                return Const(node.value)
            return OPAQUE
        if isinstance(node, ast.UnaryOp) and isinstance(node.op, ast.USub) and \
                isinstance(node.operand, ast.Constant) and isinstance(node.operand.value, int):
            return Const(-node.operand.value)
        if isinstance(node, ast.Name):
            return env.get(node.id, OPAQUE)
        if isinstance(node, ast.IfExp) and is_py2_test(node.test):
            return self.ev(node.orelse, env)
        if isinstance(node, ast.Attribute) and isinstance(node.value, ast.Name) and \
                node.value.id == "self" and node.attr == "dbConn":
            return CONN
        if isinstance(node, ast.Call) and isinstance(node.func, ast.Attribute) and not node.keywords:
            base = self.ev(node.func.value, env)
            if base == CONN and node.func.attr == "cursor" and not node.args:
                return CURSOR
            if isinstance(base, Val) and not node.args:
                return Val(base.root, base.chain + (node.func.attr,))
        return OPAQUE

    # --- statements
    def body(self, stmts, env, out, depth, in_loop=False):
        for i, st in enumerate(stmts):
            self.stmt(st, env, out, depth, in_loop)

    def stmt(self, st, env, out, depth, in_loop):
        w = "%s line %d" % (self.where, getattr(st, "lineno", 0))
        if isinstance(st, ast.Expr) and isinstance(st.value, ast.Constant):
            return
        if isinstance(st, ast.Assign):
            if self.call_event(st.value, env, out, depth, w, in_loop):
                for t in st.targets:
                    for n in ast.walk(t):
                        if isinstance(n, ast.Name):
                            env[n.id] = OPAQUE
                return
            if has_events(st.value):
                fail(w, "database call inside an expression")
            v = self.ev(st.value, env)
            for t in st.targets:
                if isinstance(t, ast.Name):
                    env[t.id] = v
                elif isinstance(t, ast.Attribute) and isinstance(t.value, ast.Name) and t.value.id == "self":
                    pass
                else:
                    for n in ast.walk(t):
                        if isinstance(n, ast.Name):
                            env[n.id] = OPAQUE
            return
        if isinstance(st, ast.Expr):
            if self.call_event(st.value, env, out, depth, w, in_loop):
                return
            if has_events(st.value):
                fail(w, "database call inside an expression")
            return
        if isinstance(st, ast.If):
            if is_py2_test(st.test):
                self.body(st.orelse, env, out, depth, in_loop)
                return
            if has_events(st):
                fail(w, "database call under a condition")
            out.append(("branch", has_jump(st), w))
            for n in ast.walk(st):
                if isinstance(n, ast.Assign):
                    for t in n.targets:
                        for x in ast.walk(t):
                            if isinstance(x, ast.Name):
                                env[x.id] = OPAQUE
            return
        if isinstance(st, ast.For):
            if not has_events(st):
                out.append(("branch", has_jump(st), w))
                return
            if in_loop or st.orelse or not isinstance(st.target, ast.Name):
                fail(w, "loop shape not understood")
            it = self.ev(st.iter, env)
            if not (isinstance(it, Val) and not it.chain):
                fail(w, "loop must iterate over a parameter")
            env2 = dict(env)
            env2[st.target.id] = Loop()
            inner = []
            self.body(st.body, env2, inner, depth, in_loop=True)
            ws = [e for e in inner if e[0] == "sql"]
            if len(ws) != 1 or any(e[0] in ("commit", "branch") for e in inner):
                fail(w, "loop body must be exactly one INSERT/UPDATE/DELETE")
            out.append(("each", it.root, ws[0][1], ws[0][2]))
            return
        if isinstance(st, ast.Try):
            if st.orelse or st.finalbody and has_events(ast.Module(body=st.finalbody, type_ignores=[])):
                fail(w, "try/else/finally with database calls")
            inner = []
            self.body(st.body, env, inner, depth, in_loop)
            fallible = any(e[0] == "sql" and e[1]["verb"] == "insert" and not e[1]["orreplace"] for e in inner) \
                or any(e[0] == "each" and e[2]["verb"] == "insert" and not e[2]["orreplace"] for e in inner)
            for h in st.handlers:
                if has_events(h):
                    ok = (not fallible and isinstance(h.type, ast.Attribute) and h.type.attr == "IntegrityError")
                    if not ok:
                        fail(w, "exception handler with database calls that can be reached")
                    out.append(("note", "handler for IntegrityError at %s dropped: the guarded statements "
                                        "cannot raise it (no plain INSERT)" % w))
            out.extend(inner)
            return
        if isinstance(st, (ast.Return, ast.Raise)):
            if has_events(st):
                fail(w, "database call inside return/raise")
            out.append(("end", w))
            return
        if isinstance(st, ast.Pass):
            return
        if has_events(st):
            fail(w, "statement with database calls not understood: %s" % type(st).__name__)
        out.append(("branch", has_jump(st), w))

    def call_event(self, node, env, out, depth, w, in_loop):
        """node is the expression of an Expr/Assign; returns True if it was a database call or
        an inlined self-call and has been recorded."""
        if not (isinstance(node, ast.Call) and isinstance(node.func, ast.Attribute)):
            return False
        f = node.func
        # self.other(args)
        if isinstance(f.value, ast.Name) and f.value.id == "self":
            if f.attr not in self.methods:
                fail(w, "call of unknown method self.%s" % f.attr)
            if depth > 4:
                fail(w, "call nesting too deep")
            if node.keywords:
                fail(w, "keyword arguments in self-call")
            callee = self.methods[f.attr]
            params = [a.arg for a in callee.args.args][1:]
            if len(params) != len(node.args):
                fail(w, "argument count mismatch calling self.%s" % f.attr)
            env2 = {}
            for p, a in zip(params, node.args):
                if has_events(a):
                    fail(w, "database call in argument")
                env2[p] = self.ev(a, env)
            inner = []
            self.body(callee.body, env2, inner, depth + 1, in_loop)
            # a `return` at the end of the callee only ends the callee
            while inner and inner[-1][0] == "end":
                inner.pop()
            if any(e[0] == "end" for e in inner):
                inner.append(("branch", True, w))
            out.extend(inner)
            return True
        if f.attr not in EVENT_ATTRS:
            return False
        base = self.ev(f.value, env)
        if base not in (CONN, CURSOR):
            fail(w, ".%s() on something that is not the connection or a cursor of it" % f.attr)
        if f.attr == "commit":
            if base != CONN or node.args:
                fail(w, "commit() shape not understood")
            out.append(("commit",))
            return True
        if f.attr != "execute":
            fail(w, "%s() is not supported" % f.attr)
        if not node.args or node.keywords or len(node.args) > 2:
            fail(w, "execute() shape not understood")
        q = self.ev(node.args[0], env)
        if not isinstance(q, Sql):
            fail(w, "SQL text is not a string literal")
        sql = parse_sql(q.text, w)
        params = []
        if len(node.args) == 2:
            if not isinstance(node.args[1], ast.Tuple):
                fail(w, "SQL parameters must be a tuple")
            params = [self.ev(a, env) for a in node.args[1].elts]
        out.append(("sql", sql, params, w))
        return True


# ---------------------------------------------------------------- assembling programs
class ProgBuilder(object):
    def __init__(self, tables, tids):
        self.tables, self.tids = tables, tids

    def build(self, events, where):
        """events -> (template statements as python tuples, scalar arg descriptors, loop param, notes)"""
        writes = [e for e in events if e[0] in ("sql", "each") and (e[1] if e[0] == "sql" else e[2])["verb"] != "select"]
        commits = [e for e in events if e[0] == "commit"]
        notes = [e[1] for e in events if e[0] == "note"]
        if not writes and not commits:
            return [], [], None, notes
        # a method that writes must be straight-line: no early exit, no conditional code that jumps
        effective = [e for e in events if e[0] != "note"]
        while effective and effective[-1][0] == "end":
            effective.pop()
        for e in effective:
            if e[0] == "end" or (e[0] == "branch" and e[1]):
                fail(where, "early exit in a method that writes (%s)" % (e[-1],))
        self.args, self.loop, self.loop_aff = [], None, None
        prog = []
        for e in effective:
            if e[0] == "commit":
                prog.append(("commit",))
            elif e[0] == "sql":
                if e[1]["verb"] != "select":
                    prog.append(("s", self.statement(e[1], e[2], e[3])))
            elif e[0] == "each":
                if self.loop not in (None, e[1]):
                    fail(where, "two different loop parameters")
                self.loop = e[1]
                prog.append(("each", self.statement(e[2], e[3], where)))
        return prog, self.args, self.loop, notes

    def vref(self, sym, affinity, where):
        if isinstance(sym, Const):
            return ("const", canon(sym.v, affinity))
        if isinstance(sym, Loop):
            if self.loop_aff not in (None, affinity):
                fail(where, "loop variable used with two affinities")
            self.loop_aff = affinity
            return ("loop",)
        if isinstance(sym, Val):
            for i, a in enumerate(self.args):
                if (a["root"], tuple(a["chain"])) == sym.key():
                    if a["affinity"] != affinity:
                        fail(where, "argument used with two different column affinities")
                    return ("arg", i)
            self.args.append({"root": sym.root, "chain": list(sym.chain), "affinity": affinity})
            return ("arg", len(self.args) - 1)
        fail(where, "SQL parameter is not a function of the method's parameters")

    def statement(self, sql, params, where):
        tname = sql["table"]
        if tname not in self.tables:
            fail(where, "unknown table %s" % tname)
        T = self.tables[tname]
        colaff = {c["name"]: c["affinity"] for c in T["cols"]}
        nonkey = [c["name"] for c in T["cols"] if not c["rowid"] and c["name"] not in T["key"]]
        it = iter(params)
        nq = sum(1 for _, v in sql["assign"] + sql["conds"] if v == "?")
        if nq != len(params):
            fail(where, "%d placeholders but %d parameters" % (nq, len(params)))

        def val(col, v):
            if col not in colaff:
                fail(where, "unknown column %s.%s" % (tname, col))
            if v == "?":
                return self.vref(next(it), colaff[col], where)
            return ("const", canon(int(v), colaff[col]))
        assign = [(c, val(c, v)) for c, v in sql["assign"]]
        conds = [(c, val(c, v)) for c, v in sql["conds"]]
        tid = self.tids[tname]
        if sql["verb"] == "insert":
            d = dict(assign)
            if len(d) != len(assign) or any(c == "_id" for c in d) or not all(k in d for k in T["key"]):
                fail(where, "INSERT must set every key column once")
            return ("insert", sql["orreplace"], tid, [d[k] for k in T["key"]],
                    [(nonkey.index(c), v) for c, v in assign if c not in T["key"]])
        d = dict(conds)
        if len(d) != len(conds) or not all(k in d for k in T["key"]):
            fail(where, "WHERE must fix every key column of %s (key %s)" % (tname, T["key"]))
        extra = [(nonkey.index(c), v) for c, v in conds if c not in T["key"]]
        if sql["verb"] == "delete":
            return ("delete", tid, [d[k] for k in T["key"]], extra)
        if extra:
            fail(where, "UPDATE with extra conditions")
        if any(c in T["key"] or c == "_id" for c, _ in assign):
            fail(where, "UPDATE of a key column")
        return ("update", tid, [d[k] for k in T["key"]], [(nonkey.index(c), v) for c, v in assign])


# ---------------------------------------------------------------- Coq printing
def coq_cell(b):
    return "[" + "; ".join(str(x) for x in b) + "]%N"


def coq_vref(v):
    if v[0] == "arg":
        return "VArg %d" % v[1]
    if v[0] == "loop":
        return "VLoop"
    return "VConst %s" % coq_cell(v[1])


def coq_pairs(l):
    return "[" + "; ".join("(%d%%nat, %s)" % (i, coq_vref(v)) for i, v in l) + "]"


def coq_sstmt(s):
    if s[0] == "insert":
        return "TInsert %s %d [%s] %s" % ("true" if s[1] else "false", s[2],
                                          "; ".join(coq_vref(v) for v in s[3]), coq_pairs(s[4]))
    if s[0] == "delete":
        return "TDelete %d [%s] %s" % (s[1], "; ".join(coq_vref(v) for v in s[2]), coq_pairs(s[3]))
    return "TUpdate %d [%s] %s" % (s[1], "; ".join(coq_vref(v) for v in s[2]), coq_pairs(s[3]))


def coq_prog(p):
    items = []
    for t in p:
        if t[0] == "commit":
            items.append("TCommit")
        elif t[0] == "s":
            items.append("TS (%s)" % coq_sstmt(t[1]))
        else:
            items.append("TEach (%s)" % coq_sstmt(t[1]))
    return "[" + ";\n     ".join(items) + "]"


# ---------------------------------------------------------------- driver
def _class_of(path):
    tree = ast.parse(open(path).read(), path)
    classes = [n for n in tree.body if isinstance(n, ast.ClassDef)]
    if len(classes) != 1:
        fail(path, "expected exactly one class")
    return classes[0]


def translate(repo=None):
    repo = repo or REPO
    tables, classes = {}, {}
    # pass 1: schemas and method tables
    for fn in STORE_FILES:
        path = os.path.join(repo, STORE_DIR, fn)
        if not os.path.exists(path):
            fail(fn, "file missing")
        cls = _class_of(path)
        methods = {n.name: n for n in cls.body if isinstance(n, ast.FunctionDef)}
        for n in cls.body:
            if not isinstance(n, (ast.FunctionDef, ast.Expr, ast.Pass)):
                fail(fn, "class-level statement not understood: %s" % type(n).__name__)
        classes[cls.name] = (fn, methods)
    init_info = None
    for cname, (fn, methods) in classes.items():
        init = methods.get("__init__")
        if init is None:
            fail(fn, "no __init__")
        for st in init.body:
            w = "%s:%s.__init__ line %d" % (fn, cname, st.lineno)
            if isinstance(st, ast.Expr) and isinstance(st.value, ast.Constant):
                continue
            if isinstance(st, ast.Assign) and not has_events(st):
                continue
            if isinstance(st, ast.Expr) and isinstance(st.value, ast.Call) and \
                    isinstance(st.value.func, ast.Attribute) and st.value.func.attr == "execute":
                c = st.value
                tgt = c.func.value
                ok = (isinstance(tgt, ast.Name) and tgt.id == init.args.args[1].arg) or \
                     (isinstance(tgt, ast.Attribute) and tgt.attr == "dbConn")
                if not ok or len(c.args) != 1 or not isinstance(c.args[0], ast.Constant):
                    fail(w, "DDL call shape not understood")
                parse_ddl(c.args[0].value, tables, w)
                continue
            if isinstance(st, ast.If) and init_info is None:
                init_info = (cname, fn, st, w)
                continue
            fail(w, "__init__ statement not understood: %s" % type(st).__name__)
    for t in tables.values():
        if not t["key"]:
            fail("schema", "table %s has no UNIQUE key" % t["name"])
    names = [t for t in KNOWN_TABLES if t in tables] + sorted(t for t in tables if t not in KNOWN_TABLES)
    tids = {n: i for i, n in enumerate(names)}
    pb = ProgBuilder(tables, tids)
    # pass 2: programs
    meths, notes = [], []
    for cname in sorted(classes):
        fn, methods = classes[cname]
        for mname in sorted(methods):
            if mname == "__init__":
                continue
            where = "%s:%s.%s" % (fn, cname, mname)
            fdef = methods[mname]
            if fdef.args.vararg or fdef.args.kwarg or fdef.args.kwonlyargs or fdef.decorator_list:
                fail(where, "signature not understood")
            params = [a.arg for a in fdef.args.args][1:]
            env = {p: Val(p) for p in params}
            mt = MethodTranslator(cname, methods, tables, where)
            events = []
            mt.body(fdef.body, env, events, 0)
            prog, args, loop, nts = pb.build(events, where)
            selects = [e[1] for e in events if e[0] == "sql" and e[1]["verb"] == "select"]
            meths.append({"id": len(meths), "class": cname, "name": mname, "params": params, "prog": prog,
                          "args": args, "loop": loop, "selects": selects})
            notes += nts
    # the guarded initialisation of the identity store
    if init_info is None:
        fail("liteidentitykeystore.py", "no guarded initialisation found in any __init__")
    cname, fn, ifst, w = init_info
    fn_, methods = classes[cname]
    if ifst.orelse:
        fail(w, "else branch in the initialisation guard")
    guard_keys = set()
    for n in ast.walk(ifst.test):
        if isinstance(n, ast.Call):
            if not (isinstance(n.func, ast.Attribute) and isinstance(n.func.value, ast.Name)
                    and n.func.value.id == "self" and not n.args):
                fail(w, "guard calls something other than a reader of this store")
            m = [x for x in meths if x["class"] == cname and x["name"] == n.func.attr]
            if not m or m[0]["prog"] or len(m[0]["selects"]) != 1:
                fail(w, "guard method is not a single SELECT")
            s = m[0]["selects"][0]
            mm = re.fullmatch(r"(\w+) ?= ?(-?\d+)", s["where"].strip())
            T = tables[s["table"]]
            if not mm or T["key"] != [mm.group(1)]:
                fail(w, "guard SELECT does not look one constant key up")
            guard_keys.add((s["table"], int(mm.group(2))))
        elif isinstance(n, ast.Compare):
            if not (len(n.ops) == 1 and isinstance(n.ops[0], ast.Is) and
                    isinstance(n.comparators[0], ast.Constant) and n.comparators[0].value is None):
                fail(w, "guard is not an `is None` test")
        elif not isinstance(n, (ast.BoolOp, ast.Or, ast.Attribute, ast.Name, ast.Constant, ast.Load, ast.Is)):
            fail(w, "guard expression not understood: %s" % type(n).__name__)
    if len(guard_keys) != 1:
        fail(w, "guard must test exactly one row")
    gtable, gkey = list(guard_keys)[0]
    env = {}
    calls = []
    for st in ifst.body:
        if isinstance(st, ast.Assign) and len(st.targets) == 1 and isinstance(st.targets[0], ast.Name) \
                and not has_events(st.value):
            env[st.targets[0].id] = Val("gen:" + st.targets[0].id)
        elif isinstance(st, ast.Expr) and isinstance(st.value, ast.Call) and has_events(st.value):
            calls.append(st)
        else:
            fail(w, "initialisation body not understood")
    if len(calls) != 1:
        fail(w, "initialisation must make exactly one store call")
    mt = MethodTranslator(cname, methods, tables, w)
    events = []
    mt.stmt(calls[0], env, events, 0, False)
    iprog, iargs, iloop, nts = pb.build(events, w)
    notes += nts
    if iloop is not None or not iprog:
        fail(w, "initialisation program not understood")
    gaff = [c["affinity"] for c in tables[gtable]["cols"] if c["name"] == tables[gtable]["key"][0]][0]
    # the facade
    facade = translate_facade(repo, classes)
    meta = {"tables": [{"id": tids[n], "name": n, "key": tables[n]["key"],
                        "nonkey": [c["name"] for c in tables[n]["cols"] if not c["rowid"] and c["name"] not in tables[n]["key"]],
                        "affinity": {c["name"]: c["affinity"] for c in tables[n]["cols"]}} for n in names],
            "methods": [{k: m[k] for k in ("id", "class", "name", "params", "args", "loop")}
                        | {"writes": bool(m["prog"]),
                           "loop_affinity": None} for m in meths],
            "init": {"class": cname, "guard_table": tids[gtable], "guard_key": gkey, "args": iargs},
            "facade": facade, "notes": notes}
    # loop affinities
    for m, mm in zip(meths, meta["methods"]):
        if m["loop"] is not None:
            for t in m["prog"]:
                if t[0] == "each":
                    s = t[1]
                    T = [x for x in meta["tables"] if x["id"] == (s[2] if s[0] == "insert" else s[1])][0]
                    keyv = s[3] if s[0] == "insert" else s[2]
                    for kc, v in zip(T["key"], keyv):
                        if v == ("loop",):
                            mm["loop_affinity"] = T["affinity"][kc]
                    rest = s[4] if s[0] == "insert" else s[3]
                    for ci, v in rest:
                        if v == ("loop",):
                            mm["loop_affinity"] = T["affinity"][T["nonkey"][ci]]
    # Coq text
    L = ["(* GENERATED by harness/translators/c13_store.py from %s/*.py -- do not edit *)" % STORE_DIR,
         "From YV Require Import Common.Tac C13.C13Model.", ""]
    for t in meta["tables"]:
        L.append("(* table %d = %s   key %s   other columns %s *)" % (t["id"], t["name"], t["key"], t["nonkey"]))
    L.append("Definition gen_width (t : N) : nat := nth (N.to_nat t) [%s]%%nat 0%%nat." %
             "; ".join(str(len(t["nonkey"])) for t in meta["tables"]))
    L.append("Definition gen_ntables : N := %d." % len(names))
    L.append("")
    for m in meths:
        L.append("(* method %d = %s.%s(%s)%s *)" % (m["id"], m["class"], m["name"], ", ".join(m["params"]),
                 "".join("   arg%d = %s%s" % (i, a["root"], "".join("." + c + "()" for c in a["chain"]))
                         for i, a in enumerate(m["args"]))))
        L.append("Definition gen_prog_%d : prog :=\n    %s." % (m["id"], coq_prog(m["prog"])))
    L.append("")
    L.append("(* guarded initialisation in %s.__init__ *)" % cname)
    L.append("Definition gen_init_prog : prog :=\n    %s." % coq_prog(iprog))
    L.append("")
    L.append("Definition gen_store : store_def :=\n  mkStore gen_width\n    [%s]\n    (%d%%N, [%s])\n    gen_init_prog." % (
        ";\n     ".join("(%d%%N, gen_prog_%d)" % (m["id"], m["id"]) for m in meths),
        tids[gtable], coq_cell(canon(gkey, gaff))))
    for n in notes:
        L.append("(* note: %s *)" % n)
    return "\n".join(L) + "\n", meta


def translate_facade(repo, classes):
    path = os.path.join(repo, STORE_DIR, FACADE)
    cls = _class_of(path)
    attr_class, out = {}, {}
    seen_connect = seen_factory = False
    for n in cls.body:
        if not isinstance(n, ast.FunctionDef):
            continue
        if n.name == "__init__":
            for st in n.body:
                src = ast.unparse(st)
                if re.fullmatch(r"\w+ = sqlite3\.connect\(\w+(, check_same_thread=False)?\)", src):
                    seen_connect = True
                elif re.fullmatch(r"\w+\.text_factory = bytes", src):
                    seen_factory = True
                elif isinstance(st, ast.Assign) and isinstance(st.value, ast.Call) and \
                        isinstance(st.value.func, ast.Name) and st.value.func.id in classes:
                    t = st.targets[0]
                    if not (isinstance(t, ast.Attribute) and len(st.value.args) == 1):
                        fail(FACADE, "store construction not understood: %s" % src)
                    attr_class[t.attr] = st.value.func.id
                elif has_events(st) or (isinstance(st, ast.Assign) and "self._db" not in src):
                    fail(FACADE, "__init__ statement not understood: %s" % src)
            continue
        if n.name.startswith("__"):
            continue
        if len(n.body) != 1 or not isinstance(n.body[0], (ast.Return, ast.Expr)):
            fail(FACADE, "%s is not a plain delegation" % n.name)
        c = n.body[0].value
        params = [a.arg for a in n.args.args][1:]
        ok = (isinstance(c, ast.Call) and isinstance(c.func, ast.Attribute)
              and isinstance(c.func.value, ast.Attribute) and isinstance(c.func.value.value, ast.Name)
              and c.func.value.value.id == "self" and not c.keywords
              and [getattr(a, "id", None) for a in c.args] == params)
        if not ok:
            fail(FACADE, "%s is not a plain delegation" % n.name)
        out[n.name] = {"attr": c.func.value.attr, "method": c.func.attr}
    if not (seen_connect and seen_factory):
        fail(FACADE, "sqlite3.connect / text_factory = bytes not found in __init__")
    if sorted(attr_class.values()) != sorted(classes):
        fail(FACADE, "the facade does not construct exactly the five stores on one connection")
    for k, v in out.items():
        if v["attr"] not in attr_class:
            fail(FACADE, "%s delegates to unknown attribute %s" % (k, v["attr"]))
        v["class"] = attr_class[v["attr"]]
        if v["method"] not in classes[v["class"]][1]:
            fail(FACADE, "%s delegates to missing method %s.%s" % (k, v["class"], v["method"]))
    return {"methods": out, "attrs": attr_class}


FALLBACK_V = """(* GENERATED: the translator failed closed (%s) *)
From YV Require Import Common.Tac C13.C13Model.
Definition gen_width (t : N) : nat := 0%%nat.
Definition gen_ntables : N := 0.
Definition gen_init_prog : prog := [TS (TDelete 0 [] [])].
Definition gen_store : store_def := mkStore gen_width [] (0%%N, []) gen_init_prog.
"""


def regenerate(repo=None):
    """Rewrite coq/Gen/C13Programs.{v,json}; returns the meta dict.  On unrecognised source a
    store definition that fails `store_ok` is written (so no theorem can be instantiated) and
    Unrecognised is re-raised."""
    os.makedirs(os.path.dirname(GEN_V), exist_ok=True)
    try:
        text, meta = translate(repo)
    except Unrecognised as e:
        _write(GEN_V, FALLBACK_V % str(e).replace("*)", "* )"))
        _write(GEN_JSON, json.dumps({"error": str(e)}))
        raise
    _write(GEN_V, text)
    _write(GEN_JSON, json.dumps(meta, indent=1, default=lambda b: b.hex() if isinstance(b, bytes) else str(b)))
    return meta


def _write(path, text):
    old = open(path).read() if os.path.exists(path) else None
    if old != text:
        with open(path, "w") as f:
            f.write(text)


if __name__ == "__main__":
    print(json.dumps(regenerate(), indent=1, default=str)[:3000])
