"""Fail-closed translator: the default-layer helpers of yowsup/stacks/yowstack.py and the tuple
constants of yowsup/stacks/__init__.py  ->  coq/Gen/C18Layers.v.

The four static helpers (getCoreLayers, getProtocolLayers, getDefaultLayers, getDefaultStack)
are written in a tiny fragment of Python: tuple literals of layer classes, `+`, `+=`, `[::-1]`,
`if <name>:`, calls to each other with positional/keyword *names*, `YowParallelLayer(<tuple>)`
and `return YowStack(<tuple>, reversed = <bool>)`.  That fragment is transcribed node by node
into the deep embedding of coq/C18/C18Model.v (texp / telem / stmt / fundef); its meaning is
given there by an interpreter, and the theorems of coq/C18/C18ProofsDefaults.v are re-checked
against the regenerated file on every run.  Anything outside the fragment raises
TranslateError.

Robustness (design_notes/C18.md, "Translator robustness"): the helpers are total functions of a
finite input space, so next to the syntactic transcription the real helpers are EVALUATED on the
whole space in a fresh interpreter (harness/translators/stack_eval.py: every value is the first
call of a process; later calls are compared with it).
  * source shape recognised: the transcription is interpreted in Python (`_PyModel`, the same
    semantics as the Coq interpreter) and must agree with the evaluated table on every
    selection; the Gen file is the transcription, byte for byte as before;
  * source shape not recognised: the Gen file is generated from the evaluated table (decision
    trees over the flags whose leaves are the returned values);
  * neither works (import error, a helper raising, a non-class entry, an unexpected parameter):
    a stub (no functions) is written so that the rest of the model still builds while every
    theorem about the helpers fails (tie broken).
"""
import ast, os, fcntl
from ..env import VERIF, REPO
from . import stack_eval

OUT = os.path.join(VERIF, "coq", "Gen", "C18Layers.v")
HELPERS = ["getCoreLayers", "getProtocolLayers", "getDefaultLayers", "getDefaultStack"]

# names the hand-written Coq files refer to (must exist in the source; also emitted by the stub)
REQ_CLASSES = ["YowNetworkLayer", "YowNoiseSegmentsLayer", "YowNoiseLayer", "YowCoderLayer",
               "YowLoggerLayer", "AxolotlControlLayer", "AxolotlSendLayer", "AxolotlReceivelayer",
               "YowGroupsProtocolLayer", "YowMediaProtocolLayer", "YowPrivacyProtocolLayer",
               "YowProfilesProtocolLayer"]
REQ_VARS = ["layer", "axolotl", "groups", "media", "privacy", "profiles", "allLayers",
            "YOWSUP_PROTOCOL_LAYERS_BASIC", "YOWSUP_FULL_STACK", "YOWSUP_CORE_LAYERS",
            "YOWSUP_PROTOCOL_LAYERS_FULL"]


class TranslateError(Exception):
    pass


def _fail(node, what):
    raise TranslateError("line %s: %s" % (getattr(node, "lineno", "?"), what))


class _Names(object):
    """interning of identifiers; ids are positions in the sorted name lists"""

    def __init__(self):
        self.classes, self.vars, self.funs = set(REQ_CLASSES), set(REQ_VARS), set(HELPERS)

    def finish(self):
        self.cid = {n: i + 1 for i, n in enumerate(sorted(self.classes))}
        self.vid = {n: i + 1 for i, n in enumerate(sorted(self.vars))}
        self.fid = {n: i + 1 for i, n in enumerate(sorted(self.funs))}


def _imported(tree):
    names = set()
    for st in tree.body:
        if isinstance(st, ast.ImportFrom):
            for a in st.names:
                names.add(a.asname or a.name)
    return names


class _Tx(object):
    """expression / statement transcription; produces Coq source text"""

    def __init__(self, names, imported, known_vars):
        self.n, self.imported, self.known = names, imported, set(known_vars)

    def is_class(self, name):
        return name in self.imported and name not in self.known and \
            name not in ("YowParallelLayer", "YowStack", "YowStackBuilder", "YowLayer")

    def var(self, node, name):
        if name not in self.known:
            _fail(node, "unknown name %r" % name)
        self.n.vars.add(name)
        return name

    def elem(self, e):
        if isinstance(e, ast.Name):
            if self.is_class(e.id):
                self.n.classes.add(e.id)
                return ("cls", e.id)
            return ("lvar", self.var(e, e.id))
        if isinstance(e, ast.Call) and isinstance(e.func, ast.Name) and e.func.id == "YowParallelLayer":
            if len(e.args) != 1 or e.keywords:
                _fail(e, "YowParallelLayer(...) with unexpected arguments")
            return ("par", self.exp(e.args[0]))
        _fail(e, "unsupported tuple element %s" % ast.dump(e)[:80])

    def exp(self, e):
        if isinstance(e, ast.Name):
            return ("var", self.var(e, e.id))
        if isinstance(e, ast.Tuple):
            return ("tuple", [self.elem(x) for x in e.elts])
        if isinstance(e, ast.BinOp) and isinstance(e.op, ast.Add):
            return ("add", self.exp(e.left), self.exp(e.right))
        if isinstance(e, ast.Subscript):
            s = e.slice
            ok = isinstance(s, ast.Slice) and s.lower is None and s.upper is None and (
                (isinstance(s.step, ast.UnaryOp) and isinstance(s.step.op, ast.USub)
                 and isinstance(s.step.operand, ast.Constant) and s.step.operand.value == 1)
                or (isinstance(s.step, ast.Constant) and s.step.value == -1))
            if not ok:
                _fail(e, "unsupported subscript (only [::-1])")
            return ("rev", self.exp(e.value))
        if isinstance(e, ast.Call):
            f = e.func
            if not (isinstance(f, ast.Attribute) and isinstance(f.value, ast.Name)
                    and f.value.id == "YowStackBuilder" and f.attr in HELPERS):
                _fail(e, "unsupported call %s" % ast.dump(f)[:80])
            pargs, kargs = [], []
            for a in e.args:
                if not isinstance(a, ast.Name):
                    _fail(a, "positional argument is not a name")
                pargs.append(self.var(a, a.id))
            for k in e.keywords:
                if k.arg is None or not isinstance(k.value, ast.Name):
                    _fail(e, "keyword argument is not name=name")
                self.n.vars.add(k.arg)
                kargs.append((k.arg, self.var(k.value, k.value.id)))
            return ("call", f.attr, pargs, kargs)
        _fail(e, "unsupported expression %s" % ast.dump(e)[:80])

    def stmts(self, body, rev_default):
        out = []
        for st in body:
            if isinstance(st, ast.Expr) and isinstance(st.value, ast.Constant) and isinstance(st.value.value, str):
                continue  # docstring
            if isinstance(st, ast.Assign):
                if len(st.targets) != 1 or not isinstance(st.targets[0], ast.Name):
                    _fail(st, "unsupported assignment target")
                rhs = self.exp(st.value)
                self.known.add(st.targets[0].id)
                out.append(("assign", self.var(st, st.targets[0].id), rhs))
            elif isinstance(st, ast.AugAssign):
                if not (isinstance(st.target, ast.Name) and isinstance(st.op, ast.Add)):
                    _fail(st, "unsupported augmented assignment")
                out.append(("aug", self.var(st, st.target.id), self.exp(st.value)))
            elif isinstance(st, ast.If):
                if st.orelse or not isinstance(st.test, ast.Name):
                    _fail(st, "unsupported if (only `if <name>:` without else)")
                out.append(("if", self.var(st, st.test.id), self.stmts(st.body, rev_default)))
            elif isinstance(st, ast.Return):
                v = st.value
                if isinstance(v, ast.Call) and isinstance(v.func, ast.Name) and v.func.id == "YowStack":
                    if len(v.args) != 1:
                        _fail(st, "YowStack(...) call shape")
                    rev = rev_default
                    for k in v.keywords:
                        if k.arg == "reversed" and isinstance(k.value, ast.Constant) \
                                and isinstance(k.value.value, bool):
                            rev = k.value.value
                        else:
                            _fail(st, "YowStack(...) keyword %r" % k.arg)
                    out.append(("retstack", self.exp(v.args[0]), bool(rev)))
                elif v is None:
                    _fail(st, "bare return")
                else:
                    out.append(("ret", self.exp(v)))
            else:
                _fail(st, "unsupported statement %s" % type(st).__name__)
        return out


# ---- the intermediate form printed as Coq (deep embedding of coq/C18/C18Model.v)

def coq_elem(l):
    k = l[0]
    if k == "cls":
        return "LCls c_%s" % l[1]
    if k == "par":
        return "LPar (%s)" % coq_exp(l[1])
    return "LVar v_%s" % l[1]


def coq_exp(e):
    k = e[0]
    if k == "var":
        return "EVar v_%s" % e[1]
    if k == "tuple":
        return "ETuple [%s]" % "; ".join(coq_elem(x) for x in e[1])
    if k == "add":
        return "EAdd (%s) (%s)" % (coq_exp(e[1]), coq_exp(e[2]))
    if k == "rev":
        return "ERev (%s)" % coq_exp(e[1])
    return "ECall f_%s [%s] [%s]" % (e[1], "; ".join("v_" + a for a in e[2]),
                                     "; ".join("(v_%s, v_%s)" % kv for kv in e[3]))


def coq_stmt(s):
    k = s[0]
    if k == "assign":
        return "SAssign v_%s (%s)" % (s[1], coq_exp(s[2]))
    if k == "aug":
        return "SAug v_%s (%s)" % (s[1], coq_exp(s[2]))
    if k == "if":
        return "SIf v_%s [%s]" % (s[1], "; ".join(coq_stmt(x) for x in s[2]))
    if k == "ret":
        return "SReturn (%s)" % coq_exp(s[1])
    return "SReturnStack (%s) %s" % (coq_exp(s[1]), "true" if s[2] else "false")


COQ_DEFAULT = {"true": "VBool true", "false": "VBool false", "none": "VLayer None"}


def _const_value(node):
    if isinstance(node, ast.Constant) and isinstance(node.value, bool):
        return "true" if node.value else "false"
    if isinstance(node, ast.Constant) and node.value is None:
        return "none"
    _fail(node, "parameter default is not True/False/None")


def _module_consts(tree, names, imported, tx_known):
    """module-level `NAME = <tuple expression>` (names in capitals); returns [(name, coq)]"""
    out = []
    tx = _Tx(names, imported, tx_known)
    for st in tree.body:
        if isinstance(st, ast.Assign) and len(st.targets) == 1 and isinstance(st.targets[0], ast.Name) \
                and st.targets[0].id.isupper():
            name = st.targets[0].id
            rhs = tx.exp(st.value)
            tx.known.add(name)
            names.vars.add(name)
            out.append((name, rhs))
    return out, tx.known


def translate(repo=None):
    repo = repo or REPO
    p_stack = os.path.join(repo, "yowsup", "stacks", "yowstack.py")
    p_init = os.path.join(repo, "yowsup", "stacks", "__init__.py")
    t_stack = ast.parse(open(p_stack).read(), p_stack)
    t_init = ast.parse(open(p_init).read(), p_init)
    names = _Names()
    imp_stack, imp_init = _imported(t_stack), _imported(t_init)

    # --- yowstack.py: module constants (upper-case tuple assignments; `logger = ...` is lower-case)
    gl, known = _module_consts(t_stack, names, imp_stack, [])
    # --- YowStack.__init__ default of `reversed`
    rev_default = None
    builder = None
    for st in t_stack.body:
        if isinstance(st, ast.ClassDef) and st.name == "YowStack":
            for f in st.body:
                if isinstance(f, ast.FunctionDef) and f.name == "__init__":
                    a = f.args
                    pn = [x.arg for x in a.args]
                    if "reversed" not in pn:
                        _fail(f, "YowStack.__init__ has no `reversed` parameter")
                    d = a.defaults[pn.index("reversed") - (len(pn) - len(a.defaults))]
                    if not (isinstance(d, ast.Constant) and isinstance(d.value, bool)):
                        _fail(f, "default of `reversed` is not a bool literal")
                    rev_default = d.value
        if isinstance(st, ast.ClassDef) and st.name == "YowStackBuilder":
            builder = st
    if rev_default is None or builder is None:
        raise TranslateError("YowStack.__init__ / YowStackBuilder not found")
    funs = []
    found = {}
    for f in builder.body:
        if isinstance(f, ast.FunctionDef) and f.name in HELPERS:
            if f.name in found:
                _fail(f, "duplicate definition of %s" % f.name)
            found[f.name] = f
    for h in HELPERS:
        if h not in found:
            raise TranslateError("helper %s not found" % h)
        f = found[h]
        if not (len(f.decorator_list) == 1 and isinstance(f.decorator_list[0], ast.Name)
                and f.decorator_list[0].id == "staticmethod"):
            _fail(f, "%s is not a plain @staticmethod" % h)
        a = f.args
        if a.vararg or a.kwarg or a.kwonlyargs or getattr(a, "posonlyargs", []):
            _fail(f, "unsupported parameter kinds in %s" % h)
        if len(a.defaults) != len(a.args):
            _fail(f, "%s: a parameter without default" % h)
        params = []
        for x, d in zip(a.args, a.defaults):
            names.vars.add(x.arg)
            params.append((x.arg, _const_value(d)))
        tx = _Tx(names, imp_stack, list(known) + [x.arg for x in a.args])
        body = tx.stmts(f.body, rev_default)
        funs.append((h, params, body))
    # --- __init__.py constants, in order
    ic, _ = _module_consts(t_init, names, imp_init, [])
    for r in REQ_VARS:
        if r.isupper() and r not in [n for n, _ in gl] + [n for n, _ in ic]:
            raise TranslateError("constant %s not found" % r)
    src_classes = set(names.classes)
    for r in REQ_CLASSES:
        if r not in imp_stack:
            raise TranslateError("class %s is not imported by yowstack.py" % r)
    names.finish()
    ir = {"gl": gl, "funs": funs, "ic": ic, "rev_default": rev_default}
    return _emit(names, gl, funs, ic, rev_default, True), _info(names, True, None), ir


def _info(names, ok, err):
    return {"ok": ok, "error": err,
            "classes": {v: k for k, v in names.cid.items()},
            "vars": dict(names.vid), "funs": dict(names.fid)}


HEADER = ["(* GENERATED on every run by harness/translators/c18_layers.py from",
          "   yowsup/stacks/yowstack.py and yowsup/stacks/__init__.py — do not edit. *)"]


def _emit(names, gl, funs, ic, rev_default, ok, header=None):
    o = list(header or HEADER) + [
         "From YV Require Import Common.Tac C18.C18Model.",
         "Local Open Scope N_scope.", ""]
    for n, i in sorted(names.cid.items(), key=lambda x: x[1]):
        o.append("Definition c_%s : N := %d." % (n, i))
    for n, i in sorted(names.vid.items(), key=lambda x: x[1]):
        o.append("Definition v_%s : N := %d." % (n, i))
    for n, i in sorted(names.fid.items(), key=lambda x: x[1]):
        o.append("Definition f_%s : N := %d." % (n, i))
    o.append("")
    o.append("Definition translated_ok : bool := %s." % ("true" if ok else "false"))
    o.append("Definition stack_reversed_default : bool := %s." % ("true" if rev_default else "false"))
    o.append("")
    o.append("(* module-level tuple constants of yowstack.py, as statements in source order *)")
    o.append("Definition global_consts : list stmt := [")
    o.append(";\n".join("  SAssign v_%s (%s)" % (n, coq_exp(e)) for n, e in gl))
    o.append("].")
    o.append("")
    o.append("Definition funs : list (N * fundef) := [")
    fs = []
    for h, params, body in funs:
        fs.append("  (f_%s, mkFun [%s]\n    [%s])" % (
            h, "; ".join("(v_%s, %s)" % (p, COQ_DEFAULT[d]) for p, d in params),
            ";\n     ".join(coq_stmt(x) for x in body)))
    o.append(";\n".join(fs))
    o.append("].")
    o.append("")
    o.append("(* module-level tuple constants of yowsup/stacks/__init__.py, in source order *)")
    o.append("Definition init_consts : list stmt := [")
    o.append(";\n".join("  SAssign v_%s (%s)" % (n, coq_exp(e)) for n, e in ic))
    o.append("].")
    o.append("")
    return "\n".join(o)


def _write(text):
    os.makedirs(os.path.dirname(OUT), exist_ok=True)
    old = open(OUT).read() if os.path.exists(OUT) else None
    if old != text:           # keep the timestamp when nothing changed: no needless rebuild
        with open(OUT, "w") as f:
            f.write(text)


class GenLock(object):
    """coq/Gen/C18Layers.v (and ocaml/build/C18) are shared by every process that runs this
    translator — concurrent `./check C18` runs, setup, other checks calling regen_all — possibly
    against different trees.  The C18 check holds this lock from regenerate until its model
    process is running; every other caller of regenerate() takes it for the rewrite."""

    def __enter__(self):
        d = os.path.dirname(OUT)
        os.makedirs(d, exist_ok=True)
        self.f = open(os.path.join(d, ".C18.lock"), "w")
        fcntl.flock(self.f, fcntl.LOCK_EX)
        return self

    def __exit__(self, *a):
        fcntl.flock(self.f, fcntl.LOCK_UN)
        self.f.close()


# ------------------------------------------------------------------------------------------------
# the transcription interpreted in Python (mirror of eval_exp / exec / call_fun in C18Model.v);
# used only to compare the transcription with the evaluated table
# ------------------------------------------------------------------------------------------------

class _ModelErr(Exception):
    pass


TOP = stack_eval.TOP


def _is_cls(x):
    return isinstance(x, str) and x != TOP


class _PyModel(object):
    def __init__(self, ir):
        self.funs = dict((h, (params, body)) for h, params, body in ir["funs"])
        self.globals = {}
        self.globals = self._consts(ir["gl"])
        self.init = self._consts(ir["ic"])

    def _consts(self, lst):
        env, saved = {}, self.globals
        self.globals = {}
        try:
            for name, e in lst:
                env[name] = self.exp(env, e, 50)
        finally:
            self.globals = saved
        return env

    def lookup(self, env, v):
        if v in env:
            return env[v]
        if v in self.globals:
            return self.globals[v]
        raise _ModelErr("unbound " + v)

    def elem(self, env, l, fuel):
        k = l[0]
        if k == "cls":
            return l[1]
        if k == "par":
            inner = self.exp(env, l[1], fuel)
            if not all(_is_cls(x) for x in inner):
                raise _ModelErr("group of non-classes")
            return ["par", inner]
        v = self.lookup(env, l[1])
        if isinstance(v, tuple) and v[0] == "layer" and v[1] is not None:
            return v[1]
        if isinstance(v, list):
            if not all(_is_cls(x) for x in v):
                raise _ModelErr("group of non-classes")
            return ["tup", list(v)]
        raise _ModelErr("not a layer")

    def exp(self, env, e, fuel):
        if fuel <= 0:
            raise _ModelErr("fuel")
        k = e[0]
        if k == "var":
            v = self.lookup(env, e[1])
            if not isinstance(v, list):
                raise _ModelErr("not a tuple")
            return list(v)
        if k == "tuple":
            return [self.elem(env, x, fuel - 1) for x in e[1]]
        if k == "add":
            return self.exp(env, e[1], fuel - 1) + self.exp(env, e[2], fuel - 1)
        if k == "rev":
            return self.exp(env, e[1], fuel - 1)[::-1]
        pv = [self.lookup(env, a) for a in e[2]]
        kv = [(kk, self.lookup(env, a)) for kk, a in e[3]]
        r = self.call(e[1], pv, kv, fuel - 1)
        if r[0] != "val":
            raise _ModelErr("call does not return a tuple")
        return r[1]

    @staticmethod
    def truthy(v):
        if isinstance(v, bool):
            return v
        if isinstance(v, list):
            return len(v) > 0
        return v[1] is not None

    def run(self, env, body, fuel):
        for st in body:
            k = st[0]
            if k == "assign":
                env[st[1]] = self.exp(env, st[2], fuel)
            elif k == "aug":
                old = self.lookup(env, st[1])
                if not isinstance(old, list):
                    raise _ModelErr("+= on a non-tuple")
                env[st[1]] = old + self.exp(env, st[2], fuel)
            elif k == "if":
                if self.truthy(self.lookup(env, st[1])):
                    r = self.run(env, st[2], fuel - 1)
                    if r is not None:
                        return r
            elif k == "ret":
                return ("val", self.exp(env, st[1], fuel))
            else:
                return ("stack", self.exp(env, st[1], fuel), st[2])
        return None

    def call(self, f, pargs, kargs, fuel=50):
        if f not in self.funs or fuel <= 0:
            raise _ModelErr("no function " + f)
        params, body = self.funs[f]
        if len(pargs) > len(params):
            raise _ModelErr("TypeError: too many positional arguments")
        env = dict((p[0], a) for p, a in zip(params, pargs))
        for k, a in kargs:
            if k not in [p[0] for p in params]:
                raise _ModelErr("TypeError: unexpected keyword " + k)
            if k in env:
                raise _ModelErr("TypeError: multiple values for " + k)
            env[k] = a
        for n, d in params:
            if n not in env:
                env[n] = {"true": True, "false": False}.get(d, ("layer", None))
        r = self.run(env, body, fuel)
        if r is None:
            raise _ModelErr("no return")
        return r

    def described(self, f, kw):
        """call by keywords -> the same description stack_eval gives for the real helper"""
        try:
            r = self.call(f, [], list(kw.items()))
        except (_ModelErr, RecursionError) as e:
            return {"exc": "model: %s" % e}
        if r[0] == "val":
            return {"val": r[1]}
        layout = r[1][::-1] if r[2] else r[1]
        return {"val": [["par", x[1]] if isinstance(x, list) and x[0] == "tup" else x for x in layout]}


def _agree(m, e):
    if "exc" in m or "exc" in e:
        return "exc" in m and "exc" in e
    return "val" in e and m.get("val") == e["val"]


def compare_with_table(ir, table):
    """-> list of disagreements between the transcription and the evaluated helpers"""
    pm = _PyModel(ir)
    out = []

    def chk(helper, kw, top, ev):
        mkw = dict(kw)
        if helper == "getDefaultStack":
            mkw["layer"] = ("layer", None if top == "none" else TOP)
        m = pm.described(helper, mkw)
        if not _agree(m, ev):
            out.append({"helper": helper, "selection": dict(kw, **({"layer": top} if helper == "getDefaultStack" else {})),
                        "syntactic": m, "evaluated": ev})
    chk("getCoreLayers", {}, "none", table.core)
    for sel in stack_eval.SELECTIONS:
        chk("getProtocolLayers", sel, "none", table.value("getProtocolLayers", sel))
        chk("getDefaultLayers", sel, "none", table.value("getDefaultLayers", sel))
        for top in stack_eval.TOPKINDS:
            for ax in (False, True):
                chk("getDefaultStack", dict(sel, axolotl=ax), top, table.value("getDefaultStack", sel, top, ax))
    for h, params, _ in ir["funs"]:
        ev = [(n, d) for n, d, _k in table.sig[h]]
        if [tuple(x) for x in params] != ev:
            out.append({"helper": h, "selection": "signature", "syntactic": params, "evaluated": ev})
    if ir["rev_default"] != table.rev_default:
        out.append({"helper": "YowStack.__init__", "selection": "default of reversed",
                    "syntactic": ir["rev_default"], "evaluated": table.rev_default})
    for key, env, lst in (("yowstack", pm.globals, ir["gl"]), ("init", pm.init, ir["ic"])):
        evd = dict((n, d) for n, d in table.consts[key])
        for name, _ in lst:
            ev = evd.get(name)
            if ev is None or ev.get("type") != "tuple" or ev.get("val") != env.get(name):
                out.append({"helper": "constant " + name, "selection": key, "syntactic": env.get(name), "evaluated": ev})
    return out


# ------------------------------------------------------------------------------------------------
# the Gen file from the evaluated table (source shape not recognised)
# ------------------------------------------------------------------------------------------------

EXPECT_PARAMS = {"getCoreLayers": (), "getProtocolLayers": stack_eval.FLAGS, "getDefaultLayers": stack_eval.FLAGS,
                 "getDefaultStack": ("layer", "axolotl") + stack_eval.FLAGS}


def _usable(what, res):
    if "exc" in res:
        raise TranslateError("%s raised %s" % (what, res["exc"]))
    bad = stack_eval.bad_entries(res)
    if bad:
        raise TranslateError("%s: %s" % (what, "; ".join(bad)))
    return res["val"]


def _elems(what, items, names, consts=None):
    out = []
    for x in items:
        if x == TOP:
            out.append(("lvar", "layer"))
        elif isinstance(x, str):
            names.classes.add(x)
            out.append(("cls", x))
        elif x[0] == "par" and all(_is_cls(y) for y in x[1]):
            names.classes.update(x[1])
            out.append(("par", ("tuple", [("cls", y) for y in x[1]])))
        elif x[0] == "tup" and consts is not None and all(_is_cls(y) for y in x[1]):
            hit = [n for n, v in consts if v == x[1]]
            if not hit:
                raise TranslateError("%s: a nested tuple that is not one of the earlier constants" % what)
            out.append(("lvar", hit[-1]))
        else:
            raise TranslateError("%s: entry %r cannot be expressed" % (what, x))
    return out


def _tree(vars_, leaf, asg):
    if not vars_:
        return [leaf(asg)]
    v = vars_[0]
    t = _tree(vars_[1:], leaf, dict(asg, **{v: True}))
    f = _tree(vars_[1:], leaf, dict(asg, **{v: False}))
    if t == f:
        return f
    return [("if", v, t)] + f


def from_table(table, reason):
    """IR + text from the evaluated helpers; TranslateError when the table cannot be used"""
    names = _Names()
    if not isinstance(table.rev_default, bool):
        raise TranslateError("YowStack.__init__ has no boolean default for `reversed`")
    funs = []
    for h in HELPERS:
        ps = table.sig[h]
        if sorted(p[0] for p in ps) != sorted(EXPECT_PARAMS[h]):
            raise TranslateError("%s: parameters %r, expected exactly %r (the evaluated input space is these flags)"
                                 % (h, [p[0] for p in ps], list(EXPECT_PARAMS[h])))
        for n, d, kind_ok in ps:
            if not kind_ok or d not in COQ_DEFAULT:
                raise TranslateError("%s: parameter %s is not a plain parameter with a True/False/None default" % (h, n))
            names.vars.add(n)
    sel_of = lambda a: dict((f, a[f]) for f in stack_eval.FLAGS)

    def label(h, a, top="none"):
        return stack_eval.call_label([h, a, top])
    core = _usable("getCoreLayers()", table.core)
    funs.append(("getCoreLayers", [], [("ret", ("tuple", _elems("getCoreLayers()", core, names)))]))
    for h in ("getProtocolLayers", "getDefaultLayers"):
        def leaf(a, h=h):
            v = _usable(label(h, a), table.value(h, sel_of(a)))
            return ("ret", ("tuple", _elems(label(h, a), v, names)))
        funs.append((h, [(n, d) for n, d, _ in table.sig[h]], _tree(list(stack_eval.FLAGS), leaf, {})))

    def sleaf(a):
        sel = sel_of(a)
        if a["layer"]:
            vc = _usable(label("getDefaultStack", a, "class"), table.value("getDefaultStack", sel, "class", a["axolotl"]))
            vi = _usable(label("getDefaultStack", a, "instance"),
                         table.value("getDefaultStack", sel, "instance", a["axolotl"]))
            if vc != vi:
                raise TranslateError("getDefaultStack treats a layer class and a layer instance differently: %s"
                                     % label("getDefaultStack", a, "class"))
            v = vc
        else:
            v = _usable(label("getDefaultStack", a), table.value("getDefaultStack", sel, "none", a["axolotl"]))
        # the value is the wired stack, bottom first = the spec handed to YowStack(..., reversed = False)
        return ("retstack", ("tuple", _elems(label("getDefaultStack", a), v, names)), False)
    funs.append(("getDefaultStack", [(n, d) for n, d, _ in table.sig["getDefaultStack"]],
                 _tree(["layer", "axolotl"] + list(stack_eval.FLAGS), sleaf, {})))
    lists = {}
    for key in ("yowstack", "init"):
        out, seen = [], []
        for name, d in table.consts[key]:
            v = _usable("constant " + name, d)
            out.append((name, ("tuple", _elems("constant " + name, v, names, consts=seen))))
            seen.append((name, v))
            names.vars.add(name)
        lists[key] = out
    have = [n for n, _ in lists["yowstack"]] + [n for n, _ in lists["init"]]
    for r in REQ_VARS:
        if r.isupper() and r not in have:
            raise TranslateError("constant %s not found" % r)
    names.finish()
    why = str(reason).replace("(*", "( *").replace("*)", "* )")
    header = ["(* GENERATED on every run by harness/translators/c18_layers.py — do not edit.",
              "   EVALUATED TABLE.  The shape of yowsup/stacks/yowstack.py / stacks/__init__.py is not one the",
              "   syntactic transcription recognises (%s)." % why,
              "   The function bodies below are decision trees over the flags; every leaf is the value the real",
              "   helper returned as the first call of a fresh process (harness/translators/stack_eval.py). *)"]
    ir = {"gl": lists["yowstack"], "funs": funs, "ic": lists["init"], "rev_default": table.rev_default}
    return _emit(names, ir["gl"], funs, ir["ic"], table.rev_default, True, header), _info(names, True, None), ir


def regenerate(repo=None, have_lock=False, scratch=None):
    """Rewrite coq/Gen/C18Layers.v.  Returns info (ok flag, id tables, which path produced the
    file, disagreements, call-history findings).  Never raises: when neither the transcription
    nor the evaluated table is usable a stub without functions is written and info['ok'] is False."""
    if not have_lock:
        with GenLock():
            return regenerate(repo, True, scratch)
    text, info = analyse(repo, scratch)
    _write(text)
    return info


def analyse(repo=None, scratch=None):
    """(text of the Gen file, info) without writing anything"""
    repo = repo or REPO
    syn = table = None
    syn_err = ev_err = None
    try:
        syn = translate(repo)
    except (TranslateError, SyntaxError, OSError) as e:
        syn_err = "%s: %s" % (type(e).__name__, e)
    try:
        table = stack_eval.evaluate(repo, scratch)
    except stack_eval.EvalError as e:
        ev_err = str(e)
    extra = {"tie_problems": [], "history_findings": [], "eval": None}
    if table is not None:
        extra["history_findings"] = table.history_findings
        extra["eval"] = {"first_calls_each_in_its_own_process": table.n_calls,
                         "calls_in_histories": table.n_history_calls,
                         "history_dependent_results": len(table.history_findings), "wall_s": table.wall_s}
    if syn is not None:
        text, info, ir = syn
        info.update(extra)
        if table is None:
            info["path"] = "syntactic only (EVALUATION FAILED: %s)" % ev_err
            info["tie_problems"].append(("translator:c18_layers.evaluation", {"detail": ev_err}))
        else:
            dis = compare_with_table(ir, table)
            info["path"] = "syntactic+evaluated (agree)" if not dis else \
                "syntactic+evaluated (DISAGREE on %d points)" % len(dis)
            info["tie_problems"] += [("translator:c18_layers.syntactic-vs-evaluated", d) for d in dis]
        return text, info
    if table is not None:
        try:
            text, info, ir = from_table(table, syn_err)
            info.update(extra)
            info["path"] = "evaluated only (source shape not recognised: %s)" % syn_err
            return text, info
        except TranslateError as e:
            ev_err = "evaluated table not usable: %s" % e
    names = _Names()
    names.finish()
    text = _emit(names, [], [], [], True, False)
    info = _info(names, False, "syntactic: %s; evaluated: %s" % (syn_err, ev_err))
    info.update(extra)
    info["path"] = "none (neither the transcription nor the evaluation is usable)"
    return text, info
